#!/bin/sh
# builds /verif/bin/mbcheck from /verif/checker, offline
set -e
cd "$(dirname "$0")"
. ./env.sh
mkdir -p bin evidence
cd checker
go build -o ../bin/mbcheck ./cmd/mbcheck

#!/usr/bin/env python3
"""Which hand-written, non-test functions of /repo carry at least one obligation (by position) in the evidence files?
Writes notes/coverage-map.txt: the functions (>= 10 lines) that NO rule looks into, largest first. A crude map (positions
are matched by file:line ranges of top-level `func` declarations); it is a reading aid for DESIGN.md Appendix F, not a check."""
import json,glob,re,collections,os
pos=collections.defaultdict(set)
for f in glob.glob('/verif/evidence/C*.json'):
    for m in re.finditer(r'([a-zA-Z0-9_/.-]+\.go):(\d+)', open(f).read()):
        pos[m.group(1)].add(int(m.group(2)))
res=[]
for root,_,fs in os.walk('/repo'):
    if '/.git' in root: continue
    for fn in fs:
        if not fn.endswith('.go') or fn.endswith('_test.go'): continue
        p=os.path.join(root,fn); rel=os.path.relpath(p,'/repo'); src=open(p).read()
        if 'Code generated' in src[:400] or rel.startswith(('internal/go-compat','internal/swagger-ui','magefile')): continue
        lines=src.split('\n'); starts=[i+1 for i,l in enumerate(lines) if l.startswith('func ')]+[len(lines)+1]
        for a,b in zip(starts,starts[1:]):
            n=sum(1 for l in pos.get(rel,()) if a<=l<b)
            res.append((rel,a,b-a,n,lines[a-1].split('{')[0].strip()[:100]))
blind=sorted([r for r in res if r[3]==0 and r[2]>=10], key=lambda r:(r[0],r[1]))
seen=sorted([r for r in res if r[3]>0], key=lambda r:(-r[3]))
os.makedirs('/verif/notes',exist_ok=True)
with open('/verif/notes/coverage-map.txt','w') as o:
    o.write(f"{len(res)} hand-written functions; {len(seen)} carry obligations; {len(blind)} of >=10 lines carry none\n\n== no obligation ==\n")
    for r in blind: o.write(f"{r[0]}:{r[1]} ({r[2]} lines) {r[4]}\n")
    o.write("\n== most obligations ==\n")
    for r in seen[:40]: o.write(f"{r[3]:4d} {r[0]}:{r[1]} {r[4]}\n")
print(open('/verif/notes/coverage-map.txt').readline())

#!/usr/bin/env python3
# regenerates MANIFEST.json from the table below (keeps it valid and in step with the checker)
import json, subprocess
ids=[json.loads(l)['id'] for l in open('/verif/properties.jsonl')]
claimed = {
 "C01": ("ownership ([who]) tables over every ORM statement, exact atom sets of the prune/ack/pull statements, loop/dominance rules for the publish fan-out", "§4 C01"),
 "C02": ("scoping atoms of every delivery mutation, immutability of message rows, data-dependence (provenance) of content fields end to end", "§4 C02"),
 "C03": ("who may clear completed_at, pull excludes completed rows, who creates delivery rows, error-origin rule for ack/nack/modify-deadline", "§4 C03"),
 "C04": ("due-only selection, row-lock atoms, per-element lease update in the selecting transaction, postpone-only guard, backoff data dependence", "§4 C04"),
 "C05": ("same-key predecessor lookup shape, link dominance, exact eligibility gate, SET NULL foreign key in schema and SQL", "§4 C05"),
 "C06": ("callers and trigger dominance of dead-lettering, either-or reachability, retire-on-every-success-path, forward set atoms", "§4 C06"),
 "C07": ("path enumeration of the routing gate, grammar-tag / constant / switch agreement (K7), purity of the evaluator's call closure, idiom-bound leaf shapes", "§4 C07"),
 "C08": ("validate-before-persist dominance on the same string, printer sanitisation data dependence, identifier guard of unquoted names, printer exhaustiveness", "§4 C08"),
 "C09": ("error-flow (K5) over every storage call, commit-hook discipline (K4), transaction-helper dominance, one-operation-one-transaction", "§4 C09"),
 "C10": ("register-before-query on every path from entry and wake edges, broadcast-loop exits, writers-notify path rule, lockset over the waiter maps", "§4 C10"),
 "C11": ("must-lockset over the streamer's shared state, pending-before-send dominance, limits-minus-pending loop shape, wake-after-release path rule, interval analysis of effectiveFlowControl", "§4 C11"),
 "C12": ("live-only name resolution atoms, create/exists/duplicate-key mapping, soft-delete mutators, unique indexes, List sibling agreement and keyset pagination", "§4 C12"),
 "C13": ("partition atoms of the seek updates over the same operands, re-open mutators, snapshot content queries", "§4 C13"),
 "C14": ("creation timestamps data dependence, expiry refresh dominance, sweep atoms, delay guard", "§4 C14"),
 "C15": ("exact selection atoms of every prune job, age threshold shape, referential actions, service registry", "§4 C15"),
 "C16": ("abstract interpretation (intervals/nilness/emptiness/zero-time, bounded disjunctive states, request taint) of every RPC handler against the constructors' panic preconditions and nil dereferences", "§4 C16"),
 "C17": ("data dependence of every configuration field request → parameter → column → response, update-mask path → column-set table, no-op shortcut coverage", "§4 C17"),
 "C18": ("atomic-only access to the shared count, sign-wise reachability of the firing call, must-lockset over the fault table, subset-match dominance, pooled map clearing", "§4 C18"),
 "C19": ("status-comparison → outcome-queue table, envelope data dependence, inductive interval invariant of the push window, must-lockset, queue → Ack/Nack mapping", "§4 C19"),
}
technique = {
 "C16": "static analysis: abstract interpretation over go/ssa (finite domains, trace partitioning, request taint) + transaction-discipline dominance rules",
 "C09": "static analysis: error-flow and commit-hook dominance rules over go/ssa; ORM statement shapes",
 "C10": "static analysis: path/dominance rules over go/ssa CFGs, must-lockset dataflow, commit-hook discipline",
}
na = {}
checks=[]
for i in ids:
    if i in claimed:
        what, ref = claimed[i]
        checks.append({
            "property_id": i,
            "quick_cmd": f"./run.sh {i} quick",
            "thorough_cmd": f"./run.sh {i} thorough",
            "evidence_file": f"/verif/evidence/{i}.json",
            "replay_cmd_template": "/verif/bin/mbcheck explain {path}",
            "engine": "mbcheck",
            "level_claimed": {"category": "other",
                "text": "Static analysis of the resolved SSA program of /repo's working tree: decides structural NECESSARY conditions of the property on every path of every function the build contains (" + what + "). It does not decide the behavioural statement itself (histories, schedules, clock arithmetic, database semantics) — see the evidence file's explanation for the clauses decided and not decided.",
                "design_ref": "DESIGN.md " + ref},
            "level_note": "Trusted: go/packages+go/ssa (x/tools v0.50.0), ent's generated API mapping (setter -> column constants, predicate -> sql.Field* call), the database executing statements as rendered. Rules are necessary conditions only.",
            "technique": technique.get(i, "static analysis: custom SSA/AST rules (ORM statement shape abstraction, ownership tables, dominance, data dependence) via go/packages + go/ssa"),
        })
    else:
        na[i] = "check not built yet (work in progress; see DESIGN.md Appendix B)"
m={
 "version":1,
 "setup_cmd":"cd /verif && ./build.sh",
 "hooks":{"guard":"verif","enable":"none needed: the checker only reads /repo's sources (no hooks, no source commits)","baseline_off_cmd":"cd /repo && go test -mod=mod -json -vet=off -count=1 -timeout 25m ./...","source_commits":[],"add_only":True},
 "engines":[{"name":"mbcheck","path":"/verif/checker","serves_properties":sorted(claimed),"kind_free_text":"repository-specific static analyser over go/packages + go/ssa (golang.org/x/tools v0.50.0, go1.26.8); one load of ./..., per-property rule tables, positive controls and seeded mutants by overlay"}],
 "checks":checks,
 "notes":"Static analysis only; see DESIGN.md. Genuine defects found were repaired by fix: commits in /repo and are recorded in known-findings.json.",
 "not_applicable":[{"property_id":i,"reason":na[i]} for i in ids if i in na]
}
json.dump(m,open('/verif/MANIFEST.json','w'),indent=1)

#!/usr/bin/env python3
# regenerates MANIFEST.json from the table below (keeps it valid and in step with the checker)
import json, subprocess
ids=[json.loads(l)['id'] for l in open('/verif/properties.jsonl')]
claimed = {
 "C01": ("ownership ([who]) tables over every ORM statement, exact atom sets of the prune/ack/pull statements, loop/dominance rules for the publish fan-out", "§4 C01"),
 "C02": ("scoping atoms of every delivery mutation, immutability of message rows, data-dependence (provenance) of content fields end to end", "§4 C02"),
 "C03": ("who may clear completed_at, pull excludes completed rows, who creates delivery rows, error-origin rule for ack/nack/modify-deadline", "§4 C03"),
}
na = {}
checks=[]
for i in ids:
    if i in claimed:
        what, ref = claimed[i]
        checks.append({
            "property_id": i,
            "quick_cmd": f"./run.sh {i} quick",
            "thorough_cmd": f"./run.sh {i} thorough",
            "evidence_file": f"/verif/evidence/{i}.json",
            "replay_cmd_template": "/verif/bin/mbcheck explain {path}",
            "engine": "mbcheck",
            "level_claimed": {"category": "other",
                "text": "Static analysis of the resolved SSA program of /repo's working tree: decides structural NECESSARY conditions of the property on every path of every function the build contains (" + what + "). It does not decide the behavioural statement itself (histories, schedules, clock arithmetic, database semantics) — see the evidence file's explanation for the clauses decided and not decided.",
                "design_ref": "DESIGN.md " + ref},
            "level_note": "Trusted: go/packages+go/ssa (x/tools v0.50.0), ent's generated API mapping (setter -> column constants, predicate -> sql.Field* call), the database executing statements as rendered. Rules are necessary conditions only.",
            "technique": "static analysis: custom SSA/AST rules (ORM statement shape abstraction, ownership tables, dominance, data dependence) via go/packages + go/ssa",
        })
    else:
        na[i] = "check not built yet (work in progress; see DESIGN.md Appendix B)"
m={
 "version":1,
 "setup_cmd":"cd /verif && ./build.sh",
 "hooks":{"guard":"verif","enable":"none needed: the checker only reads /repo's sources (no hooks, no source commits)","baseline_off_cmd":"cd /repo && go test -mod=mod -json -vet=off -count=1 -timeout 25m ./...","source_commits":[],"add_only":True},
 "engines":[{"name":"mbcheck","path":"/verif/checker","serves_properties":sorted(claimed),"kind_free_text":"repository-specific static analyser over go/packages + go/ssa (golang.org/x/tools v0.50.0, go1.26.8); one load of ./..., per-property rule tables, positive controls and seeded mutants by overlay"}],
 "checks":checks,
 "notes":"Static analysis only; see DESIGN.md. Genuine defects found were repaired by fix: commits in /repo and are recorded in known-findings.json.",
 "not_applicable":[{"property_id":i,"reason":na[i]} for i in ids if i in na]
}
json.dump(m,open('/verif/MANIFEST.json','w'),indent=1)

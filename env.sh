# offline Go environment for the checker (see DESIGN.md §1)
export PATH=/opt/veriftools/go1.26.8/bin:$PATH
export GOTOOLCHAIN=local GOFLAGS=-mod=mod GOPROXY=off GOSUMDB=off GOWORK=off
unset GOARCH GOOS

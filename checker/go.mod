module verif/checker

go 1.26.8

require golang.org/x/tools v0.50.0

require (
	golang.org/x/mod v0.41.0 // indirect
	golang.org/x/sync v0.23.0 // indirect
)

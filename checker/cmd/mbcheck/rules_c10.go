package main

import (
	"fmt"
	"go/token"
	"strings"

	"golang.org/x/tools/go/ssa"
)

// ---------------------------------------------------------------------------
// C10.1 / C10.2 register before query, in every epoch

func isPublishAwaiterCall(in ssa.Instruction) bool {
	call, ok := in.(*ssa.Call)
	if !ok {
		return false
	}
	cal := call.Call.StaticCallee()
	if cal != nil && fnIs(cal, modPath+"/actions", "PublishAwaiter") {
		return true
	}
	// a local helper closure that (re-)registers on every one of its paths
	var f *ssa.Function
	if cal != nil && cal.Parent() != nil {
		f = cal
	} else if mc, isMC := call.Call.Value.(*ssa.MakeClosure); isMC {
		f = mc.Fn.(*ssa.Function)
	} else if u, isU := call.Call.Value.(*ssa.UnOp); isU {
		if st := allocStores(u.X); len(st) == 1 {
			f = funcOf(st[0].Val)
		}
	}
	if f == nil || len(f.Blocks) == 0 {
		return false
	}
	var reg ssa.Instruction
	for _, b := range f.Blocks {
		for _, i2 := range b.Instrs {
			if c2, ok := i2.(*ssa.Call); ok {
				if k := c2.Call.StaticCallee(); k != nil && fnIs(k, modPath+"/actions", "PublishAwaiter") {
					reg = i2
				}
			}
		}
	}
	if reg == nil {
		return false
	}
	for _, ret := range returnsOf(f) {
		if !instrDominates(reg, ret) {
			return false
		}
	}
	return true
}

// notifierValue: v is (a load / phi / conversion of) PublishAwaiter results only (besides the zero value).
func notifierValue(v ssa.Value) bool {
	seen := map[ssa.Value]bool{}
	found := false
	var walk func(v ssa.Value, viaCell bool) bool
	walk = func(v ssa.Value, viaCell bool) bool {
		if seen[v] {
			return true
		}
		seen[v] = true
		v = strip(v)
		switch x := v.(type) {
		case *ssa.Call:
			if isPublishAwaiterCall(x) {
				found = true
				return true
			}
			return false
		case *ssa.Phi:
			for _, e := range x.Edges {
				// a nil put in by hand on some path (`wake := ch; if quiet { wake = nil }`) switches the wait off there:
				// the case never fires although the channel is registered and will be closed
				if k, isK := strip(e).(*ssa.Const); isK && k.Value == nil && !viaCell {
					return false
				}
				if !walk(e, viaCell) {
					return false
				}
			}
			return true
		case *ssa.UnOp:
			if x.Op == token.MUL {
				st := allocStores(x.X)
				if len(st) == 0 {
					return false
				}
				for _, s := range st {
					if !walk(s.Val, true) {
						return false
					}
				}
				return true
			}
		case *ssa.Const:
			return x.Value == nil
		case *ssa.Parameter:
			// inside a private wait helper: the channel is the caller's
			if b, ok := curBind[x]; ok {
				return walk(b, viaCell)
			}
		}
		return false
	}
	return walk(v, false) && found
}

type waitSite struct {
	sel       *ssa.Select
	caseIndex int
	epoch     *ssa.BasicBlock // successor taken when the notifier case fires
}

func notifierWaits(fn *ssa.Function) []waitSite {
	var out []waitSite
	for _, b := range fn.Blocks {
		for _, in := range b.Instrs {
			sel, ok := in.(*ssa.Select)
			if !ok {
				continue
			}
			for i, st := range sel.States {
				if st.Dir != 2 /* types.RecvOnly */ || !notifierValue(st.Chan) {
					continue
				}
				ws := waitSite{sel: sel, caseIndex: i}
				// find `extract #0 == i` dispatch
				if refs := sel.Referrers(); refs != nil {
					for _, r := range *refs {
						ex, ok := r.(*ssa.Extract)
						if !ok || ex.Index != 0 {
							continue
						}
						if er := ex.Referrers(); er != nil {
							for _, cmp := range *er {
								bo, ok := cmp.(*ssa.BinOp)
								if !ok || bo.Op != token.EQL {
									continue
								}
								if k, ok := constInt(bo.Y); ok && int(k) == i {
									if cr := bo.Referrers(); cr != nil {
										for _, u := range *cr {
											if iff, ok := u.(*ssa.If); ok {
												ws.epoch = iff.Block().Succs[0]
											}
										}
									}
								}
							}
						}
					}
				}
				// a select whose last case is this one has no comparison for it: the final else
				if ws.epoch == nil && i == len(sel.States)-1 {
					ws.epoch = lastSelectElse(sel)
				}
				out = append(out, ws)
			}
		}
	}
	return out
}

func lastSelectElse(sel *ssa.Select) *ssa.BasicBlock {
	// follow the chain of `index == k` tests to the final false successor
	var ex *ssa.Extract
	if refs := sel.Referrers(); refs != nil {
		for _, r := range *refs {
			if e, ok := r.(*ssa.Extract); ok && e.Index == 0 {
				ex = e
			}
		}
	}
	if ex == nil {
		return nil
	}
	var last *ssa.BasicBlock
	maxK := int64(-1)
	if er := ex.Referrers(); er != nil {
		for _, cmp := range *er {
			bo, ok := cmp.(*ssa.BinOp)
			if !ok {
				continue
			}
			k, ok := constInt(bo.Y)
			if !ok || k < maxK {
				continue
			}
			if cr := bo.Referrers(); cr != nil {
				for _, u := range *cr {
					if iff, ok := u.(*ssa.If); ok {
						maxK = k
						last = iff.Block().Succs[1]
					}
				}
			}
		}
	}
	return last
}

// deliveryReads: instructions in fn that read the deliveries of the awaited subscription.
func deliveryReads(c *Ctx, fn *ssa.Function) []ssa.Instruction {
	var out []ssa.Instruction
	q := c.Fn(fnPullQuery)
	reaches := func(f *ssa.Function) bool {
		found := false
		var walk func(g *ssa.Function)
		walk = func(g *ssa.Function) {
			for _, ci := range callsIn(g, false, func(cal *ssa.Function, _ ssa.CallInstruction) bool { return cal == q }) {
				_ = ci
				found = true
			}
			for _, a := range g.AnonFuncs {
				walk(a)
			}
		}
		walk(f)
		return found
	}
	for _, b := range fn.Blocks {
		for _, in := range b.Instrs {
			call, ok := in.(*ssa.Call)
			if !ok {
				continue
			}
			// runTx(closure that queries)
			if _, isParam := call.Call.Value.(*ssa.Parameter); isParam && !call.Call.IsInvoke() {
				for _, a := range call.Call.Args {
					if f := funcOf(a); f != nil && reaches(f) {
						out = append(out, in)
					}
				}
			}
			cal := call.Call.StaticCallee()
			if cal == nil {
				// through a private interface (`runner.run(func(tx) error {…})`): a closure argument that queries
				if call.Call.IsInvoke() && len(c.privIfaceImpls(call)) > 0 {
					for _, a := range call.Call.Args {
						if f := funcOf(a); f != nil && reaches(f) {
							out = append(out, in)
						}
					}
				}
				continue
			}
			if fnIs(cal, modPath+"/actions", "GetSubscriptionMessages.ExecuteClient") || fnIs(cal, modPath+"/actions", "GetSubscriptionMessages.Execute") {
				out = append(out, in)
				continue
			}
			// a private helper of the waiter that does the reading (`ms.refreshPending(ctx, …)`)
			if cal.Object() != nil && !cal.Object().Exported() && c.inModule(cal) && !namedAnchors[c.Key(cal)] && helperReadsDeliveries(c, cal, 0) {
				out = append(out, in)
			}
		}
	}
	for _, s := range c.EntShape().Stmts {
		if s.Table == "deliveries" && s.Kind == "select" {
			for _, t := range s.Terms {
				if t.Call.Parent() == fn {
					out = append(out, t.Call)
				}
			}
		}
	}
	return out
}

// regBefore: on every path from the start of block `from` to instruction `read`, a PublishAwaiter call is executed.
func regBefore(from *ssa.BasicBlock, read ssa.Instruction) bool {
	// block-level: blocks in which a registration precedes everything relevant are "safe" (path cut there)
	regIdx := func(b *ssa.BasicBlock) int {
		for i, in := range b.Instrs {
			if isPublishAwaiterCall(in) {
				return i
			}
		}
		return -1
	}
	readIdx := func(b *ssa.BasicBlock) int {
		for i, in := range b.Instrs {
			if in == read {
				return i
			}
		}
		return -1
	}
	seen := map[*ssa.BasicBlock]bool{}
	var walk func(b *ssa.BasicBlock) bool // returns false when an unregistered path reaches the read
	walk = func(b *ssa.BasicBlock) bool {
		if seen[b] {
			return true
		}
		seen[b] = true
		ri, qi := regIdx(b), readIdx(b)
		if qi >= 0 && (ri < 0 || ri > qi) {
			return false
		}
		if ri >= 0 {
			return true // registered on this path
		}
		for _, s := range b.Succs {
			if !walk(s) {
				return false
			}
		}
		return true
	}
	return walk(from)
}

func ruleC10_1_2(c *Ctx, r *Rep) {
	type site struct {
		key string
		fn  *ssa.Function
	}
	var sites []site
	if f := r.Anchor("C10.1", fnPullExec); f != nil {
		sites = append(sites, site{"pull", f})
	}
	// the streamer's goroutines that wait on a publish notifier
	if g := r.Anchor("C10.1", "(*actions.MessageStreamer).Go"); g != nil {
		for _, a := range g.AnonFuncs {
			if len(notifierWaits(a)) > 0 {
				name := "streamer-refresh"
				if len(callsIn(a, false, func(cal *ssa.Function, _ ssa.CallInstruction) bool {
					return fnIs(cal, modPath+"/actions", "GetSubscriptionMessages.ExecuteClient")
				})) > 0 {
					name = "streamer-sender"
				}
				sites = append(sites, site{name, a})
			}
		}
	}
	r.Floor("C10.1:waiters", len(sites), 3)
	for _, s := range sites {
		waits := notifierWaits(s.fn)
		reads := deliveryReads(c, s.fn)
		// the wait may have been moved into a private helper (`switch a.waitForMessages(ctx, timeout, next, awaiter)`):
		// every way out of that call is then taken as a possible wake edge
		waits = append(waits, helperWaits(c, s.fn, reads)...)
		if len(waits) == 0 || len(reads) == 0 {
			r.Fail("C10.1", "C10.1:"+s.key, s.fn.Pos(), fmt.Sprintf("waiter shape not recognised (waits on notifier: %d, delivery reads: %d)", len(waits), len(reads)))
			continue
		}
		ok := true
		why := ""
		for _, rd := range reads {
			if !regBefore(s.fn.Blocks[0], rd) {
				ok, why = false, "a delivery query can run before any notification channel was registered: a publish committing between that query and the registration wakes nobody (the puller sleeps until its timeout)"
			}
			for _, w := range waits {
				if w.epoch == nil {
					ok, why = false, "could not locate the wake edge of the notifier case"
					continue
				}
				if !regBefore(w.epoch, rd) {
					ok, why = false, "after being woken through its (single-use) notification channel the waiter re-queries without first registering a fresh channel: a change landing between the re-query and the next registration is missed"
				}
			}
		}
		pos := reads[0].Pos()
		r.Check("C10.1", "C10.1:"+s.key, pos, ok, "registration precedes every delivery query from entry and from every wake edge", why)
		// C10.2 the waited channel is a registration's channel — established by notifierWaits (notifierValue); assert the count
		r.Check("C10.2", "C10.2:"+s.key, waits[0].sel.Pos(), len(waits) >= 1, "the select waits on the channel stored by the registration", "")
	}
}

// ---------------------------------------------------------------------------
// C10.3 broadcasts reach every target

func ruleC10_3(c *Ctx, r *Rep) {
	n := 0
	check := func(fn *ssa.Function, what string) {
		for _, l := range loopsOf(fn) {
			// is this a loop over targets? its body closes a channel, calls a hook, or wakes listeners
			acts := false
			for b := range l.Blocks {
				for _, in := range b.Instrs {
					call, ok := in.(*ssa.Call)
					if !ok {
						continue
					}
					if bi, ok := call.Call.Value.(*ssa.Builtin); ok && bi.Name() == "close" {
						acts = true
					}
					if isWakeCall(call.Call.StaticCallee()) {
						acts = true
					}
					if call.Call.StaticCallee() == nil && !call.Call.IsInvoke() {
						if _, isBuiltin := call.Call.Value.(*ssa.Builtin); !isBuiltin {
							acts = true // (*h)(subID)
						}
					}
				}
			}
			if !acts {
				continue
			}
			n++
			ok := true
			for _, e := range l.exitEdges() {
				if e[0] != l.Header {
					ok = false
				}
			}
			key := fmt.Sprintf("C10.3:broadcast-loop@%s#%s", c.Key(fn), c.Pos(l.Header.Instrs[0].Pos()))
			key = "C10.3:broadcast-loop@" + c.Key(fn) + "#" + loopOrdinal(fn, l)
			r.Check("C10.3", key, l.Header.Instrs[len(l.Header.Instrs)-1].Pos(), ok, "the loop over targets runs to the end", "a broadcast loop in "+what+" can be left early (return/break inside the loop): the remaining targets are never woken")
		}
	}
	anchors := map[*ssa.Function]bool{}
	for _, k := range []string{"actions.WakePublishListeners", "actions.wakeModifyListeners", "actions.WakeAllInternal"} {
		if fn := r.Anchor("C10.3", k); fn != nil {
			anchors[fn] = true
			check(fn, k)
		}
	}
	for _, f := range c.Funcs {
		if c.PkgOf(f) != "actions" {
			continue
		}
		if _, isHook := commitHook(f); isHook {
			check(f, "commit hook "+c.Key(f))
		}
	}
	// private helpers of the notifier that close waiter channels in a loop (extracted from the wake functions)
	for _, f := range c.Funcs {
		if c.PkgOf(f) != "actions" || anchors[f] || c.testSupport(f) || isGenericOrigin(f) {
			continue
		}
		closes := false
		for _, b := range f.Blocks {
			for _, in := range b.Instrs {
				if call, ok := in.(*ssa.Call); ok {
					if bi, ok := call.Call.Value.(*ssa.Builtin); ok && bi.Name() == "close" {
						// a waiter taken from a set: the key of a range over a map
						if ex, ok := strip(call.Call.Args[0]).(*ssa.Extract); ok {
							if nx, ok := ex.Tuple.(*ssa.Next); ok {
								if _, ok := nx.Iter.(*ssa.Range); ok {
									closes = true
								}
							}
						}
					}
				}
			}
		}
		if closes && len(loopsOf(f)) > 0 {
			check(f, c.Key(f))
		}
	}
	// a hook that wakes per element of a captured id list must do so in a loop over that list
	for _, f := range c.Funcs {
		if c.PkgOf(f) != "actions" {
			continue
		}
		if _, isHook := commitHook(f); !isHook {
			continue
		}
		ls := loopsOf(f)
		for _, ci := range callsIn(f, false, func(cal *ssa.Function, _ ssa.CallInstruction) bool { return isWakeCall(cal) }) {
			perElem := false
			for _, a := range ci.Common().Args {
				for _, el := range c.EntShape().sliceElems(a, &frame{bind: map[*ssa.Parameter]ssa.Value{}}, 0) {
					if _, unk := el.v.(unknownSlice); unk {
						continue
					}
					if len(elementLoads(el.v)) > 0 {
						perElem = true
					}
				}
			}
			if perElem {
				r.Check("C10.3", "C10.3:per-element-wake@"+c.Key(f), ci.Pos(), innermostLoop(ls, ci.Block()) != nil, "", "the hook wakes only one element of the affected id list (no loop over the list)")
			}
		}
	}
	r.Floor("C10.3", n, 6)
}

func loopOrdinal(fn *ssa.Function, l *loop) string {
	ls := loopsOf(fn)
	idx := 0
	for _, x := range ls {
		if x.Header.Index < l.Header.Index {
			idx++
		}
	}
	return fmt.Sprint(idx + 1)
}

// ---------------------------------------------------------------------------
// C10.4 every writer that can make a message deliverable notifies

// emptinessGuard: cd is a test "result of a storage call is empty / zero" taken on its EMPTY side.
func emptinessGuard(fn *ssa.Function, v ssa.Value, pol bool) bool {
	bo, ok := v.(*ssa.BinOp)
	if !ok {
		return false
	}
	z, isZ := constInt(bo.Y)
	if !isZ || z != 0 {
		return false
	}
	empty := (bo.Op == token.NEQ && !pol) || (bo.Op == token.GTR && !pol) || (bo.Op == token.EQL && pol)
	if !empty {
		return false
	}
	// operand: len(x) or an int, derived from a storage terminal in this function
	// the operand is (the length of) a call result; which statement's result it is gets decided by the caller
	for k := range sources(bo.X) {
		if strings.HasPrefix(k, "call:") {
			return true
		}
	}
	return false
}

// notifyOnSuccess: every successful return of fn reachable from `after` passes a notify call, except on paths that
// established — on the EMPTY side of emptiness guards — that every terminal in `results` produced nothing.
func notifyOnSuccess(fn *ssa.Function, after ssa.Instruction, isNotify func(in ssa.Instruction) bool, results []*ssa.Call) (bool, string) {
	notifyBlocks := map[*ssa.BasicBlock]bool{}
	for _, b := range fn.Blocks {
		for _, in := range b.Instrs {
			if isNotify(in) {
				notifyBlocks[b] = true
			}
		}
	}
	if len(notifyBlocks) == 0 {
		return false, "no notification at all"
	}
	nilRet := map[*ssa.BasicBlock]bool{}
	for _, ret := range returnsOf(fn) {
		if len(ret.Results) == 2 {
			// (value, error): a success is a non-nil value with a nil error
			if !isNilConst(retResult(ret, 0)) && isNilConst(retResult(ret, 1)) {
				nilRet[ret.Block()] = true
			}
		} else if mayReturnNilError(ret) {
			nilRet[ret.Block()] = true
		}
	}
	full := uint(0)
	for i := range results {
		full |= 1 << uint(i)
	}
	type st struct {
		b    *ssa.BasicBlock
		mask uint
	}
	seen := map[st]bool{}
	bad := ""
	var walk func(s st)
	walk = func(s st) {
		if seen[s] || bad != "" || notifyBlocks[s.b] {
			return
		}
		seen[s] = true
		if nilRet[s.b] {
			if len(results) == 0 || s.mask != full {
				bad = "a successful path skips the notification although the mutation may have changed something"
			}
			return
		}
		if len(s.b.Succs) == 2 {
			iff := s.b.Instrs[len(s.b.Instrs)-1].(*ssa.If)
			for i, n := range s.b.Succs {
				m := s.mask
				if emptinessGuard(fn, iff.Cond, i == 0) {
					bo := iff.Cond.(*ssa.BinOp)
					for k, t := range results {
						if dependsOnCall(bo.X, t) || fillsOperand(bo.X, t) {
							m |= 1 << uint(k)
						}
					}
				}
				walk(st{n, m})
			}
			return
		}
		for _, n := range s.b.Succs {
			walk(st{n, s.mask})
		}
	}
	// start after the mutation: successors of its block (and the rest of its own block is straight-line)
	sb := after.Block()
	if notifyBlocks[sb] {
		// notify in the same block: must come after `after`
		ai, ni := -1, -1
		for i, in := range sb.Instrs {
			if in == after {
				ai = i
			}
			if isNotify(in) && ni < 0 {
				ni = i
			}
		}
		if ni > ai {
			return true, ""
		}
	}
	walk(st{sb, 0})
	return bad == "", bad
}

// fillsOperand: v reads a cell whose address was handed to call t (Scan(ctx, &ids)).
func fillsOperand(v ssa.Value, t *ssa.Call) bool {
	seen := map[ssa.Value]bool{}
	var walk func(v ssa.Value, d int) bool
	walk = func(v ssa.Value, d int) bool {
		if v == nil || seen[v] || d > 20 {
			return false
		}
		seen[v] = true
		if a, ok := v.(*ssa.Alloc); ok {
			if refs := a.Referrers(); refs != nil {
				for _, in := range *refs {
					if mi, ok := in.(*ssa.MakeInterface); ok {
						for _, arg := range t.Call.Args {
							if arg == ssa.Value(mi) {
								return true
							}
						}
					}
				}
			}
			for _, arg := range t.Call.Args {
				if arg == ssa.Value(a) {
					return true
				}
			}
			return false
		}
		if in, ok := v.(ssa.Instruction); ok {
			for _, op := range in.Operands(nil) {
				if *op != nil && walk(*op, d+1) {
					return true
				}
			}
		}
		return false
	}
	return walk(v, 0)
}

func ruleC10_4(c *Ctx, r *Rep) {
	isNotifyPublish := func(in ssa.Instruction) bool {
		call, ok := in.(*ssa.Call)
		return ok && call.Call.StaticCallee() != nil && fnIs(call.Call.StaticCallee(), modPath+"/actions", "notifyPublish")
	}
	isWakingHook := func(fn *ssa.Function) func(in ssa.Instruction) bool {
		return func(in ssa.Instruction) bool {
			call, ok := in.(*ssa.Call)
			if !ok || call.Call.StaticCallee() == nil || !fnIs(call.Call.StaticCallee(), entPkg, "Tx.OnCommit") {
				return false
			}
			// the registered hook wakes publish listeners
			for _, a := range call.Call.Args {
				f := funcOf(a)
				if f != nil {
					if t := boundTarget(f); t != nil {
						f = t // a method value
					}
				}
				if f != nil {
					for _, inner := range f.AnonFuncs {
						if len(callsIn(inner, false, func(cal *ssa.Function, _ ssa.CallInstruction) bool { return cal.Name() == "WakePublishListeners" })) > 0 {
							return true
						}
					}
				}
			}
			return false
		}
	}
	// either form of publish notification serves every operation: the notifyPublish helper (which registers the
	// waking commit hook) or a hand-written waking hook
	// a waking closure handed to a private helper that runs it only from a commit hook after a successful Commit
	isDeferredWake := func(in ssa.Instruction) bool {
		call, ok := in.(*ssa.Call)
		if !ok || call.Call.StaticCallee() == nil || !c.inModule(call.Call.StaticCallee()) {
			return false
		}
		for _, a := range call.Call.Args {
			f := funcOf(a)
			if f == nil || f.Parent() == nil {
				continue
			}
			if len(callsIn(f, true, func(cal *ssa.Function, _ ssa.CallInstruction) bool { return cal.Name() == "WakePublishListeners" })) > 0 && calledOnlyAfterCommit(c, f) {
				return true
			}
		}
		return false
	}
	eitherNotify := func(fn *ssa.Function) func(in ssa.Instruction) bool {
		h := isWakingHook(fn)
		return func(in ssa.Instruction) bool {
			if isNotifyPublish(in) || h(in) || isDeferredWake(in) {
				return true
			}
			// any other way of handing control to code that wakes publish listeners (C09.3 decides separately that
			// every wake runs only after a successful commit)
			if call, ok := in.(*ssa.Call); ok && !isWakeCall(call.Call.StaticCallee()) {
				if cal := call.Call.StaticCallee(); cal != nil && (fnIs(cal, entPkg, "Tx.OnCommit") || c.inModule(cal) && c.PkgOf(cal) == "actions" && cal != fn && !namedAnchors[c.Key(cal)]) {
					return leadsToWake(c, call)
				}
			}
			return false
		}
	}
	type spec struct {
		fn     string
		what   string
		notify func(fn *ssa.Function) func(in ssa.Instruction) bool
		target string // source key the notified id must derive from
	}
	specs := []spec{
		{fnDeliver, "a created delivery", func(*ssa.Function) func(ssa.Instruction) bool { return isNotifyPublish }, "field:ID"},
		{fnDelay, "a zero/negative modify-deadline (nack)", func(*ssa.Function) func(ssa.Instruction) bool { return isNotifyPublish }, "select:subscription_id"},
		{fnSeekTime, "a seek", func(*ssa.Function) func(ssa.Instruction) bool { return isNotifyPublish }, "field:ID"},
		{fnSeekSnap, "a seek", func(*ssa.Function) func(ssa.Instruction) bool { return isNotifyPublish }, "field:ID"},
		{fnAck, "an ack (an ordered successor may become deliverable)", eitherNotify, ""},
		{fnDeadLetter, "a dead-lettering (an ordered successor may become deliverable)", eitherNotify, ""},
		{fnPruneED, "pruning expired deliveries (an ordered successor may become deliverable)", eitherNotify, ""},
	}
	for _, sp := range specs {
		fn := r.Anchor("C10.4", sp.fn)
		if fn == nil {
			continue
		}
		// the mutation after which the notification is due: the last mutating terminal owned by fn,
		// or the function entry for deliverToSubscription (the caller saves the builder)
		var after ssa.Instruction = fn.Blocks[0].Instrs[0]
		var mut *Stmt
		for _, s := range c.EntShape().Stmts {
			if c.Owner(s) == sp.fn && s.Table == "deliveries" && (s.Kind == "update" || s.Kind == "delete") && len(s.Terms) == 1 && s.Terms[0].Call.Parent() == fn {
				if mut == nil || s.Terms[0].Call.Pos() < mut.Terms[0].Call.Pos() {
					mut = s
				}
			}
		}
		if mut != nil {
			after = mut.Terms[0].Call
		}
		var results []*ssa.Call
		switch sp.fn {
		case fnSeekTime, fnSeekSnap:
			for _, st := range c.EntShape().Stmts {
				if c.Owner(st) == sp.fn && st.Table == "deliveries" && st.Kind == "update" && len(st.Terms) == 1 {
					results = append(results, st.Terms[0].Call)
				}
			}
		case fnDelay:
			for _, st := range c.findStmts(fnDelay, "deliveries", "select") {
				if len(st.Terms) == 1 {
					results = append(results, st.Terms[0].Call)
				}
			}
		case fnPruneED:
			for _, st := range c.findStmts(fnPruneED, "subscriptions", "select") {
				if len(st.Terms) == 1 {
					results = append(results, st.Terms[0].Call)
				}
			}
		}
		ok, why := notifyOnSuccess(fn, after, sp.notify(fn), results)
		r.Check("C10.4", "C10.4:notify@"+sp.fn, after.Pos(), ok, "every successful path after the mutation notifies the affected subscription(s)", sp.what+" does not wake waiting pullers on every successful path: "+why)
		if ok && sp.target != "" {
			okT := false
			for _, b := range fn.Blocks {
				for _, in := range b.Instrs {
					if isNotifyPublish(in) {
						call := in.(*ssa.Call)
						for _, el := range c.EntShape().sliceElems(call.Call.Args[1], &frame{bind: map[*ssa.Parameter]ssa.Value{}}, 0) {
							v := el.v
							if u, isU := v.(unknownSlice); isU {
								v = u.Value
							}
							if sp.target == "select:subscription_id" {
								// the ids come from a SELECT of the touched deliveries' subscription column in this operation
								cands := c.findStmts(sp.fn, "deliveries", "select")
								// a lookup helper shared with another action (`distinctSubscriptionIDs(ctx, tx, preds...)`)
								for _, q := range c.EntShape().Stmts {
									if q.Table != "deliveries" || q.Kind != "select" {
										continue
									}
									for _, o := range c.effectiveOwners(top(q.Fn), 0) {
										if c.Key(o) == sp.fn {
											cands = append(cands, q)
										}
									}
								}
								for _, q := range cands {
									selSub := false
									for _, col := range q.SelCols {
										if col == "subscription_id" {
											selSub = true
										}
									}
									for _, t := range q.Terms {
										if selSub && dependsOnCall(v, t.Call) {
											okT = true
										}
									}
								}
							} else if sources(v)[sp.target] {
								okT = true
							}
						}
					}
				}
			}
			r.Check("C10.4", "C10.4:target@"+sp.fn, after.Pos(), okT, "", "the notification does not name the affected subscription")
		}
	}
	// dead-lettering wakes the SOURCE subscription of the retired delivery (its ordered successor may be next): every
	// wake / notifyPublish that belongs to deadLetterDelivery itself names data.DeliverySubscriptionID
	if dlf := c.Fn(fnDeadLetter); dlf != nil {
		nW, okW := 0, true
		var scan func(f *ssa.Function)
		seenF := map[*ssa.Function]bool{}
		scan = func(f *ssa.Function) {
			if seenF[f] {
				return
			}
			seenF[f] = true
			for _, b := range f.Blocks {
				for _, in := range b.Instrs {
					call, ok := in.(*ssa.Call)
					if !ok {
						continue
					}
					cal := call.Call.StaticCallee()
					if cal == nil || c.PkgOf(cal) != "actions" {
						continue
					}
					if cal.Name() != "WakePublishListeners" && cal.Name() != "notifyPublish" {
						continue
					}
					nW++
					named := false
					for _, el := range c.EntShape().sliceElems(call.Call.Args[1], &frame{bind: map[*ssa.Parameter]ssa.Value{}}, 0) {
						v := el.v
						if u, isU := v.(unknownSlice); isU {
							v = u.Value
						}
						if sources(v)["field:DeliverySubscriptionID"] {
							named = true
						}
					}
					if !named {
						okW = false
					}
				}
			}
			for _, a := range f.AnonFuncs {
				scan(a)
			}
		}
		for _, f := range c.opFuncs(dlf) {
			// helpers shared with other operations (notifyPublish itself) are judged at their call in here
			if f == dlf || c.partOf(f, fnDeadLetter, 0) {
				scan(f)
			}
		}
		r.Check("C10.4", "C10.4:target@"+fnDeadLetter, dlf.Pos(), nW > 0 && okW, "wakes data.DeliverySubscriptionID", "the wake-up that follows a dead-lettering does not name the subscription the retired delivery belonged to (data.DeliverySubscriptionID): a puller waiting for the ordered successor is not woken")
	}
	// dead-letter forwards wake the target subscriptions because they go through deliverToSubscription (C03.3/C06.4)
	// ack's hook wakes exactly the subscriptions of the acked deliveries
	if fn := c.Fn(fnAck); fn != nil {
		okIDs := false
		for _, s := range c.findStmts(fnAck, "deliveries", "select") {
			for _, col := range s.SelCols {
				if col == "subscription_id" {
					okIDs = len(s.Find("", "id", "in")) == 1
				}
			}
		}
		r.Check("C10.4", "C10.4:ack-wakes-affected-subscriptions", fn.Pos(), okIDs, "", "ack does not collect the subscription ids of the acked deliveries to wake them")
	}
}

// ---------------------------------------------------------------------------
// C10.6 notifier maps only under nmu ; C10.7 close is followed by removal

var notifierGlobals = map[string]bool{"pubNotifyHooks": true, "pubWaiters": true, "topicModifyHooks": true, "topicModifyWaiters": true,
	"anyTopicModifiedWaiters": true, "subModifyHooks": true, "subModifyWaiters": true, "anySubModifiedWaiters": true}

func ruleC10_6(c *Ctx, r *Rep) {
	n := 0
	// parameters of wakeModifyListeners are bound to the globals at its call sites
	guardedParams := map[*ssa.Parameter]bool{}
	if w := c.Fn("actions.wakeModifyListeners"); w != nil {
		for _, ci := range c.callersOf(w) {
			for i, a := range ci.Common().Args {
				if u, ok := a.(*ssa.UnOp); ok && u.Op == token.MUL {
					if g, ok := u.X.(*ssa.Global); ok && notifierGlobals[g.Name()] && i < len(w.Params) {
						guardedParams[w.Params[i]] = true
					}
				}
			}
		}
	}
	for _, f := range c.Funcs {
		if c.PkgOf(f) != "actions" || strings.HasPrefix(top(f).Name(), "init") {
			continue
		}
		acc := mapAccesses(f, func(v ssa.Value) bool {
			if u, ok := v.(*ssa.UnOp); ok && u.Op == token.MUL {
				if g, ok := u.X.(*ssa.Global); ok && notifierGlobals[g.Name()] && g.Pkg.Pkg.Path() == modPath+"/actions" {
					return true
				}
			}
			if p, ok := v.(*ssa.Parameter); ok && guardedParams[p] {
				return true
			}
			// a slice literal of the guarded maps (WakeAllInternal iterates over them)
			return false
		})
		if len(acc) == 0 {
			continue
		}
		li := lockSets(f)
		for i, a := range acc {
			n++
			held := li.heldAt(a.instr)
			r.Check("C10.6", fmt.Sprintf("C10.6:%s#%d@%s", a.what, i+1, c.Key(f)), a.instr.Pos(), held["g:nmu"], "under nmu",
				"a waiter/hook map is accessed ("+a.what+") in "+c.Key(f)+" without holding nmu: concurrent registration and wake-up race (lost wake-up or crash)")
		}
	}
	r.Floor("C10.6", n, 20)
}

func ruleC10_7(c *Ctx, r *Rep) {
	n := 0
	for _, k := range []string{"actions.WakePublishListeners", "actions.wakeModifyListeners", "actions.WakeAllInternal"} {
		r.Anchor("C10.7", k)
	}
	for _, fn := range c.Funcs {
		if c.PkgOf(fn) != "actions" || c.testSupport(fn) || isGenericOrigin(fn) || c.FnInControl(fn) {
			continue
		}
		k := c.Key(fn)
		var li *lockInfo
		idx := 0
		for _, b := range fn.Blocks {
			for _, in := range b.Instrs {
				call, ok := in.(*ssa.Call)
				if !ok {
					continue
				}
				bi, ok := call.Call.Value.(*ssa.Builtin)
				if !ok || bi.Name() != "close" {
					continue
				}
				ch := call.Call.Args[0]
				// ch = key of a range over map W (a waiter set)
				var w ssa.Value
				if ex, ok := strip(ch).(*ssa.Extract); ok {
					if nx, ok := ex.Tuple.(*ssa.Next); ok {
						if rg, ok := nx.Iter.(*ssa.Range); ok {
							w = rg.X
						}
					}
				}
				if w == nil {
					continue // not a registered waiter taken from a set (a channel the function owns)
				}
				if li == nil {
					li = lockSets(fn)
				}
				n++
				idx++
				removed := false
				for _, b2 := range fn.Blocks {
					for _, in2 := range b2.Instrs {
						d, ok := in2.(*ssa.Call)
						if !ok {
							continue
						}
						dbi, ok := d.Call.Value.(*ssa.Builtin)
						if !ok {
							continue
						}
						switch dbi.Name() {
						case "delete":
							// delete(W, ch) after the close in the same iteration
							if (d.Call.Args[0] == w || valKey(d.Call.Args[0]) == valKey(w)) && strip(d.Call.Args[1]) == strip(ch) && instrDominates(call, d) {
								removed = true
							}
							// or the whole set W is dropped from its parent map afterwards
							if parentOf(w) != nil && valKey(d.Call.Args[0]) == valKey(parentOf(w)) && reachable(call.Block(), d.Block(), nil, true) {
								removed = true
							}
						case "clear":
							// or the set is emptied as a whole once the loop is done (every path from the close gets there)
							if (d.Call.Args[0] == w || valKey(d.Call.Args[0]) == valKey(w)) && reachable(call.Block(), d.Block(), nil, true) && mustReach(call.Block(), d.Block()) {
								removed = true
							}
							// or the parent map that holds the set is emptied as a whole afterwards
							if parentOf(w) != nil && valKey(d.Call.Args[0]) == valKey(parentOf(w)) && reachable(call.Block(), d.Block(), nil, true) && mustReach(call.Block(), d.Block()) {
								removed = true
							}
						}
					}
				}
				held := li.heldAt(call)
				r.Check("C10.7", fmt.Sprintf("C10.7:close#%d@%s", idx, k), call.Pos(), removed && held["g:nmu"], "closed channels leave the waiter set under the same lock",
					"a waiter channel is closed but stays registered (or is closed outside the notifier lock): the next wake-up closes it again and the process panics")
			}
		}
	}
	r.Floor("C10.7", n, 2)
}

// mustReach: every path from block `from` to a function exit passes block `to` (to post-dominates from).
func mustReach(from, to *ssa.BasicBlock) bool {
	seen := map[*ssa.BasicBlock]bool{}
	ok := true
	var walk func(b *ssa.BasicBlock)
	walk = func(b *ssa.BasicBlock) {
		if !ok || seen[b] || b == to {
			return
		}
		seen[b] = true
		if len(b.Succs) == 0 {
			// an exit reached without passing `to` (panics do not count)
			if len(b.Instrs) > 0 {
				if _, isPanic := b.Instrs[len(b.Instrs)-1].(*ssa.Panic); isPanic {
					return
				}
			}
			ok = false
			return
		}
		for _, s := range b.Succs {
			walk(s)
		}
	}
	for _, s := range from.Succs {
		walk(s)
	}
	return ok
}

func isGenericOrigin(f *ssa.Function) bool {
	return f.TypeParams().Len() > 0 && len(f.TypeArgs()) == 0
}

// parentOf: for an inner map obtained by lookup or as a range value, the outer map.
func parentOf(w ssa.Value) ssa.Value {
	switch x := strip(w).(type) {
	case *ssa.Lookup:
		return x.X
	case *ssa.Extract:
		if lk, ok := x.Tuple.(*ssa.Lookup); ok {
			return lk.X
		}
		if nx, ok := x.Tuple.(*ssa.Next); ok {
			if rg, ok := nx.Iter.(*ssa.Range); ok {
				return rg.X
			}
		}
	}
	return nil
}

// helperWaits: calls in fn to unexported module helpers that wait on a notifier channel handed in by fn. Each
// successor of the calling block becomes a wake edge (conservative: the helper's other outcomes are judged too); a
// delivery read after the call inside the calling block has no wake edge to be judged from and is reported as such.
func helperWaits(c *Ctx, fn *ssa.Function, reads []ssa.Instruction) []waitSite {
	var out []waitSite
	for _, b := range fn.Blocks {
		for i, in := range b.Instrs {
			call, ok := in.(*ssa.Call)
			if !ok {
				continue
			}
			h := call.Call.StaticCallee()
			if h == nil || len(h.Blocks) == 0 || h.Object() == nil || h.Object().Exported() || !c.inModule(h) || namedAnchors[c.Key(h)] {
				continue
			}
			bind := map[*ssa.Parameter]ssa.Value{}
			for k, p := range h.Params {
				if k < len(call.Call.Args) {
					bind[p] = call.Call.Args[k]
				}
			}
			var inner []waitSite
			withBindMap(bind, func() { inner = notifierWaits(h) })
			if len(inner) == 0 {
				continue
			}
			readAfter := false
			for _, later := range b.Instrs[i+1:] {
				for _, rd := range reads {
					if later == rd {
						readAfter = true
					}
				}
			}
			if readAfter || len(b.Succs) == 0 {
				out = append(out, waitSite{sel: inner[0].sel, caseIndex: inner[0].caseIndex}) // epoch nil: not locatable
				continue
			}
			for _, s := range b.Succs {
				out = append(out, waitSite{sel: inner[0].sel, caseIndex: inner[0].caseIndex, epoch: s})
			}
		}
	}
	return out
}

// helperReadsDeliveries: g (an unexported helper) finishes a select on deliveries, or calls the pull, itself or
// through further private helpers.
func helperReadsDeliveries(c *Ctx, g *ssa.Function, depth int) bool {
	if depth > 2 || len(g.Blocks) == 0 {
		return false
	}
	for _, s := range c.EntShape().Stmts {
		if s.Table == "deliveries" && s.Kind == "select" {
			for _, t := range s.Terms {
				if top(t.Call.Parent()) == g {
					return true
				}
			}
		}
	}
	for _, ci := range callsIn(g, true, func(cal *ssa.Function, _ ssa.CallInstruction) bool { return true }) {
		cal := ci.Common().StaticCallee()
		if cal == nil {
			continue
		}
		if fnIs(cal, modPath+"/actions", "GetSubscriptionMessages.ExecuteClient") || fnIs(cal, modPath+"/actions", "GetSubscriptionMessages.Execute") || c.Key(cal) == fnPullQuery {
			return true
		}
		if cal.Object() != nil && !cal.Object().Exported() && c.inModule(cal) && !namedAnchors[c.Key(cal)] && helperReadsDeliveries(c, cal, depth+1) {
			return true
		}
	}
	return false
}

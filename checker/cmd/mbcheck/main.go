package main

import (
	"flag"
	"fmt"
	"os"
	"sort"
	"strings"
	"time"
)

func usage() {
	fmt.Fprintln(os.Stderr, `mbcheck — repository-specific static analyser for 6RiverSystems/mmmbbb
  mbcheck run -property Cxx [-tier quick|thorough]   decide one property on /repo's working tree
  mbcheck all [-tier quick]                           every property, one load
  mbcheck dump [-fn substr]                           print every ORM statement shape (K1)
  mbcheck selftest [-property Cxx]                    seeded mutants + negative controls (overlay only)
  mbcheck explain <violation.json>                    re-print a violation record`)
	os.Exit(2)
}

func main() {
	if len(os.Args) < 2 {
		usage()
	}
	switch os.Args[1] {
	case "dump":
		fs := flag.NewFlagSet("dump", flag.ExitOnError)
		sub := fs.String("fn", "", "only statements in functions containing this substring")
		fs.Parse(os.Args[2:])
		c, err := Load(nil, nil, nil)
		if err != nil {
			fmt.Fprintln(os.Stderr, err)
			os.Exit(1)
		}
		es := c.EntShape()
		fmt.Printf("packages=%d functions=%d statements=%d\n", len(c.Pkgs), len(c.Funcs), len(es.Stmts))
		for _, s := range es.Stmts {
			if *sub != "" && !strings.Contains(c.Key(s.Fn), *sub) {
				continue
			}
			fmt.Print(c.StmtString(s))
		}
	case "funcs":
		c, err := Load(nil, nil, nil)
		if err != nil {
			fmt.Fprintln(os.Stderr, err)
			os.Exit(1)
		}
		var ks []string
		for k := range c.FuncByKey {
			ks = append(ks, k)
		}
		sort.Strings(ks)
		for _, k := range ks {
			fmt.Println(k)
		}
	case "run":
		fs := flag.NewFlagSet("run", flag.ExitOnError)
		prop := fs.String("property", "", "property id")
		tier := fs.String("tier", "quick", "quick|thorough")
		fs.Parse(os.Args[2:])
		if t := os.Getenv("VERIF_TIER"); t != "" && *tier == "" {
			*tier = t
		}
		os.Exit(runProps([]string{*prop}, *tier))
	case "all":
		fs := flag.NewFlagSet("all", flag.ExitOnError)
		tier := fs.String("tier", "quick", "quick|thorough")
		fs.Parse(os.Args[2:])
		var ids []string
		for _, p := range allProps() {
			ids = append(ids, p.ID)
		}
		os.Exit(runProps(ids, *tier))
	case "selftest":
		fs := flag.NewFlagSet("selftest", flag.ExitOnError)
		prop := fs.String("property", "", "restrict to one property")
		fs.Parse(os.Args[2:])
		os.Exit(selftest(*prop, true))
	case "mutant":
		if len(os.Args) < 3 {
			usage()
		}
		os.Exit(runOneMutant(os.Args[2]))
	case "explain":
		if len(os.Args) < 3 {
			usage()
		}
		b, err := os.ReadFile(os.Args[2])
		if err != nil {
			fmt.Fprintln(os.Stderr, err)
			os.Exit(1)
		}
		fmt.Println(string(b))
	default:
		usage()
	}
}

func propByID(id string) *propInfo {
	for _, p := range allProps() {
		if p.ID == id {
			return p
		}
	}
	return nil
}

// runProps loads the tree once (with positive controls when they type-check)
// and evaluates the rules of each requested property.
func runProps(ids []string, tier string) int {
	start := time.Now()
	for _, id := range ids {
		if propByID(id) == nil {
			fmt.Fprintf(os.Stderr, "unknown property %q\n", id)
			return 2
		}
	}
	ctrlOv, ctrlFiles := controlOverlay()
	var loadEnv []string
	if e := os.Getenv("MB_LOAD_ENV"); e != "" { // debugging aid: analyse another build configuration directly
		loadEnv = strings.Split(e, ",")
	}
	c, err := Load(ctrlOv, loadEnv, ctrlFiles)
	controlsLoaded := true
	if err != nil {
		// a control may stop type-checking on a changed tree: fall back, say so
		c2, err2 := Load(nil, nil, nil)
		if err2 != nil {
			for _, id := range ids {
				fmt.Printf("load failed: %v\n", err2)
				failLoad(id, tier, err2, start)
			}
			return 1
		}
		c2.LoadNotes = append(c2.LoadNotes, "positive controls did not type-check on this tree and were left out: "+err.Error())
		c, controlsLoaded = c2, false
	}
	rc := 0
	for _, id := range ids {
		p := propByID(id)
		r := newRep(c, id)
		t0 := time.Now()
		if len(ids) == 1 {
			t0 = start // a single-property run pays for the load
		}
		func() {
			defer func() {
				if e := recover(); e != nil {
					r.Fail("panic", "analyser", 0, fmt.Sprintf("analyser panic (treated as failure): %v", e))
				}
			}()
			for _, rule := range p.Rules {
				if rule.Ctrl {
					r.ExpectControl(rule.ID)
				}
				rule.run(c, r)
			}
		}()
		extra := map[string]any{}
		var rules []string
		for _, rule := range p.Rules {
			rules = append(rules, rule.ID+": "+rule.Doc)
		}
		extra["rules_applied"] = rules
		if tier == "thorough" {
			thoroughExtras(c, p, r, extra)
		}
		if n := finish(c, r, p, tier, t0, extra, controlsLoaded); n > 0 {
			rc = 1
		}
	}
	_ = start
	return rc
}

func failLoad(id, tier string, err error, start time.Time) {
	p := propByID(id)
	c := &Ctx{RepoDir: repoDir()}
	r := newRep(c, id)
	r.Obs = append(r.Obs, &Ob{Rule: "load", Key: "tree", Pos: "-", Status: "violation", Msg: err.Error()})
	finish(c, r, p, tier, start, nil, false)
}

package main

import (
	"fmt"
	"golang.org/x/tools/go/packages"
	"golang.org/x/tools/go/ssa"
	"golang.org/x/tools/go/ssa/ssautil"
)

func main() {
	cfg := &packages.Config{Mode: packages.LoadSyntax, Dir: "/repo"}
	pkgs, err := packages.Load(cfg, "./...")
	fmt.Println(len(pkgs), err)
	prog, _ := ssautil.Packages(pkgs, ssa.InstantiateGenerics)
	prog.Build()
}

package main

// K6 AbsInt: a small flow-sensitive abstract interpreter over SSA with bounded
// disjunctive states (trace partitioning). Finite domains: integer intervals,
// nilness of pointers, emptiness of strings, zero-ness of time.Time, booleans.
// Memory: fields of local structs and access paths rooted at parameters.
// No solver; every operation is a table lookup on these domains.

import (
	"fmt"
	"go/constant"
	"go/token"
	"go/types"
	"sort"
	"strings"

	"golang.org/x/tools/go/ssa"
)

type tri int8

const (
	tUnknown tri = iota
	tYes
	tNo
)

type AV struct {
	K      byte // i int, p nilable, s string, b bool, t time, S struct, ? other
	Lo, Hi int64
	LoInf  bool
	HiInf  bool
	Nil    tri
	Empty  tri
	Zero   tri
	B      tri
	F      map[string]*AV
	Taint  bool
	Loc    string   // location this value was loaded from (for refinement)
	Link   *predLnk // meaning of a boolean: a predicate over a location
}

type predLnk struct {
	kind string // iszero | validname | lenzero
	loc  string
	val  ssa.Value
}

func topAV(k byte) *AV { return &AV{K: k, LoInf: true, HiInf: true} }

func (a *AV) clone() *AV {
	if a == nil {
		return nil
	}
	c := *a
	if a.F != nil {
		c.F = map[string]*AV{}
		for k, v := range a.F {
			c.F[k] = v.clone()
		}
	}
	return &c
}

func (a *AV) String() string {
	if a == nil {
		return "⊤"
	}
	t := ""
	if a.Taint {
		t = "~"
	}
	switch a.K {
	case 'i':
		lo, hi := "-inf", "+inf"
		if !a.LoInf {
			lo = fmt.Sprint(a.Lo)
		}
		if !a.HiInf {
			hi = fmt.Sprint(a.Hi)
		}
		return t + "[" + lo + "," + hi + "]"
	case 'p':
		return t + "nil:" + triS(a.Nil)
	case 's':
		return t + "empty:" + triS(a.Empty)
	case 't':
		return t + "zero:" + triS(a.Zero)
	case 'b':
		return t + "bool:" + triS(a.B)
	case 'S':
		var ks []string
		for k, v := range a.F {
			ks = append(ks, k+"="+v.String())
		}
		sort.Strings(ks)
		return t + "{" + strings.Join(ks, " ") + "}"
	}
	return t + "?"
}

func triS(t tri) string { return [...]string{"?", "yes", "no"}[t] }

func kindOf(t types.Type) byte {
	switch u := t.Underlying().(type) {
	case *types.Basic:
		switch {
		case u.Info()&types.IsInteger != 0:
			return 'i'
		case u.Info()&types.IsString != 0:
			return 's'
		case u.Info()&types.IsBoolean != 0:
			return 'b'
		}
	case *types.Pointer, *types.Slice, *types.Map, *types.Chan, *types.Signature, *types.Interface:
		return 'p'
	case *types.Struct:
		if n, ok := t.(*types.Named); ok && n.Obj().Pkg() != nil && n.Obj().Pkg().Path() == "time" && n.Obj().Name() == "Time" {
			return 't'
		}
		return 'S'
	}
	return '?'
}

func topOf(t types.Type, taint bool) *AV {
	a := topAV(kindOf(t))
	a.Taint = taint
	return a
}

func joinTri(a, b tri) tri {
	if a == b {
		return a
	}
	return tUnknown
}

func joinAV(a, b *AV) *AV {
	if a == nil || b == nil {
		return nil
	}
	if a.K != b.K {
		return &AV{K: '?', LoInf: true, HiInf: true, Taint: a.Taint || b.Taint}
	}
	r := &AV{K: a.K, Taint: a.Taint || b.Taint}
	r.Nil, r.Empty, r.Zero, r.B = joinTri(a.Nil, b.Nil), joinTri(a.Empty, b.Empty), joinTri(a.Zero, b.Zero), joinTri(a.B, b.B)
	r.LoInf, r.HiInf = a.LoInf || b.LoInf, a.HiInf || b.HiInf
	r.Lo, r.Hi = a.Lo, a.Hi
	if b.Lo < r.Lo {
		r.Lo = b.Lo
	}
	if b.Hi > r.Hi {
		r.Hi = b.Hi
	}
	if a.Loc == b.Loc {
		r.Loc = a.Loc
	}
	if a.F != nil && b.F != nil {
		r.F = map[string]*AV{}
		for k, v := range a.F {
			if w, ok := b.F[k]; ok {
				if j := joinAV(v, w); j != nil {
					r.F[k] = j
				}
			}
		}
	}
	return r
}

func eqAV(a, b *AV) bool {
	if a == nil || b == nil {
		return a == b
	}
	if a.K != b.K || a.Nil != b.Nil || a.Empty != b.Empty || a.Zero != b.Zero || a.B != b.B || a.LoInf != b.LoInf || a.HiInf != b.HiInf || a.Taint != b.Taint {
		return false
	}
	if !a.LoInf && a.Lo != b.Lo || !a.HiInf && a.Hi != b.Hi {
		return false
	}
	if len(a.F) != len(b.F) {
		return false
	}
	for k, v := range a.F {
		if !eqAV(v, b.F[k]) {
			return false
		}
	}
	return true
}

// ---------------------------------------------------------------------------

type aiState struct {
	vals map[ssa.Value]*AV
	mem  map[string]*AV
	pred *ssa.BasicBlock
}

func (s *aiState) clone() *aiState {
	n := &aiState{vals: make(map[ssa.Value]*AV, len(s.vals)), mem: make(map[string]*AV, len(s.mem)), pred: s.pred}
	for k, v := range s.vals {
		n.vals[k] = v
	}
	for k, v := range s.mem {
		n.mem[k] = v
	}
	return n
}

func eqState(a, b *aiState) bool {
	if len(a.mem) != len(b.mem) || a.pred != b.pred {
		return false
	}
	for k, v := range a.mem {
		if !eqAV(v, b.mem[k]) {
			return false
		}
	}
	// SSA values that matter are those live across blocks; comparing all is fine for these sizes
	if len(a.vals) != len(b.vals) {
		return false
	}
	for k, v := range a.vals {
		if !eqAV(v, b.vals[k]) {
			return false
		}
	}
	return true
}

type aiFinding struct {
	Kind  string // panic | nilderef
	Pos   token.Pos
	Fn    *ssa.Function
	Msg   string
	Chain []string
}

type AI struct {
	c        *Ctx
	Findings []aiFinding
	seenFind map[string]bool
	depth    int
	chain    []string
	// hooks
	OnReturn     func(fn *ssa.Function, ret *ssa.Return, st *aiState)
	OnStore      func(fn *ssa.Function, st *ssa.Store, loc string, v *AV, s *aiState)
	OnInstr      func(in ssa.Instruction, s *aiState)
	Inline       func(cal *ssa.Function, call *ssa.Call, args []*AV) bool
	MaxStates    int
	budget       int
	taintRoots   map[string]bool
	forks        []outcome
	nilSafeExtra map[string]bool
}

func newAI(c *Ctx) *AI {
	return &AI{c: c, seenFind: map[string]bool{}, MaxStates: 256, budget: 3000000}
}

func (ai *AI) report(kind string, pos token.Pos, fn *ssa.Function, msg string) {
	k := kind + "|" + ai.c.Pos(pos) + "|" + strings.Join(ai.chain, ">")
	if ai.seenFind[k] {
		return
	}
	ai.seenFind[k] = true
	ai.Findings = append(ai.Findings, aiFinding{Kind: kind, Pos: pos, Fn: fn, Msg: msg, Chain: append([]string{}, ai.chain...)})
}

// locKey: canonical key of the memory location whose address is v.
func (ai *AI) locKey(v ssa.Value, s *aiState) string {
	switch x := v.(type) {
	case *ssa.Alloc:
		return "A:" + x.Parent().Name() + "." + x.Name()
	case *ssa.FreeVar:
		if b := freeVarBinding(x); b != nil {
			return ai.locKey(b, s)
		}
		return "FV:" + x.Name()
	case *ssa.Global:
		return "G:" + x.Name()
	case *ssa.FieldAddr:
		base := ai.ptrKey(x.X, s)
		return base + "." + fieldName(x.X.Type(), x.Field)
	case *ssa.IndexAddr:
		return ai.ptrKey(x.X, s) + "[]"
	}
	return "V:" + v.Name()
}

// ptrKey: key of the object a pointer VALUE points to.
func (ai *AI) ptrKey(p ssa.Value, s *aiState) string {
	switch x := p.(type) {
	case *ssa.Alloc, *ssa.FieldAddr, *ssa.Global, *ssa.FreeVar, *ssa.IndexAddr:
		return ai.locKey(p, s)
	case *ssa.Parameter:
		return "P:" + x.Parent().Name() + "." + x.Name()
	}
	if av := s.vals[p]; av != nil && av.Loc != "" {
		return "*(" + av.Loc + ")"
	}
	if u, ok := p.(*ssa.UnOp); ok && u.Op == token.MUL {
		return "*(" + ai.locKey(u.X, s) + ")"
	}
	return "V:" + p.Name()
}

func (ai *AI) val(v ssa.Value, s *aiState) *AV {
	if a, ok := s.vals[v]; ok && a != nil {
		return a
	}
	switch x := v.(type) {
	case *ssa.Const:
		return constAV(x)
	case *ssa.Function, *ssa.Builtin:
		return &AV{K: 'p', Nil: tNo}
	case *ssa.Alloc, *ssa.FieldAddr, *ssa.IndexAddr, *ssa.Global, *ssa.MakeClosure, *ssa.MakeMap, *ssa.MakeSlice, *ssa.MakeChan, *ssa.MakeInterface:
		return &AV{K: 'p', Nil: tNo}
	case *ssa.Parameter:
		return topOf(x.Type(), false)
	}
	return topOf(v.Type(), false)
}

func constAV(c *ssa.Const) *AV {
	k := kindOf(c.Type())
	a := topAV(k)
	if c.Value == nil {
		switch k {
		case 'p':
			a.Nil = tYes
		case 's':
			a.Empty = tYes
		case 'i':
			a.Lo, a.Hi, a.LoInf, a.HiInf = 0, 0, false, false
		case 'b':
			a.B = tNo
		case 't':
			a.Zero = tYes
		}
		return a
	}
	switch c.Value.Kind() {
	case constant.Int:
		if i, ok := constant.Int64Val(c.Value); ok {
			a.K, a.Lo, a.Hi, a.LoInf, a.HiInf = 'i', i, i, false, false
		}
	case constant.String:
		a.K = 's'
		if constant.StringVal(c.Value) == "" {
			a.Empty = tYes
		} else {
			a.Empty = tNo
		}
	case constant.Bool:
		a.K = 'b'
		if constant.BoolVal(c.Value) {
			a.B = tYes
		} else {
			a.B = tNo
		}
	}
	return a
}

// load reads a location; unknown locations yield ⊤ whose taint follows the root.
func (ai *AI) load(addr ssa.Value, t types.Type, s *aiState) *AV {
	loc := ai.locKey(addr, s)
	if kindOf(t) == 'S' {
		// a struct value is assembled from its field cells (which carry the freshest facts)
		r := topAV('S')
		r.F = map[string]*AV{}
		if a, ok := s.mem[loc]; ok && a != nil && a.F != nil {
			for k, v := range a.F {
				r.F[k] = v.clone()
			}
		}
		pre := loc + "."
		for k, v := range s.mem {
			if v != nil && strings.HasPrefix(k, pre) && !strings.ContainsAny(k[len(pre):], ".*[") {
				r.F[k[len(pre):]] = v.clone()
			}
		}
		r.Taint = ai.taintOfLoc(loc, s)
		r.Loc = loc
		return r
	}
	if a, ok := s.mem[loc]; ok && a != nil {
		r := a.clone()
		r.Loc = loc
		return r
	}
	r := topOf(t, ai.taintOfLoc(loc, s))
	r.Loc = loc
	if strings.HasSuffix(loc, "[]") && r.K == 'p' && r.Taint {
		r.Nil = tNo // elements of repeated message fields are never nil (protobuf decoding)
	}
	return r
}

func (ai *AI) taintOfLoc(loc string, s *aiState) bool {
	// locations reached from a tainted root are tainted
	for root, v := range s.mem {
		if v != nil && v.Taint && v.K == 'p' && strings.Contains(loc, "("+root+")") {
			return true
		}
	}
	for k := range ai.taintRoots {
		if strings.Contains(loc, k) {
			return true
		}
	}
	return false
}

var _ = fmt.Sprint

func (ai *AI) store(addr ssa.Value, v *AV, s *aiState) string {
	loc := ai.locKey(addr, s)
	// kill everything below this location
	for k := range s.mem {
		if strings.HasPrefix(k, loc+".") || strings.HasPrefix(k, "*("+loc+")") {
			delete(s.mem, k)
		}
	}
	if v != nil && v.K == 'S' && v.F != nil {
		for f, fv := range v.F {
			s.mem[loc+"."+f] = fv.clone()
		}
	}
	c := v.clone()
	if c != nil {
		c.Loc = ""
	}
	s.mem[loc] = c
	return loc
}

// taintRoots: parameter keys ("P:fn.req") whose reachable memory is request-controlled.
func (ai *AI) setTaintRoots(r map[string]bool) { ai.taintRoots = r }

// ---------------------------------------------------------------------------
// interval helpers

func (a *AV) isConst() (int64, bool) {
	if a != nil && a.K == 'i' && !a.LoInf && !a.HiInf && a.Lo == a.Hi {
		return a.Lo, true
	}
	return 0, false
}

func addSat(a, b int64) (int64, bool) {
	r := a + b
	if (b > 0 && r < a) || (b < 0 && r > a) {
		return 0, false
	}
	return r, true
}

func arith(op token.Token, a, b *AV) *AV {
	r := topAV('i')
	r.Taint = a.Taint || b.Taint
	if a.K != 'i' || b.K != 'i' {
		return r
	}
	switch op {
	case token.ADD:
		if !a.LoInf && !b.LoInf {
			if v, ok := addSat(a.Lo, b.Lo); ok {
				r.Lo, r.LoInf = v, false
			}
		}
		if !a.HiInf && !b.HiInf {
			if v, ok := addSat(a.Hi, b.Hi); ok {
				r.Hi, r.HiInf = v, false
			}
		}
	case token.SUB:
		if !a.LoInf && !b.HiInf {
			if v, ok := addSat(a.Lo, -b.Hi); ok {
				r.Lo, r.LoInf = v, false
			}
		}
		if !a.HiInf && !b.LoInf {
			if v, ok := addSat(a.Hi, -b.Lo); ok {
				r.Hi, r.HiInf = v, false
			}
		}
	case token.MUL:
		// only constant * non-negative interval is needed
		if c, ok := a.isConst(); ok {
			a, b = b, a
			_ = c
		}
		if c, ok := b.isConst(); ok && c >= 0 && c < 1<<20 {
			if !a.LoInf && a.Lo > -(1<<40) && a.Lo < 1<<40 {
				r.Lo, r.LoInf = a.Lo*c, false
			}
			if !a.HiInf && a.Hi > -(1<<40) && a.Hi < 1<<40 {
				r.Hi, r.HiInf = a.Hi*c, false
			}
		}
	}
	return r
}

// cmp evaluates a op b on intervals.
func cmpIv(op token.Token, a, b *AV) tri {
	if a.K != 'i' || b.K != 'i' {
		return tUnknown
	}
	lt := func(x, y *AV) tri { // x < y
		if !x.HiInf && !y.LoInf && x.Hi < y.Lo {
			return tYes
		}
		if !x.LoInf && !y.HiInf && x.Lo >= y.Hi {
			return tNo
		}
		return tUnknown
	}
	le := func(x, y *AV) tri {
		if !x.HiInf && !y.LoInf && x.Hi <= y.Lo {
			return tYes
		}
		if !x.LoInf && !y.HiInf && x.Lo > y.Hi {
			return tNo
		}
		return tUnknown
	}
	neg := func(t tri) tri {
		switch t {
		case tYes:
			return tNo
		case tNo:
			return tYes
		}
		return tUnknown
	}
	switch op {
	case token.LSS:
		return lt(a, b)
	case token.LEQ:
		return le(a, b)
	case token.GTR:
		return lt(b, a)
	case token.GEQ:
		return le(b, a)
	case token.EQL:
		if ca, ok := a.isConst(); ok {
			if cb, ok := b.isConst(); ok {
				if ca == cb {
					return tYes
				}
				return tNo
			}
		}
		if lt(a, b) == tYes || lt(b, a) == tYes {
			return tNo
		}
		return tUnknown
	case token.NEQ:
		return neg(cmpIv(token.EQL, a, b))
	}
	return tUnknown
}

// refineIv: restrict a so that (a op b) has truth `pol`.
func refineIv(op token.Token, a, b *AV, pol bool) *AV {
	r := a.clone()
	if a.K != 'i' || b.K != 'i' {
		return r
	}
	if !pol {
		switch op {
		case token.LSS:
			op = token.GEQ
		case token.LEQ:
			op = token.GTR
		case token.GTR:
			op = token.LEQ
		case token.GEQ:
			op = token.LSS
		case token.EQL:
			op = token.NEQ
		case token.NEQ:
			op = token.EQL
		}
	}
	setHi := func(v int64) {
		if r.HiInf || v < r.Hi {
			r.Hi, r.HiInf = v, false
		}
	}
	setLo := func(v int64) {
		if r.LoInf || v > r.Lo {
			r.Lo, r.LoInf = v, false
		}
	}
	switch op {
	case token.LSS:
		if !b.HiInf {
			setHi(b.Hi - 1)
		}
	case token.LEQ:
		if !b.HiInf {
			setHi(b.Hi)
		}
	case token.GTR:
		if !b.LoInf {
			setLo(b.Lo + 1)
		}
	case token.GEQ:
		if !b.LoInf {
			setLo(b.Lo)
		}
	case token.EQL:
		if !b.HiInf {
			setHi(b.Hi)
		}
		if !b.LoInf {
			setLo(b.Lo)
		}
	case token.NEQ:
		if c, ok := b.isConst(); ok {
			if !r.LoInf && r.Lo == c {
				r.Lo = c + 1
			}
			if !r.HiInf && r.Hi == c {
				r.Hi = c - 1
			}
		}
	}
	return r
}

package main

import (
	"fmt"
	"go/token"
	"go/types"
	"sort"
	"strings"

	"golang.org/x/tools/go/ssa"
)

// fieldStores: values stored into fields of struct type (pkgPath, name) anywhere in fn (not nested closures).
func fieldStores(fn *ssa.Function, pkgPath, name string) map[string][]*ssa.Store {
	out := fieldStoresIn(fn, pkgPath, name)
	// the private helpers (and their closures) that belong to this operation: a struct may be filled in a helper
	if lastCtx != nil && fn.Parent() == nil {
		for _, h := range lastCtx.opFuncs(fn)[1:] {
			var walk func(f *ssa.Function)
			walk = func(f *ssa.Function) {
				for k, v := range fieldStoresIn(f, pkgPath, name) {
					out[k] = append(out[k], v...)
				}
				for _, a := range f.AnonFuncs {
					walk(a)
				}
			}
			walk(h)
		}
	}
	return out
}

func fieldStoresIn(fn *ssa.Function, pkgPath, name string) map[string][]*ssa.Store {
	out := map[string][]*ssa.Store{}
	for _, b := range fn.Blocks {
		for _, in := range b.Instrs {
			st, ok := in.(*ssa.Store)
			if !ok {
				continue
			}
			fa, ok := st.Addr.(*ssa.FieldAddr)
			if !ok {
				continue
			}
			if !typeIs(fa.X.Type(), pkgPath, name) {
				continue
			}
			f := fieldName(fa.X.Type(), fa.Field)
			out[f] = append(out[f], st)
		}
	}
	return out
}

type depSpec struct {
	sink   string   // field written
	must   []string // source keys that must be in the backward slice (any one of them)
	forbid []string // source keys that must not be
}

// checkDeps: K9 — every store to `sink` depends on its source and on no other content field.
func checkDeps(c *Ctx, r *Rep, rule, where string, fn *ssa.Function, stores map[string][]*ssa.Store, specs []depSpec) {
	for _, sp := range specs {
		key := fmt.Sprintf("%s:%s←%s@%s", rule, sp.sink, strings.Join(sp.must, "|"), where)
		sts := stores[sp.sink]
		if len(sts) == 0 {
			r.Fail(rule, key, fn.Pos(), "field "+sp.sink+" is never set: the value is dropped")
			continue
		}
		ok := true
		msg := ""
		for _, st := range sts {
			src := sources(st.Val)
			has := false
			for _, m := range sp.must {
				if src[m] {
					has = true
				}
			}
			if !has {
				ok, msg = false, sp.sink+" does not derive from "+strings.Join(sp.must, "|")+" (sources: "+srcList(src)+")"
			}
			for _, f := range sp.forbid {
				if src[f] {
					ok, msg = false, sp.sink+" also derives from "+f
				}
			}
			if !ok {
				r.Fail(rule, key, st.Pos(), msg)
				break
			}
		}
		if ok {
			r.OK(rule, key, sts[0].Pos(), "")
		}
	}
}

func srcList(m map[string]bool) string {
	var ks []string
	for k := range m {
		if strings.HasPrefix(k, "field:") || strings.HasPrefix(k, "call:") {
			ks = append(ks, k)
		}
	}
	sort.Strings(ks)
	if len(ks) > 8 {
		ks = ks[:8]
	}
	return strings.Join(ks, ",")
}

func contentForbid(except ...string) []string {
	all := []string{"field:Data", "field:Payload", "field:Attributes", "field:OrderingKey", "field:OrderKey", "field:MessageId", "field:MessageID", "field:AckId"}
	var out []string
	for _, a := range all {
		skip := false
		for _, e := range except {
			if a == e {
				skip = true
			}
		}
		if !skip {
			out = append(out, a)
		}
	}
	return out
}

// ---------------------------------------------------------------------------
// C02.1 response bounded by the request

func ruleC02_1(c *Ctx, r *Rep) {
	s := pullSelect(c)
	key := "C02.1:bound@pull"
	if s == nil {
		r.Fail("C02.1", key, token.NoPos, "pull selection not found")
		return
	}
	limitOK := s.HasLimit && srcHas(s.Limit, "field:MaxMessages")
	breakOK := false
	if ap := c.Fn(fnPullApply); ap != nil {
		ls := loopsOf(ap)
		for _, b := range ap.Blocks {
			if len(b.Instrs) == 0 {
				continue
			}
			iff, ok := b.Instrs[len(b.Instrs)-1].(*ssa.If)
			if !ok {
				continue
			}
			if cmpOn(iff.Cond, []token.Token{token.GEQ, token.GTR}, "field:MaxMessages") {
				if l := innermostLoop(ls, b); l != nil && !l.Blocks[b.Succs[0]] {
					breakOK = true
				}
			}
		}
	}
	r.Check("C02.1", key, s.Pos, limitOK || breakOK, fmt.Sprintf("limit-from-request=%v loop-break=%v", limitOK, breakOK),
		"the number of returned messages is not bounded by the requested maximum (no LIMIT derived from MaxMessages and no loop exit at MaxMessages)")
	// scoping atoms are C01.4's obligations; restated here for this property
	miss, _, _ := c.matchAtoms(s.Where, pullNeed, []ap{{kind: "join"}, {kind: "or"}})
	r.Check("C02.1", "C02.1:scope@pull", s.Pos, len(miss) == 0 && subIsVerified(c), "pull scoped to the verified subscription's outstanding, due rows", "pull selection lacks: "+strings.Join(miss, ", "))
}

// ---------------------------------------------------------------------------
// C02.2 no unscoped delivery mutation anywhere

func ruleC02_2(c *Ctx, r *Rep) {
	keys := c.stmtKeys()
	n := 0
	for _, s := range c.EntShape().Stmts {
		if s.Table != "deliveries" || (s.Kind != "update" && s.Kind != "delete") {
			continue
		}
		n++
		k := "C02.2:" + keys[s]
		if unk, note := s.HasUnknownPred(); unk {
			r.Undecided("C02.2", k, s.Pos, "where clause not interpretable: "+note)
			continue
		}
		scoped := false
		how := ""
		for _, a := range s.Atoms() {
			if a.Kind != "atom" || a.Tbl != "" || !s.Unconditional(a) {
				continue
			}
			if a.Col == "id" && (a.Op == "eq" || a.Op == "in") {
				scoped, how = true, "addressed by delivery id"
			}
			if a.Col == "subscription_id" && a.Op == "eq" {
				// must be the id of the subscription row resolved in this function
				if dependsOnSubscriptionLookup(c, s, a.Arg) {
					scoped, how = true, "scoped to the resolved subscription"
				}
			}
		}
		r.Check("C02.2", k, s.Pos, scoped, how, "mutation of delivery rows is neither addressed by delivery id nor scoped by `subscription_id = <resolved subscription>` on every path: it can touch another subscription's deliveries; where: "+c.predsString(s.Where))
	}
	r.Floor("C02.2", n, 9)
}

// dependsOnSubscriptionLookup: v derives from the terminal of a select on subscriptions owned by the same function.
func dependsOnSubscriptionLookup(c *Ctx, s *Stmt, v ssa.Value) (found bool) {
	withBind(s, func() { found = dependsOnSubscriptionLookup0(c, s, v) })
	return
}

func dependsOnSubscriptionLookup0(c *Ctx, s *Stmt, v ssa.Value) bool {
	// the operation(s) this statement instance runs in: its owner, and the functions whose call completed it
	owners := map[string]bool{c.Owner(s): true}
	for _, f := range s.Frames {
		owners[c.Key(c.effectiveTop(top(f.Parent()), 0))] = true
	}
	for _, q := range c.EntShape().Stmts {
		if q.Table != "subscriptions" || q.Kind != "select" || !owners[c.Owner(q)] {
			continue
		}
		for _, t := range q.Terms {
			if dependsOnCall(v, t.Call) {
				return true
			}
		}
	}
	return false
}

// ---------------------------------------------------------------------------
// C02.3 messages are immutable

func ruleC02_3(c *Ctx, r *Rep) {
	es := c.EntShape()
	// the generated update builders expose no setter for the content columns
	entP := c.PkgByPath[entPkg]
	if entP == nil {
		r.Fail("C02.3", "C02.3:ent", token.NoPos, "package ent not loaded")
		return
	}
	for _, tn := range []string{"MessageUpdate", "MessageUpdateOne"} {
		obj, _ := entP.Types.Scope().Lookup(tn).(*types.TypeName)
		if obj == nil {
			r.Fail("C02.3", "C02.3:type:"+tn, token.NoPos, "generated type not found")
			continue
		}
		ms := types.NewMethodSet(types.NewPointer(obj.Type()))
		for _, col := range []string{"Payload", "Attributes", "OrderKey", "PublishedAt"} {
			bad := ""
			for i := 0; i < ms.Len(); i++ {
				n := ms.At(i).Obj().Name()
				if n == "Set"+col || n == "SetNillable"+col || n == "Clear"+col {
					bad = n
				}
			}
			r.Check("C02.3", "C02.3:immutable:"+tn+"."+col, obj.Pos(), bad == "", "no setter generated (schema field is Immutable)", "generated "+tn+" has "+bad+": messages."+col+" is no longer immutable in the schema")
		}
	}
	keys := c.stmtKeys()
	n := 0
	for _, s := range es.Stmts {
		if s.Table != "messages" {
			continue
		}
		switch s.Kind {
		case "update":
			n++
			r.Fail("C02.3", "C02.3:"+keys[s], s.Pos, "message rows are updated by "+c.Owner(s))
		case "create", "bulk":
			n++
			r.Check("C02.3", "C02.3:"+keys[s], s.Pos, c.Owner(s) == fnPublish, "messages created by publish only", "message rows are created by "+c.Owner(s)+", not by publish")
		case "delete":
			n++
			r.Check("C02.3", "C02.3:"+keys[s], s.Pos, c.Owner(s) == fnPruneCM, "messages deleted by the completed-messages prune job only", "message rows are deleted by "+c.Owner(s))
		}
	}
	r.Floor("C02.3", n, 2)
}

// ---------------------------------------------------------------------------
// C02.4 content provenance

const pbPkg = "cloud.google.com/go/pubsub/apiv1/pubsubpb"

func ruleC02_4(c *Ctx, r *Rep) {
	// publish handler: request message -> action parameters
	if h := r.Anchor("C02.4", "(*services.publisherServer).Publish"); h != nil {
		n := 0
		var walk func(f *ssa.Function)
		walk = func(f *ssa.Function) {
			st := fieldStores(f, modPath+"/actions", "PublishMessageParams")
			if len(st) > 0 {
				n++
				checkDeps(c, r, "C02.4", "Publish", f, st, []depSpec{
					{"Payload", []string{"field:Data"}, contentForbid("field:Data")},
					{"Attributes", []string{"field:Attributes"}, contentForbid("field:Attributes")},
					{"OrderKey", []string{"field:OrderingKey"}, contentForbid("field:OrderingKey")},
				})
				// …and from THIS message: the value is not read from a fixed element of the request's message list
				for _, fld := range []string{"Payload", "Attributes", "OrderKey"} {
					for _, sto := range st[fld] {
						if ix := constIndexed(sto.Val, 0); ix != nil {
							r.Fail("C02.4", "C02.4:this-message:"+fld+"@Publish", sto.Pos(), "PublishMessageParams."+fld+" is read from a fixed element of a list (index "+ix.Index.Name()+"), not from the message being published: every message of a batch is stored with the first one's value (mixed ordering keys lose their order, payloads are duplicated)")
						} else {
							r.OK("C02.4", "C02.4:this-message:"+fld+"@Publish", sto.Pos(), "")
						}
					}
				}
				// each message's parameters are written for that message: every content field is stored on every path
				// to the constructor call (a parameter struct hoisted out of the loop with one field set only under a
				// condition carries the previous message's value over)
				for _, ci := range callsIn(f, false, func(cal *ssa.Function, _ ssa.CallInstruction) bool {
					return fnIs(cal, modPath+"/actions", "NewPublishMessage")
				}) {
					for _, fld := range []string{"Payload", "Attributes", "OrderKey"} {
						okDom := false
						for _, sto := range st[fld] {
							if instrDominates(sto, ci) {
								okDom = true
							}
						}
						if len(st[fld]) == 0 {
							continue // reported by the dependence check above
						}
						r.Check("C02.4", "C02.4:per-message:"+fld+"@Publish", ci.Pos(), okDom, "", "PublishMessageParams."+fld+" is not written on every path to the publish of a message: a message for which the write is skipped is stored with the value of an earlier message of the same request")
					}
				}
			}
			for _, a := range f.AnonFuncs {
				walk(a)
			}
		}
		for _, f := range c.opFuncs(h) {
			walk(f)
		}
		if n == 0 {
			r.Fail("C02.4", "C02.4:params@Publish", h.Pos(), "Publish does not build PublishMessageParams")
		}
		// response ids: MessageIds[i] <- results.ID of the i-th executed publish
		checkPublishIDs(c, r, h)
	}
	// action: parameters -> row
	if fn := r.Anchor("C02.4", fnPublish); fn != nil {
		cr := c.findStmts(fnPublish, "messages", "create")
		if len(cr) != 1 {
			r.Fail("C02.4", "C02.4:create(messages)", fn.Pos(), fmt.Sprintf("expected one message create, found %d", len(cr)))
		} else {
			for _, sp := range [][2]string{{"payload", "params.Payload"}, {"attributes", "params.Attributes"}, {"order_key", "params.OrderKey"}} {
				ms := cr[0].Mut(sp[0])
				ok := len(ms) > 0
				for _, m := range ms {
					src := sources(m.Arg)
					has := false
					for k := range src {
						if strings.HasPrefix(k, "path:") && strings.HasSuffix(k, sp[1]) {
							has = true
						}
					}
					// no other content parameter may flow in
					for _, other := range []string{"params.Payload", "params.Attributes", "params.OrderKey"} {
						if other == sp[1] {
							continue
						}
						for k := range src {
							if strings.HasPrefix(k, "path:") && strings.HasSuffix(k, other) {
								has = false
							}
						}
					}
					ok = ok && has
					// payload and attributes are stored as they were handed in: the value itself, not something a call
					// computed from it (re-encoding a JSON payload changes numbers beyond 2^53, key order, escapes)
					if sp[0] != "order_key" && !strings.HasSuffix(strings.TrimLeft(valKey(m.Arg), "*"), sp[1]) {
						ok = false
					}
				}
				r.Check("C02.4", "C02.4:messages."+sp[0]+"←"+sp[1], cr[0].Pos, ok, "", "messages."+sp[0]+" is not stored from "+sp[1]+" alone, unchanged")
			}
		}
	}
	// pull: row -> result struct
	if fn := r.Anchor("C02.4", fnPullApply); fn != nil {
		st := fieldStores(fn, modPath+"/actions", "SubscriptionMessageDelivery")
		checkDeps(c, r, "C02.4", "applyResults", fn, st, []depSpec{
			{"ID", []string{"field:ID"}, []string{"field:MessageID", "field:Message"}},
			{"MessageID", []string{"field:Message", "field:MessageID"}, contentForbid("field:MessageID")},
			{"Payload", []string{"field:Payload"}, contentForbid("field:Payload")},
			{"Attributes", []string{"field:Attributes"}, contentForbid("field:Attributes")},
			{"OrderKey", []string{"field:OrderKey"}, contentForbid("field:OrderKey")},
			{"PublishedAt", []string{"field:PublishedAt"}, contentForbid()},
		})
		// MessageID specifically from the message's id
		for _, s := range st["MessageID"] {
			src := sources(s.Val)
			r.Check("C02.4", "C02.4:MessageID←Message.ID@applyResults", s.Pos(), src["field:Message"] && src["field:ID"] || src["field:MessageID"], "", "MessageID does not come from the delivered message row")
		}
	}
	// gRPC mapping
	if fn := r.Anchor("C02.4", "services.entDeliveryToGrpc"); fn != nil {
		rm := fieldStores(fn, pbPkg, "ReceivedMessage")
		pm := fieldStores(fn, pbPkg, "PubsubMessage")
		checkDeps(c, r, "C02.4", "entDeliveryToGrpc", fn, rm, []depSpec{
			{"AckId", []string{"field:ID"}, []string{"field:MessageID", "field:Payload"}},
			{"DeliveryAttempt", []string{"field:NumAttempts"}, contentForbid()},
		})
		checkDeps(c, r, "C02.4", "entDeliveryToGrpc", fn, pm, []depSpec{
			{"MessageId", []string{"field:MessageID"}, []string{"field:ID", "field:Payload"}},
			{"Data", []string{"field:Payload"}, contentForbid("field:Payload")},
			{"Attributes", []string{"field:Attributes"}, contentForbid("field:Attributes")},
			{"OrderingKey", []string{"field:OrderKey"}, contentForbid("field:OrderKey")},
			{"PublishTime", []string{"field:PublishedAt"}, contentForbid()},
		})
		plainCopy(c, r, "entDeliveryToGrpc", pm, map[string]string{"Data": "Payload", "Attributes": "Attributes"})
	}
	if fn := r.Anchor("C02.4", fnPullApply); fn != nil {
		plainCopy(c, r, "applyResults", fieldStores(fn, modPath+"/actions", "SubscriptionMessageDelivery"), map[string]string{"Payload": "Payload", "Attributes": "Attributes"})
	}
}

// plainCopy: on the way out, payload and attributes are handed on as they are: every value a content field can get is
// the source field itself (possibly converted) — no alternative constant, no value computed from the content (a
// "null means empty" special case delivers a different document than the one published).
func plainCopy(c *Ctx, r *Rep, where string, stores map[string][]*ssa.Store, fields map[string]string) {
	var names []string
	for k := range fields {
		names = append(names, k)
	}
	sort.Strings(names)
	for _, dst := range names {
		for i, st := range stores[dst] {
			ok := true
			for _, alt := range valueAlternatives(st.Val) {
				u, isU := resolve(alt.v).(*ssa.UnOp)
				if !isU || u.Op != token.MUL {
					ok = false
					continue
				}
				fa, isFA := u.X.(*ssa.FieldAddr)
				if !isFA || fieldName(fa.X.Type(), fa.Field) != fields[dst] {
					ok = false
				}
			}
			r.Check("C02.4", fmt.Sprintf("C02.4:unchanged:%s#%d@%s", dst, i+1, where), st.Pos(), ok, "", dst+" handed to the client is not the stored "+fields[dst]+" itself on every path (a constant, nil or a value computed from the content can take its place): the subscriber receives a different payload than was published")
		}
	}
}

// checkPublishIDs: resp.MessageIds[i] = results.ID of the action executed in the same iteration, same index i as the request message.
func checkPublishIDs(c *Ctx, r *Rep, h *ssa.Function) {
	key := "C02.4:MessageIds[i]←results.ID@Publish"
	found := false
	var walk func(f *ssa.Function)
	walk = func(f *ssa.Function) {
		for _, b := range f.Blocks {
			for _, in := range b.Instrs {
				st, ok := in.(*ssa.Store)
				if !ok {
					continue
				}
				ia, ok := st.Addr.(*ssa.IndexAddr)
				if !ok {
					continue
				}
				if !sources(ia.X)["field:MessageIds"] {
					continue
				}
				found = true
				src := sources(st.Val)
				okID := src["call:Results"] && src["field:ID"]
				// index is the very index value with which the loop reads req.Messages[i]
				okIdx := false
				if l := innermostLoop(loopsOf(f), b); l != nil {
					for lb := range l.Blocks {
						for _, lin := range lb.Instrs {
							if ra, ok := lin.(*ssa.IndexAddr); ok && ra != ia && isRequestField(ra.X, "Messages") && ra.Index == ia.Index {
								okIdx = true
							}
						}
					}
				}
				r.Check("C02.4", key, st.Pos(), okID && okIdx, "", "the id returned for message i is not the id of the i-th stored message")
			}
		}
		for _, a := range f.AnonFuncs {
			walk(a)
		}
	}
	for _, f := range c.opFuncs(h) {
		walk(f)
	}
	if !found {
		r.Fail("C02.4", key, h.Pos(), "Publish never fills MessageIds")
	}
}

// isRequestField: v is the request's repeated field itself (a direct load of the field, or its generated getter),
// not a copy that a call may have permuted or filtered.
func isRequestField(v ssa.Value, field string) bool {
	v = resolve(v)
	if u, ok := v.(*ssa.UnOp); ok && u.Op == token.MUL {
		if fa, ok := u.X.(*ssa.FieldAddr); ok && fieldName(fa.X.Type(), fa.Field) == field {
			return true
		}
	}
	if call, ok := v.(*ssa.Call); ok {
		if cal := call.Call.StaticCallee(); cal != nil && cal.Name() == "Get"+field && cal.Signature.Recv() != nil {
			return true
		}
	}
	return false
}

func dependsOnValue(v, target ssa.Value) bool {
	seen := map[ssa.Value]bool{}
	var walk func(v ssa.Value, d int) bool
	walk = func(v ssa.Value, d int) bool {
		if v == nil || seen[v] || d > 30 {
			return false
		}
		seen[v] = true
		if v == target {
			return true
		}
		if in, ok := v.(ssa.Instruction); ok {
			for _, op := range in.Operands(nil) {
				if *op != nil && walk(*op, d+1) {
					return true
				}
			}
		}
		return false
	}
	return walk(v, 0)
}

// ---------------------------------------------------------------------------
// C03

func ruleC03_1(c *Ctx, r *Rep) {
	keys := c.stmtKeys()
	n := 0
	for _, s := range c.EntShape().Stmts {
		if s.Table != "deliveries" {
			continue
		}
		for _, m := range s.Mut("completed_at", "clear") {
			n++
			r.Check("C03.1", "C03.1:clear(completed_at)@"+keys[s], m.Pos, c.ownedBy(s, fnSeekTime, fnSeekSnap), "completion undone by an explicit seek only",
				c.Owner(s)+" clears deliveries.completed_at: an acknowledged message becomes deliverable again without a seek")
		}
		// setting completed_at to something that is not a time "now" is out of scope; SetNillableCompletedAt(nil) would be a clear
		for _, m := range s.Mut("completed_at", "set") {
			if m.Method == "SetNillableCompletedAt" && s.Kind == "update" {
				r.Check("C03.1", "C03.1:nillable(completed_at)@"+keys[s], m.Pos, c.ownedBy(s, fnSeekTime, fnSeekSnap), "", c.Owner(s)+" may reset completed_at through a nillable setter")
			}
		}
	}
	r.Floor("C03.1", n, 2)
}

func ruleC03_2(c *Ctx, r *Rep) {
	s := pullSelect(c)
	if s == nil {
		r.Fail("C03.2", "C03.2:pull", token.NoPos, "pull selection not found")
		return
	}
	as := s.Find("", "completed_at", "isnull")
	ok := len(as) > 0 && s.Unconditional(as[0])
	r.Check("C03.2", "C03.2:completed_at IS NULL@pull", s.Pos, ok, "pull excludes completed deliveries on every path", "the pull selection does not exclude completed deliveries on every path")
	// the streamer's and any other select that hands deliveries to clients goes through the same action
}

func ruleC03_3(c *Ctx, r *Rep) {
	keys := c.stmtKeys()
	n := 0
	for _, s := range c.EntShape().Stmts {
		if s.Table == "deliveries" && (s.Kind == "create") {
			n++
			r.Check("C03.3", "C03.3:"+keys[s], s.Pos, c.Owner(s) == fnDeliver, "delivery rows are created by deliverToSubscription", "delivery rows are created by "+c.Owner(s)+": a message can be re-enqueued outside publish/dead-letter")
		}
		if s.Table == "deliveries" && s.Kind == "bulk" {
			n++
			r.Check("C03.3", "C03.3:"+keys[s], s.Pos, c.ownedBy(s, fnPublish, fnDeadLetter), "bulk save in publish / dead-letter", "deliveries are bulk-created by "+c.Owner(s))
		}
	}
	r.Floor("C03.3", n, 3)
	if del := r.Anchor("C03.3", fnDeliver); del != nil {
		r.noValueUse(c, "C03.3", del)
		for _, ci := range c.callersOf(del) {
			for _, ow := range c.effectiveOwners(ci.Parent(), 0) {
				o := c.Key(ow)
				r.Check("C03.3", "C03.3:caller:"+o, ci.Pos(), in(o, fnPublish, fnDeadLetter), "", "deliverToSubscription is called from "+o+": deliveries are (re)created outside publish and dead-letter forwarding")
			}
		}
	}
}

// C03.4 idempotence: ack / nack / modify-deadline never fail for unknown, stale or foreign ids.
func ruleC03_4(c *Ctx, r *Rep) {
	for _, fk := range []string{fnAck, fnNack, fnDelay} {
		fn := r.Anchor("C03.4", fk)
		if fn == nil {
			continue
		}
		ok := true
		var bad *ssa.Return
		for _, ret := range returnsOf(fn) {
			if returnsNilError(ret) {
				continue
			}
			e := retLast(ret)
			if !errFromCallsOnly(e) {
				ok, bad = false, ret
			}
		}
		pos := fn.Pos()
		if bad != nil {
			pos = bad.Pos()
		}
		r.Check("C03.4", "C03.4:errors@"+fk, pos, ok, "every error return is the error of a storage/helper call", "returns a self-made error (e.g. for unknown/stale ids): acking or nacking stale ids must succeed")
		// addressed by id IN <ids>
		for _, s := range c.EntShape().Stmts {
			if c.Owner(s) != fk || s.Table != "deliveries" || s.RootKind == "UpdateOne" || s.RootKind == "UpdateOneID" {
				continue
			}
			as := s.Find("", "id", "in")
			r.Check("C03.4", "C03.4:addressed@"+c.stmtKeys()[s], s.Pos, len(as) > 0 && s.Unconditional(as[0]), "addressed by id IN <ids>", "statement is not addressed by `id IN <ids>`")
		}
	}
}

// errFromCallsOnly: the error value is (a phi of) results of calls — not a global sentinel or a constructed error.
func errFromCallsOnly(v ssa.Value) bool {
	seen := map[ssa.Value]bool{}
	var walk func(v ssa.Value) bool
	walk = func(v ssa.Value) bool {
		if seen[v] {
			return true
		}
		seen[v] = true
		switch x := v.(type) {
		case *ssa.Phi:
			for _, e := range x.Edges {
				if !walk(e) {
					return false
				}
			}
			return true
		case *ssa.Extract:
			_, ok := x.Tuple.(*ssa.Call)
			if ok {
				return !isErrCtor(x.Tuple.(*ssa.Call))
			}
			return false
		case *ssa.Call:
			return !isErrCtor(x)
		case *ssa.Const:
			return x.Value == nil
		case *ssa.UnOp:
			if x.Op == token.MUL {
				if _, isG := x.X.(*ssa.Global); isG {
					return false // sentinel
				}
				if st := allocStores(x.X); len(st) > 0 {
					for _, s := range st {
						if !walk(s.Val) {
							return false
						}
					}
					return true
				}
			}
			return false
		case *ssa.MakeInterface:
			return false
		}
		return false
	}
	return walk(v)
}

func isErrCtor(call *ssa.Call) bool {
	cal := call.Call.StaticCallee()
	if cal == nil {
		return false
	}
	p := fnPkgPath(cal)
	return (p == "errors" && cal.Name() == "New") || (p == "fmt" && cal.Name() == "Errorf") || strings.HasSuffix(p, "grpc/status")
}

// constIndexed: the value is loaded (through fields, conversions, loads) from a slice element at a constant index.
func constIndexed(v ssa.Value, d int) *ssa.IndexAddr {
	for ; d < 12 && v != nil; d++ {
		switch x := v.(type) {
		case *ssa.Convert:
			v = x.X
		case *ssa.ChangeType:
			v = x.X
		case *ssa.UnOp:
			if x.Op != token.MUL {
				return nil
			}
			v = x.X
		case *ssa.FieldAddr:
			v = x.X
		case *ssa.Field:
			v = x.X
		case *ssa.IndexAddr:
			if _, isK := x.Index.(*ssa.Const); isK {
				return x
			}
			return nil
		default:
			return nil
		}
	}
	return nil
}

package main

import (
	"fmt"
	"go/constant"
	"go/token"
	"go/types"
	"strings"

	"golang.org/x/tools/go/ssa"
)

// Rules added after mapping which hand-written functions carried no obligation at all ("blind spots").

// ---------------------------------------------------------------------------
// C18.7: the gRPC fault interceptors. For every call of (*faults.Set).Check in package grpc:
//   - it is not in a loop (one intercepted call consumes at most one count);
//   - a non-nil result is returned to the caller (K5) and the nil edge dominates the intercepted operation
//     (handler / underlying SendMsg) when that operation follows the check;
//   - the parameter map handed to it comes from paramsFromProtoMessage applied to THIS call's message and is not
//     given back to the pool before the check has used it (no use after Put);
//   - the operation it names derives from the call's method (splitMethodName(info.FullMethod) / the stream's method).
func ruleC18_7(c *Ctx, r *Rep) {
	n := 0
	for _, f := range c.Funcs {
		if c.PkgOf(f) != "grpc" || c.testSupport(f) {
			continue
		}
		loops := loopsOf(f)
		for _, ci := range callsIn(f, false, func(cal *ssa.Function, _ ssa.CallInstruction) bool {
			return cal.Name() == "Check" && strings.HasSuffix(fnPkgPath(cal), "/faults") && cal.Signature.Recv() != nil
		}) {
			call, ok := ci.(*ssa.Call)
			if !ok {
				r.Fail("C18.7", fmt.Sprintf("C18.7:check#%d@%s", n+1, c.Key(f)), ci.Pos(), "fault check started with go/defer: its verdict cannot fail the call")
				continue
			}
			n++
			key := fmt.Sprintf("C18.7:check#%d@%s", n, c.Key(f))
			// (a) not in a loop
			inLoop := false
			for _, l := range loops {
				if l.Blocks[call.Block()] {
					inLoop = true
				}
			}
			r.Check("C18.7", key+":once", call.Pos(), !inLoop, "one check per intercepted call", "the fault check runs in a loop: one call can consume several counts")
			// (b) the verdict is returned
			okH, why := errHandled(f, call)
			r.Check("C18.7", key+":verdict-returned", call.Pos(), okH, "a firing fault fails the call", "the verdict of the fault check does not fail the call: "+why)
			// (c) operation
			args := call.Call.Args // recv, op, params
			if len(args) == 3 {
				okOp := isMethodPart(c, args[1], 0)
				r.Check("C18.7", key+":operation", call.Pos(), okOp, "operation = this call's method", "the operation handed to the fault check is not derived from the intercepted call's method name")
				// (d) parameters
				pv := resolve(args[2])
				if pc, isCall := pv.(*ssa.Call); isCall && pc.Call.StaticCallee() != nil && pc.Call.StaticCallee().Name() == "paramsFromProtoMessage" {
					msg := pc.Call.Args[len(pc.Call.Args)-1]
					ms := sources(msg)
					fromParam := false
					for k := range ms {
						if strings.HasPrefix(k, "param:") {
							fromParam = true
						}
					}
					r.Check("C18.7", key+":params-of-this-message", call.Pos(), fromParam, "", "the parameter map is not built from the intercepted message")
					// no Put(params) that can run before the check
					early := false
					for _, b := range f.Blocks {
						for _, in := range b.Instrs {
							pc2, isC := in.(*ssa.Call)
							if !isC {
								continue
							}
							cal := pc2.Call.StaticCallee()
							if cal == nil || cal.Name() != "Put" || fnPkgPath(cal) != "sync" {
								continue
							}
							uses := false
							for _, a := range pc2.Call.Args {
								if sources(a)["call:paramsFromProtoMessage"] && dependsOnValue(a, pc) {
									uses = true
								}
							}
							if !uses {
								continue
							}
							if pc2.Block() == call.Block() {
								if instrDominates(pc2, call) {
									early = true
								}
							} else if blockReaches(pc2.Block(), call.Block()) {
								early = true
							}
						}
					}
					r.Check("C18.7", key+":no-use-after-put", call.Pos(), !early, "the map is returned to the pool by defer / after the check", "the pooled parameter map is given back to the pool before the fault check reads it: a concurrent call can refill it, so a non-matching call can be failed (or a matching one missed)")
				}
			}
			// (e) the intercepted operation that follows is on the nil edge
			for _, b := range f.Blocks {
				for _, in := range b.Instrs {
					oc, isC := in.(*ssa.Call)
					if !isC || oc == call {
						continue
					}
					isOp := false
					if p, isP := oc.Call.Value.(*ssa.Parameter); isP && p.Name() == "handler" {
						isOp = true
					}
					if oc.Call.IsInvoke() && (oc.Call.Method.Name() == "SendMsg") {
						isOp = true
					}
					if !isOp || !blockReaches(call.Block(), oc.Block()) && call.Block() != oc.Block() {
						continue
					}
					okNil := false
					for _, cd := range edgeConds(oc.Block()) {
						if bo, isB := cd.V.(*ssa.BinOp); isB && (bo.X == ssa.Value(call) || bo.Y == ssa.Value(call)) && (isNilConst(bo.X) || isNilConst(bo.Y)) {
							if bo.Op == token.NEQ && !cd.Pol || bo.Op == token.EQL && cd.Pol {
								okNil = true
							}
						}
					}
					r.Check("C18.7", key+":operation-after-nil-verdict", oc.Pos(), okNil, "", "the intercepted operation runs although the fault check fired (or the check's verdict is not what guards it)")
				}
			}
		}
	}
	r.Floor("C18.7", n, 4)
}

// isMethodPart: v is (built from) the METHOD part of the intercepted call's full method name: the result of
// splitMethodName(info.FullMethod) that holds the text after the separator, or the stream wrapper's field that was
// initialised with it.
func isMethodPart(c *Ctx, v ssa.Value, depth int) bool {
	if depth > 3 {
		return false
	}
	v = resolve(v)
	switch x := v.(type) {
	case *ssa.BinOp:
		if x.Op == token.ADD {
			// method + ":RecvMsg"
			if _, isK := x.Y.(*ssa.Const); isK {
				return isMethodPart(c, x.X, depth+1)
			}
		}
	case *ssa.Extract:
		call, ok := x.Tuple.(*ssa.Call)
		if !ok || call.Call.StaticCallee() == nil || call.Call.StaticCallee().Name() != "splitMethodName" || !sources(call.Call.Args[0])["field:FullMethod"] {
			return false
		}
		return x.Index == methodResultIndex(call.Call.StaticCallee())
	case *ssa.UnOp:
		if fa, ok := x.X.(*ssa.FieldAddr); ok && x.Op == token.MUL && fieldName(fa.X.Type(), fa.Field) == "method" {
			// every store to that field in the package is a method part
			n := 0
			for _, f := range c.Funcs {
				if c.PkgOf(f) != "grpc" {
					continue
				}
				for _, b := range f.Blocks {
					for _, in := range b.Instrs {
						st, isSt := in.(*ssa.Store)
						if !isSt {
							continue
						}
						sfa, isFA := st.Addr.(*ssa.FieldAddr)
						if !isFA || fieldName(sfa.X.Type(), sfa.Field) != "method" || !types.Identical(sfa.X.Type(), fa.X.Type()) {
							continue
						}
						n++
						if !isMethodPart(c, st.Val, depth+1) {
							return false
						}
					}
				}
			}
			return n > 0
		}
	}
	return false
}

// methodResultIndex: which result of splitMethodName is the text AFTER the separator (s[i+1:], or the second
// result of strings.Cut).
func methodResultIndex(fn *ssa.Function) int {
	for _, ret := range returnsOf(fn) {
		for i := range ret.Results {
			v := resolve(retResult(ret, i))
			if sl, ok := v.(*ssa.Slice); ok && sl.Low != nil && sl.High == nil {
				return i
			}
			if ex, ok := v.(*ssa.Extract); ok && ex.Index == 1 {
				if call, ok := ex.Tuple.(*ssa.Call); ok && call.Call.StaticCallee() != nil && call.Call.StaticCallee().Name() == "Cut" {
					return i
				}
			}
		}
	}
	return -1
}

func blockReaches(from, to *ssa.BasicBlock) bool {
	return reachable(from, to, nil, false)
}

// ---------------------------------------------------------------------------
// C04.7: shape of the backoff NextDelayFor(sub, attempts) — the statement gives the formula
// min(maxBackoff, minBackoff x 1.1^n), defaults 10 s / 10 min, jitter < 1 s. Decided structurally:
//   - both results depend on attempts, sub.MinBackoff and sub.MaxBackoff, and the constant 1.1 is in the slice;
//   - a comparison between an attempts-derived value and a MaxBackoff-derived value exists (the clamp);
//   - the default constants that stand in for an absent policy are 10 s and 10 min;
//   - fuzzed = nominal + (an unsigned remainder modulo a constant <= 1e9 ns).
func ruleC04_7(c *Ctx, r *Rep) {
	fn := r.Anchor("C04.7", "actions.NextDelayFor")
	if fn == nil {
		return
	}
	rets := returnsOf(fn)
	if len(rets) == 0 {
		r.Fail("C04.7", "C04.7:returns", fn.Pos(), "no return")
		return
	}
	for _, ret := range rets {
		if len(ret.Results) != 2 {
			r.Fail("C04.7", "C04.7:results", ret.Pos(), "NextDelayFor no longer returns (nominal, fuzzed)")
			return
		}
		res := []ssa.Value{retResult(ret, 0), retResult(ret, 1)}
		for i, nm := range []string{"nominal", "fuzzed"} {
			src := sources(res[i])
			ok := src["param:attempts"] && src["field:MinBackoff"] && src["field:MaxBackoff"]
			r.Check("C04.7", "C04.7:"+nm+"-depends-on-policy-and-attempt", ret.Pos(), ok, "", "the "+nm+" delay does not depend on all of: the attempt number, the subscription's minimum and maximum backoff")
		}
		// constants in the slice of the nominal delay
		consts := constsIn(res[0])
		has := func(vals ...float64) bool {
			for _, k := range consts {
				for _, v := range vals {
					if f, ok := constFloat(k); ok && f == v {
						return true
					}
				}
			}
			return false
		}
		r.Check("C04.7", "C04.7:factor-1.1", ret.Pos(), has(1.1), "growth factor 1.1", "the growth factor 1.1 of the statement is not part of the computation")
		r.Check("C04.7", "C04.7:default-min-10s", ret.Pos(), has(1e10, 10, 10000), "default minimum 10 s", "the default minimum backoff is not 10 s")
		r.Check("C04.7", "C04.7:default-max-10min", ret.Pos(), has(6e11, 600, 600000), "default maximum 10 min", "the default maximum backoff is not 10 min")
		// jitter
		okJ := false
		var walk func(v ssa.Value, d int)
		seen := map[ssa.Value]bool{}
		walk = func(v ssa.Value, d int) {
			if v == nil || seen[v] || d > 12 {
				return
			}
			seen[v] = true
			if bo, ok := v.(*ssa.BinOp); ok && bo.Op == token.REM {
				if k, isK := constFloat(bo.Y); isK && k > 0 && k <= 1e9 {
					if bt, isB := bo.Type().Underlying().(*types.Basic); isB && bt.Info()&types.IsUnsigned != 0 {
						okJ = true
					}
				}
			}
			if in, ok := v.(ssa.Instruction); ok {
				for _, op := range in.Operands(nil) {
					if *op != nil {
						walk(*op, d+1)
					}
				}
			}
		}
		if add, ok := strip(res[1]).(*ssa.BinOp); ok && add.Op == token.ADD {
			// one side is the nominal delay, the other the jitter
			for _, side := range []ssa.Value{add.X, add.Y} {
				if strip(side) != strip(res[0]) {
					walk(side, 0)
				}
			}
			r.Check("C04.7", "C04.7:jitter<1s", ret.Pos(), okJ, "fuzzed = nominal + (unsigned value mod <= 1e9 ns)", "the jitter added to the nominal delay is not an unsigned remainder below one second")
		} else if phi, ok := strip(res[1]).(*ssa.Phi); ok {
			_ = phi
			r.Undecided("C04.7", "C04.7:jitter<1s", ret.Pos(), "the fuzzed delay is not `nominal + jitter` in a form the rule recognises")
		} else {
			r.Undecided("C04.7", "C04.7:jitter<1s", ret.Pos(), "the fuzzed delay is not `nominal + jitter` in a form the rule recognises")
		}
	}
	// the clamp
	clamp := false
	for _, b := range fn.Blocks {
		for _, in := range b.Instrs {
			bo, ok := in.(*ssa.BinOp)
			if !ok {
				continue
			}
			switch bo.Op {
			case token.GTR, token.GEQ, token.LSS, token.LEQ:
			default:
				continue
			}
			sx, sy := sources(bo.X), sources(bo.Y)
			if sx["param:attempts"] && sy["field:MaxBackoff"] && !sy["param:attempts"] || sy["param:attempts"] && sx["field:MaxBackoff"] && !sx["param:attempts"] {
				clamp = true
			}
		}
	}
	// or a call to min(...)
	for _, ci := range callsIn(fn, false, func(cal *ssa.Function, _ ssa.CallInstruction) bool { return cal.Name() == "Min" && fnPkgPath(cal) == "math" }) {
		_ = ci
		clamp = true
	}
	for _, b := range fn.Blocks {
		for _, in := range b.Instrs {
			if call, ok := in.(*ssa.Call); ok {
				if bi, isB := call.Call.Value.(*ssa.Builtin); isB && bi.Name() == "min" {
					clamp = true
				}
			}
		}
	}
	r.Check("C04.7", "C04.7:clamped-at-max", fn.Pos(), clamp, "the grown delay is compared with the maximum", "the delay that grows with the attempt number is never compared with the maximum backoff: it is not capped")
}

func constsIn(v ssa.Value) []*ssa.Const {
	var out []*ssa.Const
	seen := map[ssa.Value]bool{}
	var walk func(v ssa.Value, d int)
	walk = func(v ssa.Value, d int) {
		if v == nil || seen[v] || d > 40 {
			return
		}
		seen[v] = true
		switch x := v.(type) {
		case *ssa.Const:
			out = append(out, x)
			return
		case *ssa.Alloc:
			for _, st := range allocStores(x) {
				walk(st.Val, d+1)
			}
			return
		}
		if in, ok := v.(ssa.Instruction); ok {
			for _, op := range in.Operands(nil) {
				if *op != nil {
					walk(*op, d+1)
				}
			}
		}
	}
	walk(v, 0)
	return out
}

func constFloat(v ssa.Value) (float64, bool) {
	k, ok := v.(*ssa.Const)
	if !ok || k.Value == nil {
		return 0, false
	}
	switch k.Value.Kind() {
	case constant.Int, constant.Float:
		f, _ := constant.Float64Val(constant.ToFloat(k.Value))
		return f, true
	}
	return 0, false
}

// ---------------------------------------------------------------------------
// C11.8: the client's flow-control limits reach the streamer un-swapped: in effectiveFlowControl every store to
// MaxMessages is a constant or the conversion of the first parameter (and never derives from the second), likewise
// MaxBytes; the stream adapter passes m.MaxOutstandingMessages / m.MaxOutstandingBytes in that order.
func ruleC11_8(c *Ctx, r *Rep) {
	fn := r.Anchor("C11.8", "services.effectiveFlowControl")
	if fn == nil {
		return
	}
	if len(fn.Params) != 2 {
		r.Undecided("C11.8", "C11.8:params", fn.Pos(), "effectiveFlowControl no longer takes (maxMessages, maxBytes)")
		return
	}
	st := fieldStores(fn, modPath+"/actions", "FlowControl")
	for i, f := range []string{"MaxMessages", "MaxBytes"} {
		own, other := fn.Params[i], fn.Params[1-i]
		direct, bad := false, false
		var classify func(v ssa.Value, env map[*ssa.Parameter]ssa.Value, d int)
		classify = func(v ssa.Value, env map[*ssa.Parameter]ssa.Value, d int) {
			if d > 12 {
				bad = true
				return
			}
			switch x := v.(type) {
			case *ssa.Const:
				return
			case *ssa.Convert:
				classify(x.X, env, d+1)
				return
			case *ssa.ChangeType:
				classify(x.X, env, d+1)
				return
			case *ssa.Parameter:
				if b, ok := env[x]; ok {
					classify(b, env, d+1)
					return
				}
				if x == own {
					direct = true
					return
				}
				bad = true
				return
			case *ssa.Phi:
				for _, e := range x.Edges {
					classify(e, env, d+1)
				}
				return
			case *ssa.UnOp:
				if al, ok := x.X.(*ssa.Alloc); ok && x.Op == token.MUL {
					for _, s := range allocStores(al) {
						classify(s.Val, env, d+1)
					}
					return
				}
			case *ssa.Call:
				// a private helper that clamps one limit: each of its returns is the value handed in or a constant
				if cal := x.Call.StaticCallee(); cal != nil && c.inModule(cal) && len(cal.Blocks) > 0 && cal.Signature.Results().Len() == 1 {
					ne := map[*ssa.Parameter]ssa.Value{}
					for k, b := range env {
						ne[k] = b
					}
					for k, p := range cal.Params {
						if k < len(x.Call.Args) {
							ne[p] = x.Call.Args[k]
						}
					}
					for _, ret := range returnsOf(cal) {
						classify(retResult(ret, 0), ne, d+1)
					}
					return
				}
			}
			bad = true // computed from something (arithmetic on the client's limit, the other limit, ...)
		}
		for _, s := range st[f] {
			classify(s.Val, map[*ssa.Parameter]ssa.Value{}, 0)
		}
		_ = other
		r.Check("C11.8", "C11.8:"+f+"←"+fn.Params[i].Name(), fn.Pos(), direct && !bad, "the client's value itself (or a constant fallback)", "effectiveFlowControl does not hand the client's "+fn.Params[i].Name()+" through as "+f+" (swapped with the other limit, or altered): the outstanding "+strings.ToLower(strings.TrimPrefix(f, "Max"))+" can exceed what the client allowed")
	}
	n := 0
	for _, ci := range c.callersOf(fn) {
		if c.FnInControl(ci.Parent()) {
			continue
		}
		n++
		a := ci.Common().Args
		s0, s1 := sources(a[0]), sources(a[1])
		ok := s0["field:MaxOutstandingMessages"] && !s0["field:MaxOutstandingBytes"] && s1["field:MaxOutstandingBytes"] && !s1["field:MaxOutstandingMessages"]
		r.Check("C11.8", "C11.8:call@"+c.Key(top(ci.Parent())), ci.Pos(), ok, "(MaxOutstandingMessages, MaxOutstandingBytes)", "the stream adapter does not pass the request's max outstanding messages / bytes in that order")
	}
	r.Floor("C11.8", n, 1)
}

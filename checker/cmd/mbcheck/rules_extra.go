package main

import (
	"encoding/json"
	"fmt"
	"go/constant"
	"go/token"
	"go/types"
	"os"
	"os/exec"
	"path/filepath"
	"reflect"
	"regexp"
	"sort"
	"strconv"
	"strings"

	"golang.org/x/tools/go/ssa"
)

// Rules added after mapping which hand-written functions carried no obligation at all ("blind spots").

// ---------------------------------------------------------------------------
// C18.7: the gRPC fault interceptors. For every call of (*faults.Set).Check in package grpc:
//   - it is not in a loop (one intercepted call consumes at most one count);
//   - a non-nil result is returned to the caller (K5) and the nil edge dominates the intercepted operation
//     (handler / underlying SendMsg) when that operation follows the check;
//   - the parameter map handed to it comes from paramsFromProtoMessage applied to THIS call's message and is not
//     given back to the pool before the check has used it (no use after Put);
//   - the operation it names derives from the call's method (splitMethodName(info.FullMethod) / the stream's method).
func ruleC18_7(c *Ctx, r *Rep) {
	n := 0
	for _, f := range c.Funcs {
		if c.PkgOf(f) != "grpc" || c.testSupport(f) {
			continue
		}
		loops := loopsOf(f)
		for _, ci := range callsIn(f, false, func(cal *ssa.Function, _ ssa.CallInstruction) bool {
			return cal.Name() == "Check" && strings.HasSuffix(fnPkgPath(cal), "/faults") && cal.Signature.Recv() != nil
		}) {
			call, ok := ci.(*ssa.Call)
			if !ok {
				r.Fail("C18.7", fmt.Sprintf("C18.7:check#%d@%s", n+1, c.Key(f)), ci.Pos(), "fault check started with go/defer: its verdict cannot fail the call")
				continue
			}
			n++
			key := fmt.Sprintf("C18.7:check#%d@%s", n, c.Key(f))
			// (a) not in a loop
			inLoop := false
			for _, l := range loops {
				if l.Blocks[call.Block()] {
					inLoop = true
				}
			}
			r.Check("C18.7", key+":once", call.Pos(), !inLoop, "one check per intercepted call", "the fault check runs in a loop: one call can consume several counts")
			// (b) the verdict is returned
			okH, why := errHandled(f, call)
			r.Check("C18.7", key+":verdict-returned", call.Pos(), okH, "a firing fault fails the call", "the verdict of the fault check does not fail the call: "+why)
			// (c) operation
			args := call.Call.Args // recv, op, params
			if len(args) == 3 {
				okOp := isMethodPart(c, args[1], 0)
				r.Check("C18.7", key+":operation", call.Pos(), okOp, "operation = this call's method", "the operation handed to the fault check is not derived from the intercepted call's method name")
				// (d) parameters
				pv := resolve(args[2])
				if pc, isCall := pv.(*ssa.Call); isCall && pc.Call.StaticCallee() != nil && pc.Call.StaticCallee().Name() == "paramsFromProtoMessage" {
					msg := pc.Call.Args[len(pc.Call.Args)-1]
					ms := sources(msg)
					fromParam := false
					for k := range ms {
						if strings.HasPrefix(k, "param:") {
							fromParam = true
						}
					}
					r.Check("C18.7", key+":params-of-this-message", call.Pos(), fromParam, "", "the parameter map is not built from the intercepted message")
					// no Put(params) that can run before the check
					early := false
					for _, b := range f.Blocks {
						for _, in := range b.Instrs {
							pc2, isC := in.(*ssa.Call)
							if !isC {
								continue
							}
							cal := pc2.Call.StaticCallee()
							if cal == nil || cal.Name() != "Put" || fnPkgPath(cal) != "sync" {
								continue
							}
							uses := false
							for _, a := range pc2.Call.Args {
								if sources(a)["call:paramsFromProtoMessage"] && dependsOnValue(a, pc) {
									uses = true
								}
							}
							if !uses {
								continue
							}
							if pc2.Block() == call.Block() {
								if instrDominates(pc2, call) {
									early = true
								}
							} else if blockReaches(pc2.Block(), call.Block()) {
								early = true
							}
						}
					}
					r.Check("C18.7", key+":no-use-after-put", call.Pos(), !early, "the map is returned to the pool by defer / after the check", "the pooled parameter map is given back to the pool before the fault check reads it: a concurrent call can refill it, so a non-matching call can be failed (or a matching one missed)")
				}
			}
			// (e) the intercepted operation that follows is on the nil edge
			for _, b := range f.Blocks {
				for _, in := range b.Instrs {
					oc, isC := in.(*ssa.Call)
					if !isC || oc == call {
						continue
					}
					isOp := false
					if p, isP := oc.Call.Value.(*ssa.Parameter); isP && p.Name() == "handler" {
						isOp = true
					}
					if oc.Call.IsInvoke() && (oc.Call.Method.Name() == "SendMsg") {
						isOp = true
					}
					if !isOp || !blockReaches(call.Block(), oc.Block()) && call.Block() != oc.Block() {
						continue
					}
					okNil := false
					for _, cd := range edgeConds(oc.Block()) {
						if bo, isB := cd.V.(*ssa.BinOp); isB && (bo.X == ssa.Value(call) || bo.Y == ssa.Value(call)) && (isNilConst(bo.X) || isNilConst(bo.Y)) {
							if bo.Op == token.NEQ && !cd.Pol || bo.Op == token.EQL && cd.Pol {
								okNil = true
							}
						}
					}
					r.Check("C18.7", key+":operation-after-nil-verdict", oc.Pos(), okNil, "", "the intercepted operation runs although the fault check fired (or the check's verdict is not what guards it)")
				}
			}
		}
	}
	r.Floor("C18.7", n, 4)
}

// isMethodPart: v is (built from) the METHOD part of the intercepted call's full method name: the result of
// splitMethodName(info.FullMethod) that holds the text after the separator, or the stream wrapper's field that was
// initialised with it.
func isMethodPart(c *Ctx, v ssa.Value, depth int) bool {
	if depth > 3 {
		return false
	}
	v = resolve(v)
	switch x := v.(type) {
	case *ssa.BinOp:
		if x.Op == token.ADD {
			// method + ":RecvMsg"
			if _, isK := x.Y.(*ssa.Const); isK {
				return isMethodPart(c, x.X, depth+1)
			}
		}
	case *ssa.Extract:
		call, ok := x.Tuple.(*ssa.Call)
		if !ok || call.Call.StaticCallee() == nil || call.Call.StaticCallee().Name() != "splitMethodName" || !sources(call.Call.Args[0])["field:FullMethod"] {
			return false
		}
		return x.Index == methodResultIndex(call.Call.StaticCallee())
	case *ssa.UnOp:
		if fa, ok := x.X.(*ssa.FieldAddr); ok && x.Op == token.MUL && fieldName(fa.X.Type(), fa.Field) == "method" {
			// every store to that field in the package is a method part
			n := 0
			for _, f := range c.Funcs {
				if c.PkgOf(f) != "grpc" {
					continue
				}
				for _, b := range f.Blocks {
					for _, in := range b.Instrs {
						st, isSt := in.(*ssa.Store)
						if !isSt {
							continue
						}
						sfa, isFA := st.Addr.(*ssa.FieldAddr)
						if !isFA || fieldName(sfa.X.Type(), sfa.Field) != "method" || !types.Identical(sfa.X.Type(), fa.X.Type()) {
							continue
						}
						n++
						if !isMethodPart(c, st.Val, depth+1) {
							return false
						}
					}
				}
			}
			return n > 0
		}
	}
	return false
}

// methodResultIndex: which result of splitMethodName is the text AFTER the separator (s[i+1:], or the second
// result of strings.Cut).
func methodResultIndex(fn *ssa.Function) int {
	for _, ret := range returnsOf(fn) {
		for i := range ret.Results {
			v := resolve(retResult(ret, i))
			if sl, ok := v.(*ssa.Slice); ok && sl.Low != nil && sl.High == nil {
				return i
			}
			if ex, ok := v.(*ssa.Extract); ok && ex.Index == 1 {
				if call, ok := ex.Tuple.(*ssa.Call); ok && call.Call.StaticCallee() != nil && call.Call.StaticCallee().Name() == "Cut" {
					return i
				}
			}
		}
	}
	return -1
}

func blockReaches(from, to *ssa.BasicBlock) bool {
	return reachable(from, to, nil, false)
}

// ---------------------------------------------------------------------------
// C04.7: shape of the backoff NextDelayFor(sub, attempts) — the statement gives the formula
// min(maxBackoff, minBackoff x 1.1^n), defaults 10 s / 10 min, jitter < 1 s. Decided structurally:
//   - both results depend on attempts, sub.MinBackoff and sub.MaxBackoff, and the constant 1.1 is in the slice;
//   - a comparison between an attempts-derived value and a MaxBackoff-derived value exists (the clamp);
//   - the default constants that stand in for an absent policy are 10 s and 10 min;
//   - fuzzed = nominal + (an unsigned remainder modulo a constant <= 1e9 ns).
func ruleC04_7(c *Ctx, r *Rep) {
	fn := r.Anchor("C04.7", "actions.NextDelayFor")
	if fn == nil {
		return
	}
	rets := returnsOf(fn)
	if len(rets) == 0 {
		r.Fail("C04.7", "C04.7:returns", fn.Pos(), "no return")
		return
	}
	for _, ret := range rets {
		if len(ret.Results) != 2 {
			r.Fail("C04.7", "C04.7:results", ret.Pos(), "NextDelayFor no longer returns (nominal, fuzzed)")
			return
		}
		res := []ssa.Value{retResult(ret, 0), retResult(ret, 1)}
		for i, nm := range []string{"nominal", "fuzzed"} {
			src := sources(res[i])
			ok := src["param:attempts"] && src["field:MinBackoff"] && src["field:MaxBackoff"]
			r.Check("C04.7", "C04.7:"+nm+"-depends-on-policy-and-attempt", ret.Pos(), ok, "", "the "+nm+" delay does not depend on all of: the attempt number, the subscription's minimum and maximum backoff")
		}
		// constants in the slice of the nominal delay
		consts := constsIn(res[0])
		has := func(vals ...float64) bool {
			for _, k := range consts {
				for _, v := range vals {
					if f, ok := constFloat(k); ok && f == v {
						return true
					}
				}
			}
			return false
		}
		r.Check("C04.7", "C04.7:factor-1.1", ret.Pos(), has(1.1), "growth factor 1.1", "the growth factor 1.1 of the statement is not part of the computation")
		r.Check("C04.7", "C04.7:default-min-10s", ret.Pos(), has(1e10, 10, 10000), "default minimum 10 s", "the default minimum backoff is not 10 s")
		r.Check("C04.7", "C04.7:default-max-10min", ret.Pos(), has(6e11, 600, 600000), "default maximum 10 min", "the default maximum backoff is not 10 min")
		// jitter
		okJ := false
		var walk func(v ssa.Value, d int)
		seen := map[ssa.Value]bool{}
		walk = func(v ssa.Value, d int) {
			if v == nil || seen[v] || d > 12 {
				return
			}
			seen[v] = true
			if bo, ok := v.(*ssa.BinOp); ok && bo.Op == token.REM {
				if k, isK := constFloat(bo.Y); isK && k > 0 && k <= 1e9 {
					if bt, isB := bo.Type().Underlying().(*types.Basic); isB && bt.Info()&types.IsUnsigned != 0 {
						okJ = true
					}
				}
			}
			if call, ok := v.(*ssa.Call); ok {
				if cal := call.Call.StaticCallee(); cal != nil && lastCtx != nil && len(cal.Blocks) > 0 && cal.Object() != nil && !cal.Object().Exported() && lastCtx.inModule(cal) {
					for _, ret := range returnsOf(cal) {
						for i := range ret.Results {
							walk(retResult(ret, i), d+1)
						}
					}
				}
			}
			if in, ok := v.(ssa.Instruction); ok {
				for _, op := range in.Operands(nil) {
					if *op != nil {
						walk(*op, d+1)
					}
				}
			}
		}
		if add, ok := strip(res[1]).(*ssa.BinOp); ok && add.Op == token.ADD {
			// one side is the nominal delay, the other the jitter
			for _, side := range []ssa.Value{add.X, add.Y} {
				if strip(side) != strip(res[0]) {
					walk(side, 0)
				}
			}
			r.Check("C04.7", "C04.7:jitter<1s", ret.Pos(), okJ, "fuzzed = nominal + (unsigned value mod <= 1e9 ns)", "the jitter added to the nominal delay is not an unsigned remainder below one second")
		} else if phi, ok := strip(res[1]).(*ssa.Phi); ok {
			_ = phi
			r.Undecided("C04.7", "C04.7:jitter<1s", ret.Pos(), "the fuzzed delay is not `nominal + jitter` in a form the rule recognises")
		} else {
			r.Undecided("C04.7", "C04.7:jitter<1s", ret.Pos(), "the fuzzed delay is not `nominal + jitter` in a form the rule recognises")
		}
	}
	// the clamp (in the function, or in a private helper that computes the nominal delay)
	clamp := false
	for _, g := range c.opFuncs(fn) {
		for _, b := range g.Blocks {
			for _, in := range b.Instrs {
				bo, ok := in.(*ssa.BinOp)
				if !ok {
					continue
				}
				switch bo.Op {
				case token.GTR, token.GEQ, token.LSS, token.LEQ:
				default:
					continue
				}
				sx, sy := sources(bo.X), sources(bo.Y)
				if sx["param:attempts"] && sy["field:MaxBackoff"] && !sy["param:attempts"] || sy["param:attempts"] && sx["field:MaxBackoff"] && !sx["param:attempts"] {
					clamp = true
				}
			}
		}
	}
	// or a call to min(...)
	for _, g := range c.opFuncs(fn) {
		for _, ci := range callsIn(g, false, func(cal *ssa.Function, _ ssa.CallInstruction) bool {
			return cal.Name() == "Min" && fnPkgPath(cal) == "math"
		}) {
			_ = ci
			clamp = true
		}
	}
	for _, b := range fn.Blocks {
		for _, in := range b.Instrs {
			if call, ok := in.(*ssa.Call); ok {
				if bi, isB := call.Call.Value.(*ssa.Builtin); isB && bi.Name() == "min" {
					clamp = true
				}
			}
		}
	}
	r.Check("C04.7", "C04.7:clamped-at-max", fn.Pos(), clamp, "the grown delay is compared with the maximum", "the delay that grows with the attempt number is never compared with the maximum backoff: it is not capped")
}

func constsIn(v ssa.Value) []*ssa.Const {
	var out []*ssa.Const
	seen := map[ssa.Value]bool{}
	var walk func(v ssa.Value, d int)
	walk = func(v ssa.Value, d int) {
		if v == nil || seen[v] || d > 40 {
			return
		}
		seen[v] = true
		switch x := v.(type) {
		case *ssa.Const:
			out = append(out, x)
			return
		case *ssa.Alloc:
			for _, st := range allocStores(x) {
				walk(st.Val, d+1)
			}
			return
		case *ssa.Call:
			// what an unexported helper returns is part of the slice
			if cal := x.Call.StaticCallee(); cal != nil && lastCtx != nil && len(cal.Blocks) > 0 && cal.Object() != nil && !cal.Object().Exported() && lastCtx.inModule(cal) {
				for _, ret := range returnsOf(cal) {
					for i := range ret.Results {
						walk(retResult(ret, i), d+1)
					}
				}
			}
		}
		if in, ok := v.(ssa.Instruction); ok {
			for _, op := range in.Operands(nil) {
				if *op != nil {
					walk(*op, d+1)
				}
			}
		}
	}
	walk(v, 0)
	return out
}

func constFloat(v ssa.Value) (float64, bool) {
	k, ok := v.(*ssa.Const)
	if !ok || k.Value == nil {
		return 0, false
	}
	switch k.Value.Kind() {
	case constant.Int, constant.Float:
		f, _ := constant.Float64Val(constant.ToFloat(k.Value))
		return f, true
	}
	return 0, false
}

// ---------------------------------------------------------------------------
// C11.8: the client's flow-control limits reach the streamer un-swapped: in effectiveFlowControl every store to
// MaxMessages is a constant or the conversion of the first parameter (and never derives from the second), likewise
// MaxBytes; the stream adapter passes m.MaxOutstandingMessages / m.MaxOutstandingBytes in that order.
func ruleC11_8(c *Ctx, r *Rep) {
	fn := r.Anchor("C11.8", "services.effectiveFlowControl")
	if fn == nil {
		return
	}
	if len(fn.Params) != 2 {
		r.Undecided("C11.8", "C11.8:params", fn.Pos(), "effectiveFlowControl no longer takes (maxMessages, maxBytes)")
		return
	}
	st := fieldStores(fn, modPath+"/actions", "FlowControl")
	for i, f := range []string{"MaxMessages", "MaxBytes"} {
		own, other := fn.Params[i], fn.Params[1-i]
		direct, bad := false, false
		var classify func(v ssa.Value, env map[*ssa.Parameter]ssa.Value, d int)
		classify = func(v ssa.Value, env map[*ssa.Parameter]ssa.Value, d int) {
			if d > 12 {
				bad = true
				return
			}
			switch x := v.(type) {
			case *ssa.Const:
				return
			case *ssa.Convert:
				classify(x.X, env, d+1)
				return
			case *ssa.ChangeType:
				classify(x.X, env, d+1)
				return
			case *ssa.Parameter:
				if b, ok := env[x]; ok {
					classify(b, env, d+1)
					return
				}
				if x == own {
					direct = true
					return
				}
				bad = true
				return
			case *ssa.Phi:
				for _, e := range x.Edges {
					classify(e, env, d+1)
				}
				return
			case *ssa.UnOp:
				if al, ok := x.X.(*ssa.Alloc); ok && x.Op == token.MUL {
					for _, s := range allocStores(al) {
						classify(s.Val, env, d+1)
					}
					return
				}
			case *ssa.Call:
				// a private helper that clamps one limit: each of its returns is the value handed in or a constant
				if cal := x.Call.StaticCallee(); cal != nil && c.inModule(cal) && len(cal.Blocks) > 0 && cal.Signature.Results().Len() == 1 {
					ne := map[*ssa.Parameter]ssa.Value{}
					for k, b := range env {
						ne[k] = b
					}
					for k, p := range cal.Params {
						if k < len(x.Call.Args) {
							ne[p] = x.Call.Args[k]
						}
					}
					for _, ret := range returnsOf(cal) {
						classify(retResult(ret, 0), ne, d+1)
					}
					return
				}
			}
			bad = true // computed from something (arithmetic on the client's limit, the other limit, ...)
		}
		for _, s := range st[f] {
			classify(s.Val, map[*ssa.Parameter]ssa.Value{}, 0)
		}
		_ = other
		r.Check("C11.8", "C11.8:"+f+"←"+fn.Params[i].Name(), fn.Pos(), direct && !bad, "the client's value itself (or a constant fallback)", "effectiveFlowControl does not hand the client's "+fn.Params[i].Name()+" through as "+f+" (swapped with the other limit, or altered): the outstanding "+strings.ToLower(strings.TrimPrefix(f, "Max"))+" can exceed what the client allowed")
	}
	n := 0
	for _, ci := range c.callersOf(fn) {
		if c.FnInControl(ci.Parent()) {
			continue
		}
		n++
		a := ci.Common().Args
		s0, s1 := sources(a[0]), sources(a[1])
		ok := s0["field:MaxOutstandingMessages"] && !s0["field:MaxOutstandingBytes"] && s1["field:MaxOutstandingBytes"] && !s1["field:MaxOutstandingMessages"]
		r.Check("C11.8", "C11.8:call@"+c.Key(top(ci.Parent())), ci.Pos(), ok, "(MaxOutstandingMessages, MaxOutstandingBytes)", "the stream adapter does not pass the request's max outstanding messages / bytes in that order")
	}
	r.Floor("C11.8", n, 1)
}

// ---------------------------------------------------------------------------
// C03.5: the ack ids of a request reach the ack / modify-deadline actions complete and in place, or the request
// fails. The values handed to NewAckDeliveries, DelayDeliveriesParams.IDs and the stream request's Ack / Delay lists
// are produced by a conversion whose every uuid.Parse error is returned (no id is skipped), which writes element i
// from input i, and which returns the whole result slice (not a shorter window of it).
func ruleC03_5(c *Ctx, r *Rep) {
	type sink struct {
		fn   string
		what string
		vals func(f *ssa.Function) []ssa.Value
	}
	fieldStoreVals := func(pkg, typ, field string) func(f *ssa.Function) []ssa.Value {
		return func(f *ssa.Function) []ssa.Value {
			var out []ssa.Value
			for _, st := range fieldStores(f, pkg, typ)[field] {
				out = append(out, st.Val)
			}
			return out
		}
	}
	sinks := []sink{
		{"(*services.subscriberServer).Acknowledge", "ack ids", func(f *ssa.Function) []ssa.Value {
			var out []ssa.Value
			for _, ci := range callsIn(f, true, func(cal *ssa.Function, _ ssa.CallInstruction) bool { return cal.Name() == "NewAckDeliveries" }) {
				out = append(out, ci.Common().Args[0])
			}
			return out
		}},
		{"(*services.subscriberServer).ModifyAckDeadline", "modify-deadline ids", fieldStoreVals(modPath+"/actions", "DelayDeliveriesParams", "IDs")},
		{"(*services.streamWrapper).adaptIn", "stream ack ids", fieldStoreVals(modPath+"/actions", "MessageStreamRequest", "Ack")},
		{"(*services.streamWrapper).adaptIn", "stream modify-deadline ids", fieldStoreVals(modPath+"/actions", "MessageStreamRequest", "Delay")},
	}
	n := 0
	for _, sk := range sinks {
		f := r.Anchor("C03.5", sk.fn)
		if f == nil {
			continue
		}
		vals := sk.vals(f)
		key := "C03.5:" + strings.ReplaceAll(sk.what, " ", "-") + "@" + sk.fn
		if len(vals) == 0 {
			r.Fail("C03.5", key, f.Pos(), "the "+sk.what+" are no longer handed to the action")
			continue
		}
		for _, v := range vals {
			n++
			// the producing conversion
			var conv *ssa.Call
			pv := resolve(v)
			if ex, ok := pv.(*ssa.Extract); ok {
				conv, _ = ex.Tuple.(*ssa.Call)
			} else if cc, ok := pv.(*ssa.Call); ok {
				conv = cc
			}
			if conv == nil || conv.Call.StaticCallee() == nil || !c.inModule(conv.Call.StaticCallee()) {
				r.Undecided("C03.5", key, v.Pos(), "the "+sk.what+" are not produced by a module conversion function the rule can inspect")
				continue
			}
			ok, why := completeUUIDConversion(c, conv.Call.StaticCallee(), 0)
			// and its error fails the request
			if ok && conv.Call.StaticCallee().Signature.Results().Len() == 2 {
				var errV ssa.Value
				if refs := conv.Referrers(); refs != nil {
					for _, u := range *refs {
						if ex, isE := u.(*ssa.Extract); isE && ex.Index == 1 {
							errV = ex
						}
					}
				}
				if errV == nil {
					ok, why = false, "the conversion's error is discarded"
				} else if h, w := errHandled(f, errV); !h {
					ok, why = false, "the conversion's error does not fail the request: "+w
				}
			}
			r.Check("C03.5", key, conv.Pos(), ok, "every id is converted in place or the request fails", "the "+sk.what+" of a request do not all reach the action: "+why+" — an Acknowledge that reports success leaves some of its messages unacknowledged")
		}
	}
	r.Floor("C03.5", n, 4)
}

// completeUUIDConversion: F converts its []string parameter to []uuid.UUID completely and positionally.
func completeUUIDConversion(c *Ctx, f *ssa.Function, depth int) (bool, string) {
	res := f.Signature.Results()
	if res.Len() != 2 || !isErrorType(res.At(1).Type()) {
		return false, "the conversion cannot report a malformed id (no error result)"
	}
	nParse := 0
	isUUIDParse := func(g *ssa.Function) bool {
		if g == nil {
			return false
		}
		if o := g.Origin(); o != nil {
			g = o
		}
		return g.Name() == "Parse" && strings.HasSuffix(fnPkgPath(g), "google/uuid")
	}
	var parseCalls []*ssa.Call
	for _, ci := range callsIn(f, false, func(cal *ssa.Function, _ ssa.CallInstruction) bool { return true }) {
		if call, isCall := ci.(*ssa.Call); isCall && isUUIDParse(ci.Common().StaticCallee()) {
			parseCalls = append(parseCalls, call)
		}
	}
	// a generic element-wise helper handed uuid.Parse as a function value: its dynamic call of that parameter
	for _, b := range f.Blocks {
		for _, in := range b.Instrs {
			dc, isDC := in.(*ssa.Call)
			if !isDC || dc.Call.StaticCallee() != nil || dc.Call.IsInvoke() {
				continue
			}
			prm, isP := resolve(dc.Call.Value).(*ssa.Parameter)
			if !isP || prm.Parent() != f {
				continue
			}
			idx := -1
			for i, q := range f.Params {
				if q == prm {
					idx = i
				}
			}
			cs := c.callersOf(f)
			all := len(cs) > 0 && idx >= 0
			for _, site := range cs {
				if idx >= len(site.Common().Args) || !isUUIDParse(funcOf(site.Common().Args[idx])) {
					all = false
				}
			}
			if all {
				parseCalls = append(parseCalls, dc)
			}
		}
	}
	for _, call := range parseCalls {
		{
			nParse++
			var errV ssa.Value
			if refs := call.Referrers(); refs != nil {
				for _, u := range *refs {
					if ex, isE := u.(*ssa.Extract); isE && ex.Index == 1 {
						errV = ex
					}
				}
			}
			if errV == nil {
				return false, "a parse error is discarded"
			}
			if h, w := errHandled(f, errV); !h {
				return false, "a malformed id is skipped instead of failing the conversion (" + w + ")"
			}
			// on the non-nil edge the function must return (not continue with the next element)
			if refs := errV.Referrers(); refs != nil {
				for _, u := range *refs {
					bo, isB := u.(*ssa.BinOp)
					if !isB || !isNilConst(bo.Y) {
						continue
					}
					if br := bo.Referrers(); br != nil {
						for _, x := range *br {
							iff, isIf := x.(*ssa.If)
							if !isIf {
								continue
							}
							nonNil := iff.Block().Succs[0]
							if bo.Op == token.EQL {
								nonNil = iff.Block().Succs[1]
							}
							leaves := false
							for _, in := range nonNil.Instrs {
								if _, isRet := in.(*ssa.Return); isRet {
									leaves = true
								}
							}
							if !leaves {
								return false, "after a malformed id the conversion carries on with the next element"
							}
						}
					}
				}
			}
			// positional: the parsed string is values[i] and the result is stored to out[i] with the same i
			var inIdx, outIdx ssa.Value
			if u, ok := call.Call.Args[0].(*ssa.UnOp); ok {
				if ia, ok := u.X.(*ssa.IndexAddr); ok {
					inIdx = ia.Index
				}
			}
			if ex, ok := call.Call.Args[0].(*ssa.Extract); ok {
				// for i, s := range values: s is the range value; the index is extract #0 of the same Next — go/ssa
				// lowers slice ranges to index loops, so this form is for completeness
				_ = ex
			}
			if refs := call.Referrers(); refs != nil {
				for _, u := range *refs {
					if ex, isE := u.(*ssa.Extract); isE && ex.Index == 0 {
						if er := ex.Referrers(); er != nil {
							for _, x := range *er {
								if st, isSt := x.(*ssa.Store); isSt {
									if ia, isIA := st.Addr.(*ssa.IndexAddr); isIA {
										outIdx = ia.Index
									}
								}
							}
						}
					}
				}
			}
			if inIdx == nil || outIdx == nil || inIdx != outIdx {
				return false, "element i of the result is not the conversion of element i of the request"
			}
		}
	}
	if nParse == 0 {
		// a wrapper that hands the work (and the verdict) to another module conversion
		if depth < 2 {
			for _, ci := range callsIn(f, false, func(cal *ssa.Function, _ ssa.CallInstruction) bool {
				return c.inModule(cal) && len(cal.Blocks) > 0 && cal.Signature.Results().Len() == 2
			}) {
				inner, isCall := ci.(*ssa.Call)
				if !isCall {
					continue
				}
				if ok, _ := completeUUIDConversion(c, inner.Call.StaticCallee(), depth+1); !ok {
					continue
				}
				// every return hands on the inner results (ids as they are; a nil error only under the inner nil error)
				good := true
				for _, ret := range returnsOf(f) {
					r0, r1 := resolve(retResult(ret, 0)), retResult(ret, 1)
					ex, isE := r0.(*ssa.Extract)
					fromInner := isE && ex.Tuple == ssa.Value(inner) && ex.Index == 0
					if !fromInner && !isNilConst(r0) {
						good = false
					}
					if isNilConst(r1) && fromInner {
						// returning the ids with a constant nil error: only under the inner error being nil
						if !condHas(edgeConds(ret.Block()), true, func(v ssa.Value) bool {
							bo, ok := v.(*ssa.BinOp)
							return ok && bo.Op == token.EQL && isNilConst(bo.Y) && dependsOnCall(bo.X, inner)
						}) && !condHas(edgeConds(ret.Block()), false, func(v ssa.Value) bool {
							bo, ok := v.(*ssa.BinOp)
							return ok && bo.Op == token.NEQ && isNilConst(bo.Y) && dependsOnCall(bo.X, inner)
						}) {
							good = false
						}
					}
				}
				if good {
					return true, ""
				}
			}
		}
		return false, "the conversion does not parse the ids with uuid.Parse in a form the rule recognises"
	}
	for _, ret := range returnsOf(f) {
		rv := resolve(retResult(ret, 0))
		if isNilConst(rv) {
			continue
		}
		if _, isSl := rv.(*ssa.Slice); isSl {
			return false, "the conversion returns a window of its result slice (ids after a skipped one are dropped, or zero ids are included)"
		}
		if mk, isMk := rv.(*ssa.MakeSlice); isMk {
			if !sources(mk.Len)["param:"+f.Params[0].Name()] {
				return false, "the result slice is not as long as the request's id list"
			}
			continue
		}
		return false, "the conversion's result is not the slice it filled"
	}
	return true, ""
}

// ---------------------------------------------------------------------------
// C04.8: the stream adapter folds the per-id modify-deadline values of one request into ONE delay for all ids; that
// delay must be the maximum requested (a positive value may only postpone: with the minimum, a zero riding in the same
// request turns every extension into a nack). Accepted forms: a store guarded by `current < new`, the builtin max,
// slices.Max over the request's values.
func ruleC04_8(c *Ctx, r *Rep) {
	f := r.Anchor("C04.8", "(*services.streamWrapper).adaptIn")
	if f == nil {
		return
	}
	// a modify-deadline id is a deadline change, whatever its value: the ids go to the delay action (which makes a
	// zero deadline due at once and wakes the subscription) — never to the nack queue, whose action reschedules by
	// the retry backoff and wakes nobody
	all := fieldStores(f, modPath+"/actions", "MessageStreamRequest")
	nackFromModify := token.NoPos
	fromModify := func(v ssa.Value) bool {
		if sources(v)["field:ModifyDeadlineAckIds"] {
			return true
		}
		for x := range valueClosure([]ssa.Value{v}) {
			if fa, ok := x.(*ssa.FieldAddr); ok && fieldName(fa.X.Type(), fa.Field) == "ModifyDeadlineAckIds" {
				return true
			}
		}
		return false
	}
	for _, st := range all["Nack"] {
		if fromModify(st.Val) {
			nackFromModify = st.Pos()
		}
	}
	delayFromModify := false
	for _, st := range all["Delay"] {
		if fromModify(st.Val) {
			delayFromModify = true
		}
	}
	r.Check("C04.8", "C04.8:modify-deadline-ids-are-delays", nackFromModify, !nackFromModify.IsValid() && delayFromModify, "", "modify-deadline ids of a stream request are (also) routed to the nack queue, or not handed to the delay action: a zero deadline sent on the stream is rescheduled by the retry backoff instead of becoming redeliverable at once")
	sts := all["DelaySeconds"]
	if len(sts) == 0 {
		r.Fail("C04.8", "C04.8:stream-delay", f.Pos(), "the stream adapter no longer sets DelaySeconds")
		return
	}
	ok, why := true, ""
	n := 0
	for _, st := range sts {
		if !sources(st.Val)["field:ModifyDeadlineSeconds"] {
			continue // initialisation with a constant
		}
		n++
		good := false
		// (a) guarded by current < new
		for _, cd := range edgeConds(st.Block()) {
			nc := normCond(cd.V, cd.Pol)
			bo, isB := nc.V.(*ssa.BinOp)
			if !isB {
				continue
			}
			isCur := func(v ssa.Value) bool {
				u, ok := strip(v).(*ssa.UnOp)
				if !ok || u.Op != token.MUL {
					return false
				}
				fa, ok := u.X.(*ssa.FieldAddr)
				return ok && fieldName(fa.X.Type(), fa.Field) == "DelaySeconds"
			}
			curX, curY := isCur(bo.X), isCur(bo.Y)
			newX := !curX && sources(bo.X)["field:ModifyDeadlineSeconds"]
			newY := !curY && sources(bo.Y)["field:ModifyDeadlineSeconds"]
			op := bo.Op
			if !nc.Pol {
				// negate the comparison
				op = map[token.Token]token.Token{token.LSS: token.GEQ, token.GEQ: token.LSS, token.GTR: token.LEQ, token.LEQ: token.GTR}[op]
			}
			if curX && newY && (op == token.LSS || op == token.LEQ) {
				good = true
			}
			if newX && curY && (op == token.GTR || op == token.GEQ) {
				good = true
			}
			if curX && newY && (op == token.GTR || op == token.GEQ) || newX && curY && (op == token.LSS || op == token.LEQ) {
				ok, why = false, "the delay is lowered to the smallest requested value"
			}
		}
		// (b)/(c) max forms
		var walk func(v ssa.Value, d int)
		seen := map[ssa.Value]bool{}
		walk = func(v ssa.Value, d int) {
			if v == nil || seen[v] || d > 10 {
				return
			}
			seen[v] = true
			if call, isC := v.(*ssa.Call); isC {
				if bi, isB := call.Call.Value.(*ssa.Builtin); isB {
					if bi.Name() == "max" {
						good = true
					}
					if bi.Name() == "min" {
						ok, why = false, "the delay is the minimum of the requested values"
					}
				}
				if cal := call.Call.StaticCallee(); cal != nil && fnPkgPath(cal) == "slices" {
					if strings.HasPrefix(cal.Name(), "Max") {
						good = true
					}
					if strings.HasPrefix(cal.Name(), "Min") {
						ok, why = false, "the delay is the minimum of the requested values"
					}
				}
			}
			if in, isI := v.(ssa.Instruction); isI {
				for _, op := range in.Operands(nil) {
					if *op != nil {
						walk(*op, d+1)
					}
				}
			}
		}
		walk(st.Val, 0)
		// (d) a private helper that folds the values handed to it with a compare-and-replace loop
		if call, isC := resolve(st.Val).(*ssa.Call); isC && !good {
			if h := call.Call.StaticCallee(); h != nil && c.inModule(h) && len(h.Blocks) > 0 && h.Object() != nil && !h.Object().Exported() {
				isMax, isMin := foldDirection(h)
				if isMax && !isMin {
					good = true
				}
				if isMin {
					ok, why = false, "the delay is the minimum of the requested values"
				}
			}
		}
		if !good && ok {
			ok, why = false, "the rule cannot see that the delay is the maximum of the requested values"
		}
	}
	r.Check("C04.8", "C04.8:stream-delay-is-max", f.Pos(), ok && n > 0, "one delay for the request: the largest requested", "the stream adapter does not fold the request's modify-deadline values with max: "+why+" — a positive extension can shorten a lease (a zero in the same request nacks everything)")
}

// ---------------------------------------------------------------------------
// C05.6: the predecessor of an ordered message is "the latest by published_at", so every published message needs its
// own clock reading: the published_at of the message row, and the `now` handed to deliverToSubscription (which
// becomes the delivery's published_at), are time.Now() taken inside PublishMessage.Execute — not a value supplied
// by the caller (one stamp for a whole batch makes the lookup tie among the batch's messages).
func ruleC05_6(c *Ctx, r *Rep) {
	fn := r.Anchor("C05.6", fnPublish)
	if fn == nil {
		return
	}
	isFreshNow := func(v ssa.Value) bool {
		call, ok := resolve(v).(*ssa.Call)
		if !ok {
			return false
		}
		cal := call.Call.StaticCallee()
		return cal != nil && fnPkgPath(cal) == "time" && cal.Name() == "Now" && top(call.Parent()) == fn
	}
	n := 0
	for _, s := range c.EntShape().Stmts {
		if s.Table == "messages" && s.Kind == "create" && c.Owner(s) == fnPublish {
			for _, m := range s.Mut("published_at", "set") {
				n++
				r.Check("C05.6", "C05.6:message.published_at=fresh-now", m.Pos, isFreshNow(m.Arg), "time.Now() per published message", "the message's published_at is not a clock reading taken for this message (a caller-supplied or shared stamp makes same-key messages of one request tie in the predecessor lookup)")
			}
		}
	}
	if del := c.Fn(fnDeliver); del != nil {
		for _, ci := range c.callsInOp(fn, func(cal *ssa.Function, _ ssa.CallInstruction) bool { return cal == del }) {
			// the time parameter of deliverToSubscription
			for i, p := range del.Params {
				if typeIs(p.Type(), "time", "Time") && i < len(ci.Common().Args) {
					n++
					arg := ci.Common().Args[i]
					ok := true
					c.atOpSites(fn, ci, 0, func() {
						if !isFreshNow(arg) {
							ok = false
						}
					})
					r.Check("C05.6", "C05.6:delivery.published_at=fresh-now", ci.Pos(), ok, "the same per-message clock reading", "the publish time handed to deliverToSubscription is not a clock reading taken for this message")
				}
			}
		}
	}
	r.Floor("C05.6", n, 2)
}

// ---------------------------------------------------------------------------
// C09.7: the retrying transaction runner. In DoCtxTxRetry: every exit returns the result of the LAST run (so nil only
// if that run succeeded — and therefore committed); a further run is started only when the previous one failed and
// the retry predicate accepted that error.
func ruleC09_7(c *Ctx, r *Rep) {
	fn := r.Anchor("C09.7", "(*ent.Client).DoCtxTxRetry")
	if fn == nil {
		return
	}
	var runs []*ssa.Call
	for _, ci := range callsIn(fn, false, func(cal *ssa.Function, _ ssa.CallInstruction) bool {
		return fnIs(cal, entPkg, "Client.DoTx") || fnIs(cal, entPkg, "Client.DoCtxTx")
	}) {
		if call, ok := ci.(*ssa.Call); ok {
			runs = append(runs, call)
		}
	}
	if len(runs) != 1 {
		r.Fail("C09.7", "C09.7:shape", fn.Pos(), fmt.Sprintf("expected one call of the transaction runner inside the retry loop, found %d", len(runs)))
		return
	}
	run := runs[0]
	okRet := true
	for _, ret := range returnsOf(fn) {
		rv := retResult(ret, 0)
		if !(rv == ssa.Value(run) || dependsOnValue(rv, run)) {
			okRet = false
		}
		// returning a constant nil is only right under run == nil
		if isNilConst(rv) {
			okRet = condHas(edgeConds(ret.Block()), true, func(v ssa.Value) bool {
				bo, ok := v.(*ssa.BinOp)
				return ok && bo.Op == token.EQL && bo.X == ssa.Value(run) && isNilConst(bo.Y)
			})
		}
	}
	r.Check("C09.7", "C09.7:result-is-last-run", run.Pos(), okRet, "every exit returns the last run's result", "DoCtxTxRetry can return something else than the result of its last run: a failed (rolled back) operation is reported as successful, or a successful one as failed")
	// the loop goes round only after retry(ctx, err) == true with err != nil
	okLoop := false
	for _, l := range loopsOf(fn) {
		if !l.Blocks[run.Block()] {
			continue
		}
		okLoop = true
		for _, p := range l.Header.Preds {
			if !l.Blocks[p] {
				continue // entry edge
			}
			cs := edgeConds(p)
			if len(p.Instrs) > 0 {
				if iff, isIf := p.Instrs[len(p.Instrs)-1].(*ssa.If); isIf && len(p.Succs) == 2 {
					nc := normCond(iff.Cond, p.Succs[0] == l.Header)
					cs = append(cs, nc)
					cs = append(cs, expandBoolPhi(nc, 0)...)
				}
			}
			accepted, failed := false, false
			for _, cd := range cs {
				nc := normCond(cd.V, cd.Pol)
				if call, isCall := nc.V.(*ssa.Call); isCall && nc.Pol {
					if pv, isP := call.Call.Value.(*ssa.Parameter); isP && pv.Parent() == fn {
						for _, a := range call.Call.Args {
							if a == ssa.Value(run) {
								accepted = true
							}
						}
					}
				}
				if bo, isB := nc.V.(*ssa.BinOp); isB && bo.X == ssa.Value(run) && isNilConst(bo.Y) {
					if (bo.Op == token.NEQ) == nc.Pol {
						failed = true
					}
				}
			}
			if !(accepted && failed) {
				okLoop = false
			}
		}
	}
	r.Check("C09.7", "C09.7:retry-only-accepted-failures", run.Pos(), okLoop, "another run only after a failure the retry predicate accepted", "DoCtxTxRetry starts another run although the previous one succeeded, or without asking the retry predicate: an operation is applied twice / a permanent failure is retried forever")
}

// ---------------------------------------------------------------------------
// C09.8: an error that reaches a client keeps being an error: status.Error / status.Errorf with codes.OK return nil,
// so no conversion to a gRPC status may use the OK code (constant 0, or a computed code that can be 0).
func ruleC09_8(c *Ctx, r *Rep) {
	n := 0
	for _, f := range c.Funcs {
		pk := c.PkgOf(f)
		if !(pk == "services" || pk == "grpc" || pk == "actions" || pk == "controllers") || c.testSupport(f) {
			continue
		}
		for _, ci := range callsIn(f, false, func(cal *ssa.Function, _ ssa.CallInstruction) bool {
			return strings.HasSuffix(fnPkgPath(cal), "google.golang.org/grpc/status") && (cal.Name() == "Error" || cal.Name() == "Errorf" || cal.Name() == "New" || cal.Name() == "Newf")
		}) {
			n++
			code := ci.Common().Args[0]
			ok := true
			var chk func(v ssa.Value, d int)
			seen := map[ssa.Value]bool{}
			chk = func(v ssa.Value, d int) {
				if seen[v] || d > 8 {
					return
				}
				seen[v] = true
				switch x := v.(type) {
				case *ssa.Const:
					if k, isK := constInt(x); isK && k == 0 {
						ok = false
					}
				case *ssa.Phi:
					for _, e := range x.Edges {
						chk(e, d+1)
					}
				case *ssa.UnOp:
					if al, isA := x.X.(*ssa.Alloc); isA && x.Op == token.MUL {
						dominated := false
						for _, st := range allocStores(al) {
							chk(st.Val, d+1)
							if instrDominates(st, x) {
								dominated = true
							}
						}
						// a local (a named result) read on a path on which nothing was assigned is its zero value: OK
						if !dominated {
							ok = false
						}
					}
				case *ssa.Call:
					// a module helper that picks the code: every one of its results
					if h := x.Call.StaticCallee(); h != nil && c.inModule(h) && len(h.Blocks) > 0 && !c.EntShape().isGenerated(h) {
						for _, ret := range returnsOf(h) {
							if len(ret.Results) >= 1 {
								chk(ret.Results[0], d+1)
							}
						}
					}
				}
			}
			chk(code, 0)
			r.Check("C09.8", fmt.Sprintf("C09.8:status-code#%d@%s", n, c.Key(f)), ci.Pos(), ok, "never codes.OK", "an error is converted to a gRPC status with code OK: status.Error returns nil for it, so the failure is reported to the client as success")
		}
	}
	r.Floor("C09.8", n, 40)
}

// ---------------------------------------------------------------------------
// C06.6: the record handed to deadLetterDelivery describes THIS delivery: built from entities, its four fields come
// from the delivery's id / subscription_id / message_id and the subscription's dead_letter_topic_id; scanned by the
// sweep, the struct tags name exactly those columns.
func ruleC06_6(c *Ctx, r *Rep) {
	if fn := r.Anchor("C06.6", "actions.deadLetterDataFromEntities"); fn != nil {
		st := fieldStores(fn, modPath+"/actions", "deadLetterData")
		checkDeps(c, r, "C06.6", "deadLetterDataFromEntities", fn, st, []depSpec{
			{"DeliveryID", []string{"field:ID"}, []string{"field:SubscriptionID", "field:MessageID", "field:DeadLetterTopicID"}},
			{"DeliverySubscriptionID", []string{"field:SubscriptionID"}, []string{"field:MessageID", "field:DeadLetterTopicID"}},
			{"DeliveryMessageID", []string{"field:MessageID"}, []string{"field:SubscriptionID", "field:DeadLetterTopicID"}},
			{"DeadLetterTopicID", []string{"field:DeadLetterTopicID"}, []string{"field:MessageID", "field:TopicID"}},
		})
		for _, s := range st["DeliveryID"] {
			src := sources(s.Val)
			r.Check("C06.6", "C06.6:DeliveryID←delivery.ID", s.Pos(), src["param:delivery"] && !src["param:sub"], "", "the delivery to retire is not identified by the delivery's own id")
		}
	}
	// struct tags (the sweep scans straight into this struct)
	if p := c.PkgByPath[modPath+"/actions"]; p != nil {
		if obj := p.Types.Scope().Lookup("deadLetterData"); obj != nil {
			if stt, ok := obj.Type().Underlying().(*types.Struct); ok {
				want := map[string]string{"DeliveryID": "id", "DeliverySubscriptionID": "subscription_id", "DeliveryMessageID": "message_id", "DeadLetterTopicID": "dead_letter_topic_id"}
				for i := 0; i < stt.NumFields(); i++ {
					f := stt.Field(i)
					if w, has := want[f.Name()]; has {
						tag := reflect.StructTag(stt.Tag(i)).Get("sql")
						r.Check("C06.6", "C06.6:tag:"+f.Name(), f.Pos(), tag == w, "sql:\""+w+"\"", "deadLetterData."+f.Name()+" is scanned from column `"+tag+"` instead of `"+w+"`: the sweep retires / forwards the wrong row")
					}
				}
			}
		} else {
			r.Fail("C06.6", "anchor:actions.deadLetterData", token.NoPos, "type deadLetterData not found")
		}
	}
}

// ---------------------------------------------------------------------------
// K4 (generalised): "this instruction runs only after the wrapped Commit of a commit hook returned nil".
// Shape-independent: the hook may be an anonymous CommitFunc, a named function, a method value or a Committer
// implementation; the wake may sit in the hook, in a closure or method the hook calls, in a callback handed to a
// registration helper, or in a callback stored in a struct field that the hook invokes.

// commitInvokeIn: the invocation of (ent.Committer).Commit in f, if any.
func commitInvokeIn(f *ssa.Function) ssa.CallInstruction {
	for _, b := range f.Blocks {
		for _, in := range b.Instrs {
			if ci, ok := in.(ssa.CallInstruction); ok && ci.Common().IsInvoke() && ci.Common().Method.Name() == "Commit" {
				if n := namedOf(ci.Common().Value.Type()); n != nil && n.Obj().Name() == "Committer" {
					return ci
				}
			}
		}
	}
	return nil
}

// postCommit: `in` executes only after a successful wrapped Commit.
func postCommit(c *Ctx, in ssa.Instruction, depth int) bool {
	f := in.Parent()
	if commit := commitInvokeIn(f); commit != nil {
		return afterSuccessfulCommit(commit, in)
	}
	if depth > 4 {
		return false
	}
	sites, ok := invocationSites(c, f)
	if !ok || len(sites) == 0 {
		return false
	}
	for _, s := range sites {
		if !postCommit(c, s, depth+1) {
			return false
		}
	}
	return true
}

// invocationSites: every instruction in the module that may invoke f: static calls, and dynamic calls of a parameter
// or struct field that a closure of f is handed to / stored in. ok=false when f's value escapes in a way the rule
// does not follow.
func invocationSites(c *Ctx, f *ssa.Function) ([]ssa.Instruction, bool) {
	var out []ssa.Instruction
	for _, ci := range c.callersOf(f) {
		if _, isGo := ci.(*ssa.Go); isGo {
			return nil, false
		}
		out = append(out, ci)
	}
	// values of f: its closure, bare uses, bound-method wrappers
	var vals []ssa.Value
	if mc := makeClosureOf(f); mc != nil {
		vals = append(vals, mc)
	}
	for _, in := range c.valueUses(f) {
		if mc, ok := in.(*ssa.MakeClosure); ok {
			vals = append(vals, mc)
			continue
		}
		// a bare function value used as an operand of `in`
		if call, ok := in.(*ssa.Call); ok {
			sites, ok2 := paramOrFieldCalls(c, call, f, nil)
			if !ok2 {
				return nil, false
			}
			out = append(out, sites...)
			continue
		}
		return nil, false
	}
	for _, fn := range c.Funcs {
		for _, b := range fn.Blocks {
			for _, in := range b.Instrs {
				if mc, ok := in.(*ssa.MakeClosure); ok {
					if w, ok := mc.Fn.(*ssa.Function); ok && boundTarget(w) == f {
						vals = append(vals, mc)
					}
				}
			}
		}
	}
	for vi := 0; vi < len(vals) && vi < 32; vi++ {
		v := vals[vi]
		refs := v.Referrers()
		if refs == nil {
			continue
		}
		for _, u := range *refs {
			switch x := u.(type) {
			case *ssa.ChangeType:
				// converted to a named function type of the module (`type committedFunc func()`): the same value;
				// a conversion to the transaction machinery's hook types ends at a call outside the module below
				vals = append(vals, x)
			case *ssa.Call:
				if x.Call.Value == v {
					out = append(out, x) // invoked on the spot
					continue
				}
				sites, ok := paramOrFieldCalls(c, x, nil, v)
				if !ok {
					return nil, false
				}
				out = append(out, sites...)
			case *ssa.Store:
				fa, ok := x.Addr.(*ssa.FieldAddr)
				if !ok {
					return nil, false
				}
				out = append(out, fieldCalls(c, fa.X.Type(), fieldName(fa.X.Type(), fa.Field))...)
			case *ssa.DebugRef:
			case *ssa.MakeInterface:
				// converted to CommitFunc / CommitHook: invoked by the transaction machinery — only acceptable when f
				// itself holds the Commit invocation, which the caller has already tested
				return nil, false
			default:
				return nil, false
			}
		}
	}
	return out, true
}

// paramOrFieldCalls: value v (or the bare function fn) is an argument of call; returns the dynamic calls, inside the
// static module callee, of the corresponding parameter — or of the struct field the callee stores it in.
func paramOrFieldCalls(c *Ctx, call *ssa.Call, fn *ssa.Function, v ssa.Value) ([]ssa.Instruction, bool) {
	g := call.Call.StaticCallee()
	if g == nil || !c.inModule(g) || len(g.Blocks) == 0 {
		return nil, false
	}
	var out []ssa.Instruction
	for i, a := range call.Call.Args {
		match := v != nil && (strip(a) == v || strip(a) == strip(v)) || fn != nil && funcOf(a) == fn
		if !match || i >= len(g.Params) {
			continue
		}
		p := g.Params[i]
		var walk func(h *ssa.Function)
		walk = func(h *ssa.Function) {
			for _, b := range h.Blocks {
				for _, in := range b.Instrs {
					switch x := in.(type) {
					case *ssa.Call:
						if x.Call.StaticCallee() == nil && !x.Call.IsInvoke() {
							t := resolve(x.Call.Value)
							for k := 0; k < 5; k++ {
								if fv, isFV := t.(*ssa.FreeVar); isFV {
									if bnd := freeVarBinding(fv); bnd != nil {
										t = resolve(bnd)
										continue
									}
								}
								break
							}
							if t == ssa.Value(p) {
								out = append(out, x)
							}
						}
					case *ssa.Store:
						if resolve(x.Val) == ssa.Value(p) {
							if fa, ok := x.Addr.(*ssa.FieldAddr); ok {
								out = append(out, fieldCalls(c, fa.X.Type(), fieldName(fa.X.Type(), fa.Field))...)
							}
						}
					}
				}
			}
			for _, a := range h.AnonFuncs {
				walk(a)
			}
		}
		walk(g)
	}
	return out, true
}

// fieldCalls: dynamic calls, anywhere in the module, of the value loaded from field `name` of struct type t.
func fieldCalls(c *Ctx, t types.Type, name string) []ssa.Instruction {
	var out []ssa.Instruction
	base := namedOf(t)
	for _, f := range c.Funcs {
		for _, b := range f.Blocks {
			for _, in := range b.Instrs {
				call, ok := in.(*ssa.Call)
				if !ok || call.Call.StaticCallee() != nil || call.Call.IsInvoke() {
					continue
				}
				v := strip(call.Call.Value)
				var ft types.Type
				var fname string
				switch x := v.(type) {
				case *ssa.UnOp:
					if fa, ok := x.X.(*ssa.FieldAddr); ok {
						ft, fname = fa.X.Type(), fieldName(fa.X.Type(), fa.Field)
					}
				case *ssa.Field:
					ft, fname = x.X.Type(), fieldName(x.X.Type(), x.Field)
				}
				if fname == name && ft != nil && namedOf(ft) != nil && base != nil && namedOf(ft).Obj() == base.Obj() {
					out = append(out, call)
				}
			}
		}
	}
	return out
}

// leadsToWake: the call hands control (now or later) to code that wakes publish listeners: its static module callee,
// or a function value among its arguments (closure, method value, named function), transitively through closures,
// static module callees and callbacks stored in struct fields.
func leadsToWake(c *Ctx, call *ssa.Call) bool {
	seen := map[*ssa.Function]bool{}
	var has func(f *ssa.Function, d int) bool
	has = func(f *ssa.Function, d int) bool {
		if f == nil || seen[f] || d > 5 || len(f.Blocks) == 0 {
			return false
		}
		seen[f] = true
		for _, b := range f.Blocks {
			for _, in := range b.Instrs {
				switch x := in.(type) {
				case *ssa.Call:
					if cal := x.Call.StaticCallee(); cal != nil {
						if cal.Name() == "WakePublishListeners" && c.PkgOf(cal) == "actions" {
							return true
						}
						if c.inModule(cal) && has(cal, d+1) {
							return true
						}
					}
					for _, a := range x.Call.Args {
						g := funcOf(a)
						if t := boundTarget(g); t != nil {
							g = t
						}
						if g != nil && has(g, d+1) {
							return true
						}
					}
				case *ssa.MakeClosure:
					g, _ := x.Fn.(*ssa.Function)
					if t := boundTarget(g); t != nil {
						g = t
					}
					if has(g, d+1) {
						return true
					}
				}
			}
		}
		return false
	}
	if cal := call.Call.StaticCallee(); cal != nil && c.inModule(cal) && cal.Name() != "OnCommit" && has(cal, 0) {
		return true
	}
	for _, a := range call.Call.Args {
		g := funcOf(a)
		if t := boundTarget(g); t != nil {
			g = t
		}
		if g != nil && has(g, 0) {
			return true
		}
		// a struct value carrying callbacks (Committer implementations): functions stored into its fields nearby
		if al, ok := strip(a).(*ssa.Alloc); ok {
			if refs := al.Referrers(); refs != nil {
				for _, u := range *refs {
					if fa, ok := u.(*ssa.FieldAddr); ok {
						if fr := fa.Referrers(); fr != nil {
							for _, w := range *fr {
								if st, ok := w.(*ssa.Store); ok {
									if g := funcOf(st.Val); g != nil && has(g, 0) {
										return true
									}
								}
							}
						}
					}
				}
			}
		}
	}
	return false
}

// ---------------------------------------------------------------------------
// C04.9 (shared): no predicate list is built by appending twice to one base slice that has spare capacity. With
// `base := make([]P, 0, 3)` (or any append result), `a := append(base, x)` and `b := append(base, y)` write the same
// backing slot: the second silently replaces the first's predicate — the guard a statement was meant to carry is
// gone although every line looks right. Reported when both appends can run in one execution.
func ruleC04_9(c *Ctx, r *Rep) {
	n := 0
	for _, f := range c.Funcs {
		pk := c.PkgOf(f)
		if !(pk == "actions" || pk == "services") || c.testSupport(f) || c.EntShape().isGenerated(f) {
			continue
		}
		var apps []*ssa.Call
		for _, b := range f.Blocks {
			for _, in := range b.Instrs {
				if call, ok := in.(*ssa.Call); ok {
					if bi, ok := call.Call.Value.(*ssa.Builtin); ok && bi.Name() == "append" && len(call.Call.Args) == 2 {
						if sl, ok := call.Type().Underlying().(*types.Slice); ok {
							if nm, ok := sl.Elem().(*types.Named); ok && nm.Obj().Pkg() != nil && strings.HasSuffix(nm.Obj().Pkg().Path(), "/ent/predicate") {
								apps = append(apps, call)
							}
						}
					}
				}
			}
		}
		for i, a := range apps {
			for _, b := range apps[i+1:] {
				if a.Call.Args[0] != b.Call.Args[0] {
					continue
				}
				n++
				// can both run? (one reaches the other, or they share a block)
				both := a.Block() == b.Block() || reachable(a.Block(), b.Block(), nil, false) || reachable(b.Block(), a.Block(), nil, false)
				spare := false
				switch x := a.Call.Args[0].(type) {
				case *ssa.MakeSlice:
					l, lok := constInt(x.Len)
					cp, cok := constInt(x.Cap)
					spare = !(lok && cok && l == cp)
				case *ssa.Call:
					if bi, ok := x.Call.Value.(*ssa.Builtin); ok && bi.Name() == "append" {
						spare = true
					}
				case *ssa.Phi, *ssa.Parameter, *ssa.UnOp:
					spare = true
				}
				r.Check("C04.9", fmt.Sprintf("C04.9:aliased-append#%d@%s", n, c.Key(f)), b.Pos(), !(both && spare), "", "two predicate lists are appended to the same base slice, which may have spare capacity: the later append overwrites the predicate the earlier one added (a guard silently disappears from one of the statements)")
			}
		}
	}
	r.OK("C04.9", "C04.9:no-aliased-predicate-appends", 0, fmt.Sprintf("%d pairs of appends sharing a base examined", n))
}

// ---------------------------------------------------------------------------
// C15.5: convergence needs every child table of topics to be emptied for a deleted topic. Children that have a prune
// job (messages, subscriptions; deliveries below them) are reclaimed by it; a child table that no job deletes from
// (snapshots) must be removed when the topic is soft-deleted — entirely: the delete carries exactly `fk IN (deleted
// ids)`. With any further restriction the surviving children hold the NO ACTION foreign key and the topic prune fails
// on every round from then on.
func ruleC15_5(c *Ctx, r *Rep) {
	fks, _, ok := c.entSchema()
	if !ok {
		r.Fail("C15.5", "C15.5:ent-schema", token.NoPos, "ent/migrate/schema.go tables not found")
		return
	}
	pruned := map[string]bool{}
	for _, sp := range append(append([]pruneSpec{}, pruneSpecs...), pruneSpecsRest...) {
		pruned[sp.table] = true
	}
	n := 0
	for _, f := range fks {
		if f.RefTable != "topics" || f.OnDelete != "NoAction" || pruned[f.Table] {
			continue
		}
		n++
		stmts := c.findStmts(fnDelTopic, f.Table, "delete")
		key := "C15.5:orphan-children-removed:" + f.Table + "@" + fnDelTopic
		if len(stmts) == 0 {
			r.Fail("C15.5", key, f.Pos, "no job prunes "+f.Table+" and DeleteTopic does not delete the topic's "+f.Table+": the rows keep the NO ACTION foreign key and the topic can never be pruned")
			continue
		}
		for _, s := range stmts {
			at := s.Atoms()
			unk, _ := s.HasUnknownPred()
			good := !unk && len(at) == 1 && at[0].Kind == "atom" && at[0].Col == f.Column && at[0].Op == "in"
			r.Check("C15.5", key, s.Pos, good, "DELETE FROM "+f.Table+" WHERE "+f.Column+" IN (deleted ids)", "the delete of the topic's "+f.Table+" is narrowed by further predicates (or not keyed by "+f.Column+"): surviving rows hold the NO ACTION foreign key, the topic prune fails on every round and the dead topic is never reclaimed")
		}
	}
	if n == 0 {
		r.Fail("C15.5", "C15.5:floor", token.NoPos, "no un-pruned child table of topics found in the schema (snapshots expected)")
	}
}

// ---------------------------------------------------------------------------
// C17.1 (independence): each optional column is reported on its own. The response field fed by column X may sit under
// a test of X, never under a test of a sibling column Y (except the documented nesting: the dead-letter attempts are
// part of the dead-letter policy, which exists only with a dead-letter topic) — otherwise a subscription that has X
// but not Y reads back without X although it was stored.
func ruleC17_1indep(c *Ctx, r *Rep) {
	fn := r.Anchor("C17.1", "services.entSubscriptionToGrpc")
	if fn == nil {
		return
	}
	cols := []string{"MinBackoff", "MaxBackoff", "MessageFilter", "PushEndpoint", "MaxDeliveryAttempts", "DeadLetterTopicID", "Labels", "MessageTTL", "TTL"}
	nested := map[string]string{"MaxDeliveryAttempts": "DeadLetterTopicID"}
	n := 0
	for _, sp := range []struct{ typ, field, own string }{
		{"Subscription", "Filter", "MessageFilter"}, {"PushConfig", "PushEndpoint", "PushEndpoint"},
		{"DeadLetterPolicy", "MaxDeliveryAttempts", "MaxDeliveryAttempts"},
		{"RetryPolicy", "MinimumBackoff", "MinBackoff"}, {"RetryPolicy", "MaximumBackoff", "MaxBackoff"},
		{"Subscription", "MessageRetentionDuration", "MessageTTL"}, {"ExpirationPolicy", "Ttl", "TTL"},
	} {
		for _, st := range fieldStores(fn, pbPkg, sp.typ)[sp.field] {
			if !sources(st.Val)["field:"+sp.own] {
				continue
			}
			n++
			bad := ""
			for _, cd := range edgeConds(st.Block()) {
				src := sources(cd.V)
				for _, y := range cols {
					if y != sp.own && nested[sp.own] != y && src["field:"+y] && !src["field:"+sp.own] {
						bad = y
					}
				}
			}
			r.Check("C17.1", fmt.Sprintf("C17.1:independent:%s.%s@%s", sp.typ, sp.field, c.Key(st.Parent())), st.Pos(), bad == "", "", sp.typ+"."+sp.field+" is reported only when the unrelated column "+bad+" is also set: a subscription configured with "+sp.own+" alone reads back without it")
		}
	}
	if n < 4 {
		r.Fail("C17.1", "C17.1:independent-floor", fn.Pos(), fmt.Sprintf("only %d read-back stores found (≥4 expected)", n))
	}
}

// ---------------------------------------------------------------------------
// C16.4: the effective page size of every List handler is at least 1 for every request value. The handlers index the
// last scanned row under `len(rows) >= pageSize`; with a page size ≤ 0 (a negative page_size let through) that test
// holds for an empty result and rows[len(rows)-1] panics — and LIMIT -n means "no limit" on SQLite. Decided from the
// path-sensitive provenance (K9b) of the LIMIT argument: each alternative is a constant ≥ 1 or a value the path
// conditions bound below by 1.
func ruleC16_4(c *Ctx, r *Rep) {
	n := 0
	for _, s := range c.EntShape().Stmts {
		if s.Kind != "select" || !s.HasLimit || s.Limit == nil || !sources(s.Limit)["field:PageSize"] {
			continue
		}
		n++
		owner := c.Owner(s)
		key := "C16.4:page-size-positive:" + s.Table + "@" + owner
		var at ssa.Instruction
		if refs := s.Limit.Referrers(); refs != nil {
			for _, u := range *refs {
				if call, ok := u.(*ssa.Call); ok && call.Call.StaticCallee() != nil && call.Call.StaticCallee().Name() == "Limit" {
					at = call
				}
			}
		}
		if at == nil {
			r.Undecided("C16.4", key, s.Pos, "the LIMIT call using the page size was not found")
			continue
		}
		alts, ok := provenanceThroughClosures(c, at.Parent(), at, s.Limit, 0)
		if !ok || len(alts) == 0 {
			r.Undecided("C16.4", key, s.Pos, "the page size's provenance could not be enumerated")
			continue
		}
		bad := ""
		for _, a := range alts {
			if !boundedBelow(a, 1) {
				bad = valKey(a.leaf)
				if os.Getenv("MB_DEBUG_PROV") != "" {
					fmt.Fprintf(os.Stderr, "C16.4 %s: leaf=%s alias=%v\n", owner, valKey(a.leaf), a.alias)
					for _, cd := range a.conds {
						fmt.Fprintf(os.Stderr, "   cond %v %s\n", cd.Pol, cd.V)
					}
				}
			}
		}
		r.Check("C16.4", key, at.Pos(), bad == "", "LIMIT ≥ 1 on every path", "the page size can be "+bad+" on a path that does not bound it below by 1: a negative page_size reaches LIMIT and the `len(rows) >= pageSize` test, and rows[len(rows)-1] panics on an empty result")
	}
	r.Floor("C16.4", n, 4)
}

// boundedBelow: the alternative's leaf is a constant ≥ lo, or one of its path conditions compares the same value
// (by access path) with a constant so that leaf ≥ lo follows.
func boundedBelow(a provAlt, lo int64) bool {
	if k, ok := constInt(a.leaf); ok {
		return k >= lo
	}
	if call, ok := strip(a.leaf).(*ssa.Call); ok {
		if bi, isB := call.Call.Value.(*ssa.Builtin); isB && (bi.Name() == "min" || bi.Name() == "max") {
			all, any := true, false
			for _, arg := range call.Call.Args {
				if boundedBelow(provAlt{arg, a.conds, a.alias}, lo) {
					any = true
				} else {
					all = false
				}
			}
			return bi.Name() == "min" && all || bi.Name() == "max" && any
		}
	}
	lk := valKey(a.leaf)
	for _, cd := range a.conds {
		bo, ok := cd.V.(*ssa.BinOp)
		if !ok {
			continue
		}
		op, x, y := bo.Op, bo.X, bo.Y
		if _, isC := constInt(x); isC {
			// const OP x  ==  x OP' const
			x, y = y, x
			switch op {
			case token.LSS:
				op = token.GTR
			case token.LEQ:
				op = token.GEQ
			case token.GTR:
				op = token.LSS
			case token.GEQ:
				op = token.LEQ
			}
		}
		k, isC := constInt(y)
		same := valKey(x) == lk
		for _, al := range a.alias {
			if strip(x) == al {
				same = true
			}
		}
		if !isC || !same {
			continue
		}
		switch {
		case op == token.GTR && cd.Pol && k >= lo-1,
			op == token.GEQ && cd.Pol && k >= lo,
			op == token.LEQ && !cd.Pol && k >= lo-1,
			op == token.LSS && !cd.Pol && k >= lo,
			op == token.EQL && cd.Pol && k >= lo:
			return true
		}
	}
	return false
}

// ---------------------------------------------------------------------------
// C11.9: a pull that found candidates answers; it never falls back into the "nothing found" wait. The wait is entered
// when the action's result cell is still nil after the transaction, so: the cell is written only by applyResults, and
// never with nil. (A caller parked in the wait keeps the byte / message budget it was started with; the streamer
// cannot re-run it with the capacity freed meanwhile, so it stalls with capacity and messages both available.)
func ruleC11_9(c *Ctx, r *Rep) {
	n := 0
	for _, f := range c.Funcs {
		if c.PkgOf(f) != "actions" || c.testSupport(f) {
			continue
		}
		for _, b := range f.Blocks {
			for _, in := range b.Instrs {
				st, ok := in.(*ssa.Store)
				if !ok {
					continue
				}
				fa, ok := st.Addr.(*ssa.FieldAddr)
				if !ok || fieldName(fa.X.Type(), fa.Field) != "results" {
					continue
				}
				// the result cell of the pull action (actionBase[GetSubscriptionMessagesParams, …])
				if !strings.Contains(fa.X.Type().String(), "getSubscriptionMessagesResults") && !strings.Contains(fa.X.Type().String(), "GetSubscriptionMessages") {
					continue
				}
				n++
				cst, isC := strip(st.Val).(*ssa.Const)
				isNil := isC && cst.Value == nil
				okOwner := c.partOf(f, fnPullApply, 0)
				r.Check("C11.9", fmt.Sprintf("C11.9:result-cell#%d@%s", n, c.Key(top(f))), st.Pos(), okOwner && !isNil, "the pull's result is set by applyResults, never reset", "the pull's result cell is reset (or written outside applyResults): a pull that had candidates falls into the nothing-found wait and parks with its stale budget while capacity and messages are both available")
			}
		}
	}
	r.Floor("C11.9", n, 1)
}

// ---------------------------------------------------------------------------
// C08.7: the filter package (validation and evaluation of client-supplied filter text) contains no index or slice
// operation whose bounds the compiler cannot prove. Decided by the compiler's own prove pass (the SSA back end run with
// -d=ssa/check_bce: it lists every bounds check it had to keep), over the same overlay the rest of the run analyses —
// nothing is executed. Today the package has none, so every index into filter text or into the parse tree is
// statically in range; a kept check in this package is an index computed from the input (an offset, a length) that
// can panic, and the server has no recovery interceptor. Stricter than the property (a kept check may be safe for a
// reason the prove pass does not see): such a site is reported as undecided, with the site named.
func ruleC08_7(c *Ctx, r *Rep) {
	r.ExpectControl("C08.7")
	tmp, err := os.MkdirTemp("", "mbcheck-bce-")
	if err != nil {
		r.Undecided("C08.7", "C08.7:compile", token.NoPos, "no scratch directory: "+err.Error())
		return
	}
	defer os.RemoveAll(tmp)
	repl := map[string]string{}
	i := 0
	for p, b := range c.Overlay {
		i++
		f := filepath.Join(tmp, fmt.Sprintf("ov%d.go", i))
		if err := os.WriteFile(f, b, 0o644); err != nil {
			r.Undecided("C08.7", "C08.7:compile", token.NoPos, err.Error())
			return
		}
		repl[p] = f
	}
	oj, _ := json.Marshal(map[string]any{"Replace": repl})
	ovf := filepath.Join(tmp, "overlay.json")
	os.WriteFile(ovf, oj, 0o644)
	// -l: no inlining, so that a kept check is reported in the function that contains the expression (and library
	// code inlined into this package — strconv.Quote keeps checks on 32-bit targets — is not attributed to it)
	cmd := exec.Command("go", "build", "-overlay="+ovf, "-gcflags=-l -d=ssa/check_bce/debug=1", "./filter/")
	cmd.Dir = c.RepoDir
	cmd.Env = append(os.Environ(), c.BuildEnv...)
	out, runErr := cmd.CombinedOutput()
	re := regexp.MustCompile(`^(filter/[^:\s]+\.go):(\d+):(\d+): Found (IsInBounds|IsSliceInBounds)`)
	n, other := 0, 0
	seen := map[string]int{}
	for _, ln := range strings.Split(string(out), "\n") {
		m := re.FindStringSubmatch(strings.TrimPrefix(ln, "./"))
		if m == nil {
			if strings.Contains(ln, "Found Is") {
				other++
			}
			continue
		}
		line, _ := strconv.Atoi(m[2])
		col, _ := strconv.Atoi(m[3])
		abs := filepath.Join(c.RepoDir, m[1])
		pos := token.NoPos
		c.Fset.Iterate(func(f *token.File) bool {
			if f.Name() == abs && line <= f.LineCount() {
				pos = f.LineStart(line) + token.Pos(col-1)
				return false
			}
			return true
		})
		where := m[1]
		for _, f := range c.Funcs {
			if syn := f.Syntax(); syn != nil && pos.IsValid() && syn.Pos() <= pos && pos < syn.End() && f.Parent() == nil {
				where = c.Key(f)
			}
		}
		seen[where+m[4]]++
		n++
		r.Undecided("C08.7", fmt.Sprintf("C08.7:kept-bounds-check:%s#%d@%s", m[4], seen[where+m[4]], where), pos, "the compiler cannot prove this index / slice expression in range ("+m[4]+"): in the filter package the operands come from the client's filter text or its parse positions, so it may panic on some input — and a panic takes the server down (no recovery interceptor)")
	}
	if runErr != nil && n == 0 && other == 0 {
		r.Undecided("C08.7", "C08.7:compile", token.NoPos, "compiling ./filter with bounds-check reporting failed: "+strings.TrimSpace(string(out)))
		return
	}
	// (that the report flag took effect is established by the positive control: an overlay function in this package
	// whose slice bound cannot be proved must be listed on every run)
	r.OK("C08.7", "C08.7:filter-package-bounds-proved", token.NoPos, fmt.Sprintf("compiler prove pass (inlining off): %d kept bounds checks in package filter's own sources (%d in library code instantiated there, not counted)", n, other))
}

// ---------------------------------------------------------------------------
// C12.2 (classifier): isSqlDuplicateKeyError says yes exactly for PostgreSQL's unique_violation (SQLSTATE 23505 of a
// *pgconn.PgError found with errors.As) and for what the SQLite sibling recognises. Another code (23503 is the
// foreign-key violation) turns the loser of a create race into Unknown and, worse, a missing parent into "exists".
func ruleC12_2classifier(c *Ctx, r *Rep) {
	fn := r.Anchor("C12.2", "actions.isSqlDuplicateKeyError")
	if fn == nil {
		return
	}
	pg, lite := false, false
	for _, ret := range returnsOf(fn) {
		cst, isC := retResult(ret, 0).(*ssa.Const)
		if !isC || cst.Value == nil {
			r.Undecided("C12.2", "C12.2:classifier-computed@"+c.Key(fn), ret.Pos(), "the classifier returns a computed value: the rule attributes constant verdicts to paths")
			continue
		}
		if cst.Value.String() != "true" {
			continue
		}
		conds := edgeConds(ret.Block())
		isPg := condHas(conds, true, func(v ssa.Value) bool {
			bo, ok := v.(*ssa.BinOp)
			if !ok || bo.Op != token.EQL {
				return false
			}
			s, isS := constString(bo.Y)
			if !isS {
				s, isS = constString(bo.X)
			}
			return isS && s == "23505" && (sources(bo.X)["field:Code"] || sources(bo.Y)["field:Code"])
		}) && condHas(conds, true, func(v ssa.Value) bool {
			call, ok := strip(v).(*ssa.Call)
			if !ok || call.Call.StaticCallee() == nil || call.Call.StaticCallee().Name() != "As" || len(call.Call.Args) != 2 {
				return false
			}
			return strings.Contains(strip(call.Call.Args[1]).Type().String(), "pgconn.PgError")
		})
		isLite := condHas(conds, true, func(v ssa.Value) bool {
			call, ok := strip(v).(*ssa.Call)
			return ok && call.Call.StaticCallee() != nil && call.Call.StaticCallee().Name() == "isSqliteDuplicateKeyError"
		})
		pg, lite = pg || isPg, lite || isLite
		r.Check("C12.2", "C12.2:classifier-yes-only-for-unique-violation@"+c.Key(fn), ret.Pos(), isPg || isLite, "", "the classifier answers yes on a path that is neither SQLSTATE 23505 of a *pgconn.PgError nor the SQLite sibling's verdict: other storage errors are reported as AlreadyExists")
	}
	r.Check("C12.2", "C12.2:classifier-postgres@"+c.Key(fn), fn.Pos(), pg, "errors.As(*pgconn.PgError) ∧ Code == \"23505\" → true", "PostgreSQL's unique_violation (SQLSTATE 23505) is not recognised as a duplicate key: the loser of a create race gets Unknown instead of AlreadyExists")
	r.Check("C12.2", "C12.2:classifier-sqlite@"+c.Key(fn), fn.Pos(), lite, "", "the SQLite sibling's verdict is not consulted")
}

// ---------------------------------------------------------------------------
// C08.8 (shared with C07): the filter parser is built with exactly the options the grammar was written for — a
// lookahead bound and unquoting of String tokens. Every other participle option changes the accepted language or the
// captured text behind the grammar's back: CaseInsensitive("Ident") makes `Attributes:x` and `hasprefix(...)`
// sentences (stored, and then never matching), Map(...) rewrites tokens (attribute names that spell a keyword),
// Elide / Upper / custom lexers likewise. Module-wide: any call of a participle function that returns an Option.
func ruleC08_8(c *Ctx, r *Rep) {
	n, nUnq, nLook := 0, 0, 0
	// package initialisers hold the option list (`var DefaultParserOptions = []participle.Option{…}`)
	fns := append([]*ssa.Function{}, c.Funcs...)
	for path, sp := range c.SSAPkg {
		if strings.HasPrefix(path, modPath) {
			if ini := sp.Func("init"); ini != nil {
				fns = append(fns, ini)
			}
		}
	}
	for _, f := range fns {
		if c.testSupport(f) {
			continue
		}
		for _, b := range f.Blocks {
			for _, in := range b.Instrs {
				call, ok := in.(*ssa.Call)
				if !ok {
					continue
				}
				cal := call.Call.StaticCallee()
				if cal == nil || !strings.Contains(fnPkgPath(cal), "alecthomas/participle") || cal.Signature.Results().Len() != 1 {
					continue
				}
				if nm := namedOf(cal.Signature.Results().At(0).Type()); nm != nil && nm.Obj().Name() == "ParseOption" {
					// per-call parse options (AllowTrailing, …) can only be made by participle's constructors:
					// the module's parse calls take none
					r.Fail("C08.8", fmt.Sprintf("C08.8:parse-option:%s@%s", cal.Name(), c.Key(top(f))), call.Pos(), "a filter is parsed with participle."+cal.Name()+": a per-call parse option changes what this caller accepts (AllowTrailing accepts any string that merely starts with a filter; the strict parser of the delivery path then fails on the stored string)")
					continue
				}
				if nm := namedOf(cal.Signature.Results().At(0).Type()); nm == nil || nm.Obj().Name() != "Option" {
					continue
				}
				n++
				name := cal.Name()
				if o := cal.Origin(); o != nil {
					name = o.Name()
				}
				okOpt := false
				switch name {
				case "UseLookahead":
					okOpt = true
					nLook++
				case "Unquote":
					okOpt = len(call.Call.Args) == 1
					if okOpt {
						// variadic: the slice literal holds exactly "String"
						vs, all := variadicStringConsts(call.Call.Args[0])
						okOpt = all && len(vs) == 1 && vs[0] == "String"
					}
					if okOpt {
						nUnq++
					}
				}
				r.Check("C08.8", fmt.Sprintf("C08.8:parser-option:%s@%s", name, c.Key(top(f))), call.Pos(), okOpt, "", "the filter parser is built with participle."+name+": an option other than UseLookahead / Unquote(\"String\") changes the accepted language or the captured tokens behind the grammar (mis-cased keywords accepted and stored, attribute names rewritten)")
			}
		}
	}
	r.Check("C08.8", "C08.8:parser-options-present", token.NoPos, nUnq >= 1 && nLook >= 1, fmt.Sprintf("%d option constructors (UseLookahead ×%d, Unquote(String) ×%d)", n, nLook, nUnq), "the parser is no longer built with UseLookahead and Unquote(\"String\") (quoted values would keep their quotes / long filters fail to parse)")
}

// variadicStringConsts: the constant strings of a variadic argument built at the call site (`f("a", "b")`), and
// whether every element is a constant.
func variadicStringConsts(v ssa.Value) ([]string, bool) {
	sl, ok := v.(*ssa.Slice)
	if !ok {
		return nil, false
	}
	al, ok := sl.X.(*ssa.Alloc)
	if !ok || al.Referrers() == nil {
		return nil, false
	}
	var out []string
	all := true
	for _, u := range *al.Referrers() {
		ia, ok := u.(*ssa.IndexAddr)
		if !ok || ia.Referrers() == nil {
			continue
		}
		for _, w := range *ia.Referrers() {
			if st, ok := w.(*ssa.Store); ok {
				if s, isS := constString(st.Val); isS {
					out = append(out, s)
				} else {
					all = false
				}
			}
		}
	}
	return out, all
}

// ---------------------------------------------------------------------------
// C14.6: wherever a subscription's expires_at is written, it is now + the subscription's expiration TTL — derived from
// the TTL (the row's, the request's expiration policy, or the default) and from nothing that is the message
// retention. (One scratch variable shared by the two mask paths of UpdateSubscription stores the right ttl and the
// wrong deadline: the subscription is swept after the retention period although its TTL has not passed.)
func ruleC14_6(c *Ctx, r *Rep) {
	keys := c.stmtKeys()
	n := 0
	for _, s := range c.EntShape().Stmts {
		if s.Table != "subscriptions" || (s.Kind != "update" && s.Kind != "create") || c.testSupport(s.Fn) {
			continue
		}
		for _, m := range s.Mut("expires_at", "set") {
			if m.Arg == nil {
				continue
			}
			n++
			src := sources(m.Arg)
			ttl, retention := false, false
			for k := range src {
				lk := strings.ToLower(k)
				if strings.HasSuffix(lk, "messagettl") || strings.Contains(lk, "messageretention") || strings.HasSuffix(lk, "message_ttl") {
					retention = true
				} else if strings.HasSuffix(lk, "ttl") || strings.Contains(lk, "expirationpolicy") {
					ttl = true
				}
			}
			// where the same statement stores a new ttl, the deadline is computed from that new value (not from the TTL
			// the row had before the update)
			if tm := s.Mut("ttl", "set"); len(tm) > 0 && tm[0].Arg != nil {
				ts := sources(tm[0].Arg)
				shared := false
				for k := range ts {
					lk := strings.ToLower(k)
					if src[k] && !strings.HasPrefix(k, "const") && k != "nil" && (strings.Contains(lk, "ttl") || strings.Contains(lk, "expirationpolicy")) && !strings.HasPrefix(k, "param:") {
						// the request's / the parameters' ttl, not the loaded row's column
						if !(strings.HasPrefix(k, "field:TTL") && !ts["call:GetTtl"] && !hasPathSuffix(ts, "params.TTL")) {
							shared = true
						}
					}
				}
				stale := src["field:TTL"] && !src["call:GetTtl"] && !hasPathSuffix(src, "params.TTL") && (ts["call:GetTtl"] || hasPathSuffix(ts, "params.TTL"))
				r.Check("C14.6", "C14.6:expiry-from-the-new-ttl:"+keys[s], m.Pos, shared && !stale, "", "the statement stores a new ttl but computes expires_at from another value (the TTL the row had before): after raising the TTL the subscription is still swept after the old one")
			}
			r.Check("C14.6", "C14.6:expiry-from-ttl:"+keys[s], m.Pos, src["call:Now"] && ttl && !retention, "expires_at = now + expiration TTL", fmt.Sprintf("the subscription's expires_at is not computed as now + its expiration TTL alone (from-now=%v from-ttl=%v mixes-in-message-retention=%v): the expiry sweep removes a subscription whose TTL has not passed (or keeps it too long)", src["call:Now"], ttl, retention))
		}
	}
	r.Floor("C14.6", n, 3)
}

// ---------------------------------------------------------------------------
// C03.6: every StreamingPull frame reaches the streamer through adaptIn — the opening request included (the API lets
// it carry ack ids and deadline changes for messages received on an earlier stream). A request struct built any
// other way drops the frame's acks silently: the stream carries on, the acked messages are redelivered.
func ruleC03_6(c *Ctx, r *Rep) {
	fn := r.Anchor("C03.6", "(*services.streamWrapper).Receive")
	if fn == nil {
		return
	}
	n := 0
	for _, f := range c.opFuncs(fn) {
		if f != fn && f.Parent() == nil {
			continue // helpers are judged through what Receive returns
		}
		if f != fn {
			continue
		}
		for _, ret := range returnsOf(f) {
			if len(ret.Results) != 2 {
				continue
			}
			v := retResult(ret, 0)
			if isNilConst(v) {
				continue
			}
			n++
			r.Check("C03.6", fmt.Sprintf("C03.6:frame-through-adaptIn#%d@%s", n, c.Key(fn)), ret.Pos(), sources(v)["call:adaptIn"], "", "Receive hands the streamer a request that was not produced by adaptIn from the received frame: ack ids and deadline changes carried by that frame (the opening request may carry them) are dropped silently and the acked messages are redelivered")
		}
	}
	r.Floor("C03.6", n, 2)
	// and adaptIn converts the frame's ack ids (C03.5 judges how)
	if ad := r.Anchor("C03.6", "(*services.streamWrapper).adaptIn"); ad != nil {
		st := fieldStores(ad, modPath+"/actions", "MessageStreamRequest")
		okAck := false
		for _, s := range st["Ack"] {
			if sources(s.Val)["field:AckIds"] {
				okAck = true
			}
		}
		r.Check("C03.6", "C03.6:adaptIn-acks", ad.Pos(), okAck, "", "adaptIn does not hand on the frame's ack ids")
	}
}

// ---------------------------------------------------------------------------
// C17.2 (paths verbatim): the strings the update handlers switch on are the mask's own paths, unaltered. A helper
// that normalises them first (cutting `retry_policy.minimum_backoff` to `retry_policy`, lower-casing, de-duplicating
// by prefix) makes a request that names one member replace the whole block — fields the mask does not name change.
func ruleC17_2verbatim(c *Ctx, r *Rep) {
	for _, hk := range []string{"(*services.subscriberServer).UpdateSubscription", "(*services.publisherServer).UpdateTopic"} {
		h := r.Anchor("C17.2", hk)
		if h == nil {
			continue
		}
		n := 0
		bad := ""
		var pos token.Pos = h.Pos()
		var fns []*ssa.Function
		seenF := map[*ssa.Function]bool{}
		var addF func(f *ssa.Function)
		addF = func(f *ssa.Function) {
			if seenF[f] {
				return
			}
			seenF[f] = true
			fns = append(fns, f)
			for _, a := range f.AnonFuncs {
				addF(a)
			}
		}
		for _, f := range c.opFuncs(h) {
			addF(f)
		}
		addF(h)
		for _, f := range fns {
			for _, b := range f.Blocks {
				if len(b.Instrs) == 0 {
					continue
				}
				iff, isIf := b.Instrs[len(b.Instrs)-1].(*ssa.If)
				if !isIf {
					continue
				}
				bo, isB := iff.Cond.(*ssa.BinOp)
				if !isB || bo.Op != token.EQL {
					continue
				}
				if _, isS := constString(bo.Y); !isS {
					continue
				}
				src := sources(bo.X)
				if !src["call:GetPaths"] && !src["field:Paths"] {
					continue
				}
				n++
				for k := range src {
					if !strings.HasPrefix(k, "call:") {
						continue
					}
					name := strings.TrimPrefix(k, "call:")
					if i := strings.Index(name, "@"); i >= 0 {
						name = name[:i]
					}
					if in(name, "GetPaths", "GetUpdateMask") {
						continue
					}
					// the module's own helpers are looked through (their callees are in the slice as well)
					isHelper := false
					for _, g := range c.Funcs {
						if g.Name() == name && c.inModule(g) && g.Object() != nil && !g.Object().Exported() {
							isHelper = true
							// a pass-through helper only: it may fetch the paths, not compute new strings
							for _, ci := range callsIn(g, true, func(cal *ssa.Function, _ ssa.CallInstruction) bool { return true }) {
								if cal := ci.Common().StaticCallee(); cal != nil && !in(cal.Name(), "GetPaths", "GetUpdateMask") {
									bad, pos = name+" → "+cal.Name(), bo.Pos()
								}
							}
						}
					}
					if !isHelper {
						bad, pos = name, bo.Pos()
					}
				}
			}
		}
		if n == 0 {
			r.Undecided("C17.2", "C17.2:paths-verbatim@"+hk, h.Pos(), "no comparison of a mask path with a constant found")
			continue
		}
		r.Check("C17.2", "C17.2:paths-verbatim@"+hk, pos, bad == "", fmt.Sprintf("%d path comparisons on the mask's own strings", n), "the handler switches on mask paths that went through "+bad+" first: a normalised path (nested member cut to its parent, case folded) makes an update replace fields its mask does not name")
	}
}

// C17.4 (shared with C06, C12): a subscription is pointed at a dead-letter topic only by the result of a lookup made
// for that purpose (the statement's own `name = … AND deleted_at IS NULL`, see C12.1) — never by an entity that came
// along as a cached edge: the eager-loaded edge is not filtered on deletion and names are unique among live topics
// only, so after delete + re-create the row keeps pointing at the dead predecessor.
func ruleC17_4(c *Ctx, r *Rep) {
	n := 0
	keys := c.stmtKeys()
	for _, s := range c.EntShape().Stmts {
		if s.Table != "subscriptions" || (s.Kind != "update" && s.Kind != "create") || c.testSupport(s.Fn) {
			continue
		}
		for _, m := range s.Mut("dead_letter_topic_id", "set") {
			if m.Arg == nil {
				continue
			}
			n++
			ok := true
			for _, alt := range valueAlternatives(m.Arg) {
				if !entityFromLookup(c, alt.v, 0) {
					ok = false
				}
			}
			r.Check("C17.4", "C17.4:dead-letter-topic-from-live-lookup:"+keys[s], m.Pos, ok, "", "the dead-letter topic stored on the subscription can be an entity that was not looked up for this request (a cached edge of the loaded subscription): it may be a soft-deleted topic of the same name — Get then reports _deleted-topic_ and nothing is forwarded")
		}
	}
	r.Floor("C17.4", n, 2)
}

// ---------------------------------------------------------------------------
// C10.8: a change made here is announced to the other instances too. The Wake*Listeners functions take
// onlyInternal: true is for events RECEIVED from the PostgreSQL notifier (re-broadcasting them would loop); every
// originating site passes false, so that the registered hooks (the LISTEN/NOTIFY bridge) hear of it. The one
// originating `true` is the publish wake-up that accompanies a subscription-modified event already sent with false
// for the same id. With true at an originating site, a puller waiting in another instance is never woken.
func ruleC10_8(c *Ctx, r *Rep) {
	n := 0
	isWake := func(cal *ssa.Function) bool {
		return cal != nil && fnPkgPath(cal) == modPath+"/actions" && in(cal.Name(), "WakePublishListeners", "WakeTopicListeners", "WakeSubscriptionListeners")
	}
	for _, f := range c.Funcs {
		if c.testSupport(f) || c.EntShape().isGenerated(f) {
			continue
		}
		var calls []ssa.CallInstruction
		for _, b := range f.Blocks {
			for _, in := range b.Instrs {
				if ci, ok := in.(ssa.CallInstruction); ok && isWake(ci.Common().StaticCallee()) && len(ci.Common().Args) >= 2 {
					calls = append(calls, ci)
				}
			}
		}
		for i, ci := range calls {
			n++
			key := fmt.Sprintf("C10.8:announced-to-other-instances:%s#%d@%s", ci.Common().StaticCallee().Name(), i+1, c.Key(top(f)))
			// what is woken is what this transaction asked for: the ids come from the caller's own values (captured
			// variables, parameters, rows it loaded), never from package-level state shared between transactions — ids
			// parked there by a transaction that was rolled back would be woken by the next unrelated commit
			for ai, a := range ci.Common().Args[1:] {
				shared := ""
				chk := func(v ssa.Value) {
					for k := range sources(v) {
						if strings.HasPrefix(k, "global:") {
							shared = strings.TrimPrefix(k, "global:")
						}
					}
				}
				chk(a)
				if sl, ok := a.(*ssa.Slice); ok {
					chk(sl.X)
				}
				if shared != "" || ai == 0 {
					r.Check("C09.9", fmt.Sprintf("C09.9:wake-target-is-the-transactions-own:%s#%d@%s", ci.Common().StaticCallee().Name(), i+1, c.Key(top(f))), ci.Pos(), shared == "", "", "the ids woken after a commit are read from the package-level variable "+shared+", which other transactions write too: a transaction that was rolled back leaves its ids there and the next unrelated commit announces a change that never happened")
				}
			}
			cst, isC := ci.Common().Args[0].(*ssa.Const)
			if !isC || cst.Value == nil {
				// handed on from the caller (wake helpers with an onlyInternal parameter of their own)
				if _, isP := resolve(ci.Common().Args[0]).(*ssa.Parameter); isP {
					r.OK("C10.8", key, ci.Pos(), "onlyInternal handed on from the caller")
				} else {
					r.Undecided("C10.8", key, ci.Pos(), "onlyInternal is computed: the rule needs a constant or a parameter handed on")
				}
				continue
			}
			if cst.Value.String() != "true" {
				r.OK("C10.8", key, ci.Pos(), "originating site announces to hooks")
				continue
			}
			receiving := strings.HasPrefix(c.Key(top(f)), "(*services.pgNotifier)")
			accompanied := false
			for _, o := range calls {
				if o == ci {
					continue
				}
				oc, isOC := o.Common().Args[0].(*ssa.Const)
				if isOC && oc.Value != nil && oc.Value.String() == "false" && o.Common().StaticCallee().Name() == "WakeSubscriptionListeners" && sameOrigin(o.Common().Args[1], ci.Common().Args[1]) && instrDominates(o, ci) {
					accompanied = true
				}
			}
			if os.Getenv("MB_DEBUG_PROV") != "" && !(receiving || accompanied) {
				for _, o := range calls {
					fmt.Fprintf(os.Stderr, "C10.8 dbg %s: %s args1=%v dom=%v\n", c.Key(f), o.Common().StaticCallee().Name(), sources(o.Common().Args[1]), instrDominates(o, ci))
				}
			}
			r.Check("C10.8", key, ci.Pos(), receiving || accompanied, "", "a wake-up for a change made in this process is kept internal (onlyInternal = true): the notifier hooks never hear of it, so a puller waiting in another instance behind this change sleeps until its timeout")
		}
	}
	r.Floor("C10.8", n, 8)
}

// sameOrigin: the two values derive from a common non-call origin (the same parameter, captured variable or field).
func sameOrigin(a, b ssa.Value) bool {
	srcOf := func(v ssa.Value) map[string]bool {
		out := map[string]bool{}
		for k := range sources(v) {
			out[k] = true
		}
		// a variadic argument built at the call site: the elements stored into its backing array
		if sl, ok := v.(*ssa.Slice); ok {
			if al, ok := sl.X.(*ssa.Alloc); ok && al.Referrers() != nil {
				for _, u := range *al.Referrers() {
					if ia, ok := u.(*ssa.IndexAddr); ok && ia.Referrers() != nil {
						for _, w := range *ia.Referrers() {
							if st, ok := w.(*ssa.Store); ok {
								for k := range sources(st.Val) {
									out[k] = true
								}
							}
						}
					}
				}
			}
		}
		return out
	}
	sa, sb := srcOf(a), srcOf(b)
	for k := range sa {
		if !strings.HasPrefix(k, "call:") && !strings.HasPrefix(k, "const") && sb[k] {
			return true
		}
	}
	return false
}

// entityFromLookup: v is the entity a query terminal (Only / First / Get) returned — directly, as the result of a
// module helper all of whose non-nil results are such entities, or its ID field — and not an entity reached through
// another row's cached edges.
func entityFromLookup(c *Ctx, v ssa.Value, depth int) bool {
	if depth > 4 {
		return false
	}
	v = resolve(v)
	idx := 0
	var call *ssa.Call
	switch x := v.(type) {
	case *ssa.Extract:
		cl, ok := x.Tuple.(*ssa.Call)
		if !ok {
			return false
		}
		call, idx = cl, x.Index
	case *ssa.Call:
		call = x
	case *ssa.UnOp:
		if x.Op == token.MUL {
			if fa, ok := x.X.(*ssa.FieldAddr); ok && fieldName(fa.X.Type(), fa.Field) == "ID" {
				return entityFromLookup(c, fa.X, depth+1)
			}
		}
		return false
	case *ssa.Phi:
		for _, e := range x.Edges {
			if !entityFromLookup(c, e, depth+1) {
				return false
			}
		}
		return len(x.Edges) > 0
	default:
		return false
	}
	cal := call.Call.StaticCallee()
	if cal == nil {
		return false
	}
	if c.EntShape().isGenerated(cal) || strings.HasPrefix(fnPkgPath(cal), entPkg) && !c.inModuleHandWritten(cal) {
		return idx == 0 && in(cal.Name(), "Only", "First", "Get", "OnlyX", "FirstX", "GetX")
	}
	if !c.inModule(cal) || len(cal.Blocks) == 0 {
		return false
	}
	n := 0
	for _, ret := range returnsOf(cal) {
		if idx >= len(ret.Results) {
			return false
		}
		rv := retResult(ret, idx)
		if isNilConst(rv) {
			continue
		}
		n++
		if !entityFromLookup(c, rv, depth+1) {
			return false
		}
	}
	return n > 0
}

func (c *Ctx) inModuleHandWritten(f *ssa.Function) bool {
	return c.inModule(f) && !c.EntShape().isGenerated(f)
}

// foldDirection: h keeps an accumulator that is replaced by a candidate exactly when `acc < candidate` (a maximum) or
// `acc > candidate` (a minimum): an If on a comparison between a loop phi and a value which that phi takes on the
// true side.
func foldDirection(h *ssa.Function) (isMax, isMin bool) {
	for _, b := range h.Blocks {
		if len(b.Instrs) == 0 {
			continue
		}
		iff, ok := b.Instrs[len(b.Instrs)-1].(*ssa.If)
		if !ok {
			continue
		}
		bo, ok := iff.Cond.(*ssa.BinOp)
		if !ok {
			continue
		}
		op := bo.Op
		var acc *ssa.Phi
		var val ssa.Value
		if p, isP := bo.X.(*ssa.Phi); isP {
			acc, val = p, bo.Y
		} else if p, isP := bo.Y.(*ssa.Phi); isP {
			acc, val = p, bo.X
			op = map[token.Token]token.Token{token.LSS: token.GTR, token.GTR: token.LSS, token.LEQ: token.GEQ, token.GEQ: token.LEQ}[op]
		}
		if acc == nil || (op != token.LSS && op != token.LEQ && op != token.GTR && op != token.GEQ) {
			continue
		}
		// on the true side the accumulator becomes val: some phi merges val (from the true side) with acc, and feeds acc
		takes := false
		for _, blk := range h.Blocks {
			for _, in := range blk.Instrs {
				m, isPhi := in.(*ssa.Phi)
				if !isPhi {
					continue
				}
				hasVal, hasAcc := false, false
				for _, e := range m.Edges {
					if e == val {
						hasVal = true
					}
					if e == ssa.Value(acc) {
						hasAcc = true
					}
				}
				feeds := m == acc
				for _, e := range acc.Edges {
					if e == ssa.Value(m) {
						feeds = true
					}
				}
				if hasVal && hasAcc && feeds {
					takes = true
				}
			}
		}
		if !takes {
			continue
		}
		if op == token.LSS || op == token.LEQ {
			isMax = true
		} else {
			isMin = true
		}
	}
	return
}

// ---------------------------------------------------------------------------
// C12.7: a snapshot exists exactly while its row exists — every lookup of snapshots (the exists-check of create, Get,
// List, the seek's lookup, delete) selects by name / id / name prefix / page token only. A liveness condition added
// to some of them (an expiry test on the read side) makes the name unusable: Create keeps answering AlreadyExists for
// a snapshot that Get and List no longer show.
func ruleC12_7(c *Ctx, r *Rep) {
	keys := c.stmtKeys()
	n := 0
	for _, s := range c.EntShape().Stmts {
		if s.Table != "snapshots" || (s.Kind != "select" && s.Kind != "delete") || c.testSupport(s.Fn) {
			continue
		}
		n++
		bad := ""
		if unk, note := s.HasUnknownPred(); unk {
			bad = "uninterpretable predicate (" + note + ")"
		}
		for _, a := range s.Atoms() {
			if a.Kind != "atom" {
				continue
			}
			if !(a.Col == "name" || a.Col == "id" || a.Col == "topic_id") {
				bad = a.Col + " " + a.Op
			}
		}
		r.Check("C12.7", "C12.7:snapshot-exists-while-row-exists:"+keys[s], s.Pos, bad == "", "", "a lookup of snapshots is narrowed by "+bad+": the sibling lookups (create's exists-check, Get, List, seek, delete) no longer agree on which snapshots exist — a name can answer AlreadyExists to Create and NotFound to Get")
	}
	r.Floor("C12.7", n, 4)
}

func hasPathSuffix(src map[string]bool, suffix string) bool {
	for k := range src {
		if strings.HasPrefix(k, "path:") && strings.HasSuffix(k, suffix) {
			return true
		}
	}
	return false
}

// ---------------------------------------------------------------------------
// C16.5: an eager-loaded edge that was loaded WITH A FILTER may be nil even when the foreign key is required — the row
// exists, the filter excluded it (`WithTopic(onlyLive)` on a subscription whose topic was deleted). Every dereference
// of such an edge is under a nil test of it. (Unfiltered required edges are dereferenced freely today and stay so.)
func ruleC16_5(c *Ctx, r *Rep) {
	n, nEdges := 0, 0
	for _, f := range c.Funcs {
		pk := c.PkgOf(f)
		if !(pk == "services" || pk == "actions") || c.testSupport(f) || c.EntShape().isGenerated(f) {
			continue
		}
		for _, b := range f.Blocks {
			for _, in := range b.Instrs {
				fa, ok := in.(*ssa.FieldAddr)
				if !ok {
					continue
				}
				// fa.X = *(&entity.Edges.E)
				ld, ok := fa.X.(*ssa.UnOp)
				if !ok || ld.Op != token.MUL {
					continue
				}
				ea, ok := ld.X.(*ssa.FieldAddr)
				if !ok {
					continue
				}
				eb, ok := ea.X.(*ssa.FieldAddr)
				if !ok || fieldName(eb.X.Type(), eb.Field) != "Edges" {
					continue
				}
				edge := fieldName(ea.X.Type(), ea.Field)
				nEdges++
				// which statement loaded the entity, and did it filter this edge?
				filtered := false
				for _, s := range c.EntShape().Stmts {
					if s.Kind != "select" {
						continue
					}
					loaded := false
					for _, t := range s.Terms {
						if dependsOnCall(eb.X, t.Call) {
							loaded = true
						}
					}
					if !loaded {
						continue
					}
					for _, w := range s.Withs {
						if w.Edge != edge {
							continue
						}
						for _, nst := range w.Nested {
							if len(nst.Where) > 0 {
								filtered = true
							}
							if unk, _ := nst.HasUnknownPred(); unk {
								filtered = true
							}
						}
					}
				}
				if !filtered {
					continue
				}
				n++
				guarded := false
				ek := valKey(ld)
				for _, cd := range edgeConds(b) {
					nc := normCond(cd.V, cd.Pol)
					if bo, isB := nc.V.(*ssa.BinOp); isB && isNilConst(bo.Y) && valKey(bo.X) == ek && (bo.Op == token.NEQ) == nc.Pol {
						guarded = true
					}
				}
				r.Check("C16.5", fmt.Sprintf("C16.5:filtered-edge-deref:%s#%d@%s", edge, n, c.Key(top(f))), fa.Pos(), guarded, "", "the eager-loaded edge "+edge+" was loaded with a filter and is dereferenced without a nil test: for a row whose related row the filter excludes (a subscription whose topic was deleted) the handler panics, and a panic takes the server down")
			}
		}
	}
	r.OK("C16.5", "C16.5:edge-derefs-examined", token.NoPos, fmt.Sprintf("%d edge dereferences examined, %d of filtered edges", nEdges, n))
	if nEdges < 3 {
		r.Fail("C16.5", "C16.5:floor", token.NoPos, fmt.Sprintf("only %d edge dereferences found (≥3 expected)", nEdges))
	}
}

// ---------------------------------------------------------------------------
// C16.6: a Prometheus counter panics when asked to decrease ("counter cannot decrease in value"), and metric updates
// run inside the request path (often in the commit hook, after the SQL commit). Every value added to a counter is the
// conversion of an integer count (a length, a number of affected rows, a constant) — never a float computed from
// request-controlled quantities such as a deadline in seconds, which a client can make negative.
func ruleC16_6(c *Ctx, r *Rep) {
	n := 0
	for _, f := range c.Funcs {
		pk := c.PkgOf(f)
		if !(pk == "services" || pk == "actions" || pk == "faults" || pk == "grpc") || c.testSupport(f) || c.EntShape().isGenerated(f) {
			continue
		}
		for _, b := range f.Blocks {
			for _, in := range b.Instrs {
				ci, ok := in.(ssa.CallInstruction)
				if !ok || !ci.Common().IsInvoke() || ci.Common().Method.Name() != "Add" || len(ci.Common().Args) != 1 {
					continue
				}
				nm := namedOf(ci.Common().Value.Type())
				if nm == nil || nm.Obj().Pkg() == nil || !strings.HasSuffix(nm.Obj().Pkg().Path(), "client_golang/prometheus") || nm.Obj().Name() != "Counter" {
					continue
				}
				n++
				arg := ci.Common().Args[0]
				ok2 := false
				switch x := arg.(type) {
				case *ssa.Const:
					if x.Value != nil && constant.Sign(x.Value) >= 0 {
						ok2 = true
					}
				case *ssa.Convert:
					if bt, isB := x.X.Type().Underlying().(*types.Basic); isB && bt.Info()&types.IsInteger != 0 {
						ok2 = true // a count
					}
				}
				r.Check("C16.6", fmt.Sprintf("C16.6:counter-add-is-a-count#%d@%s", n, c.Key(top(f))), ci.Pos(), ok2, "", "a Prometheus counter is increased by a computed floating-point value rather than a count: a request value that makes it negative (a negative deadline) panics in Counter.Add — in the request path, after the commit — and takes the server down")
			}
		}
	}
	r.Floor("C16.6", n, 10)
}

// ---------------------------------------------------------------------------
// C17.5: the documented defaults fill in for ZERO durations, not only for absent ones: where a handler stores the
// expiration TTL or the message retention from the request, the value passes a comparison with 0 that selects the
// default. (A helper that tests the *message* for nil lets an explicit `0s` through: stored as 0, expires now.)
func ruleC17_5(c *Ctx, r *Rep) {
	for _, hk := range []string{"(*services.subscriberServer).CreateSubscription", "(*services.subscriberServer).UpdateSubscription"} {
		h := r.Anchor("C17.5", hk)
		if h == nil {
			continue
		}
		var fns []*ssa.Function
		seen := map[*ssa.Function]bool{}
		var add func(f *ssa.Function)
		add = func(f *ssa.Function) {
			if seen[f] {
				return
			}
			seen[f] = true
			fns = append(fns, f)
			for _, a := range f.AnonFuncs {
				add(a)
			}
		}
		for _, f := range c.opFuncs(h) {
			add(f)
		}
		zeroTests := map[string]bool{}
		for _, f := range fns {
			for _, b := range f.Blocks {
				if len(b.Instrs) == 0 {
					continue
				}
				iff, ok := b.Instrs[len(b.Instrs)-1].(*ssa.If)
				if !ok {
					continue
				}
				bo, ok := iff.Cond.(*ssa.BinOp)
				if !ok || !(bo.Op == token.EQL || bo.Op == token.NEQ || bo.Op == token.LEQ || bo.Op == token.GTR) {
					continue
				}
				if z, isZ := constInt(bo.Y); !isZ || z != 0 {
					continue
				}
				if bt, isB := bo.X.Type().Underlying().(*types.Basic); !isB || bt.Info()&types.IsInteger == 0 {
					continue
				}
				src := sources(bo.X)
				// the compared value is itself a field: that field decides (a parameter struct holds both durations)
				if u, isU := resolve(bo.X).(*ssa.UnOp); isU && u.Op == token.MUL {
					if fa, isFA := u.X.(*ssa.FieldAddr); isFA {
						switch fieldName(fa.X.Type(), fa.Field) {
						case "TTL":
							zeroTests["ttl"] = true
							continue
						case "MessageTTL":
							zeroTests["retention"] = true
							continue
						}
					}
				}
				classify := func(src map[string]bool) {
					switch {
					case src["field:MessageRetentionDuration"] || src["call:GetMessageRetentionDuration"] || src["field:MessageTTL"]:
						zeroTests["retention"] = true
					case src["field:ExpirationPolicy"] || src["call:GetExpirationPolicy"] || src["call:GetTtl"] || src["field:TTL"]:
						zeroTests["ttl"] = true
					}
				}
				classify(src)
				// the test sits in a shared helper (`intervalOrDefault(d, def)` called for both durations): each call site's
				// arguments say which duration it is applied to
				if f != h && f.Parent() == nil {
					for _, site := range c.callersOf(f) {
						inOp := false
						for _, g := range fns {
							if top(site.Parent()) == top(g) {
								inOp = true
							}
						}
						if !inOp {
							continue
						}
						for _, a := range site.Common().Args {
							classify(sources(a))
						}
					}
				}
			}
		}
		for _, k := range []string{"ttl", "retention"} {
			r.Check("C17.5", "C17.5:zero-means-default:"+k+"@"+hk, h.Pos(), zeroTests[k], "", "the handler stores the "+k+" from the request without comparing it with zero: an explicit zero duration (`0s`) is stored as it is instead of the documented default — the subscription expires at once / retains nothing")
		}
	}
}

// C17.3 (codec, writer side): the stored text of an interval is the exact duration: Interval.Value hands the
// duration's own String() on, with no rounding or truncation on the way (sub-microsecond backoffs would be stored as
// something else than was set, a 400 ns minimum backoff as 0 = unset).
func ruleC17_3value(c *Ctx, r *Rep) {
	fn := r.Anchor("C17.3", "(internal/sqltypes.Interval).Value")
	if fn == nil {
		return
	}
	bad := ""
	for _, g := range c.opFuncs(fn) {
		for _, ci := range callsIn(g, true, func(cal *ssa.Function, _ ssa.CallInstruction) bool { return true }) {
			cal := ci.Common().StaticCallee()
			if cal != nil && fnPkgPath(cal) == "time" && in(cal.Name(), "Round", "Truncate") {
				bad = cal.Name()
			}
		}
	}
	r.Check("C17.3", "C17.3:value-is-exact", fn.Pos(), bad == "", "", "Interval.Value rounds the duration ("+bad+") before writing it: what is stored differs from what was set and from what Create echoed")
}

// C18.8: the parameters of an intercepted call are computed from the message at hand: the extraction reads no
// package-level state besides the map pool (a name cache keyed by the short field name hands one request type the
// full names of another).
func ruleC18_8(c *Ctx, r *Rep) {
	fn := r.Anchor("C18.8", "grpc.paramsFromProtoMessage")
	if fn == nil {
		return
	}
	bad := ""
	var pos token.Pos = fn.Pos()
	var scan func(f *ssa.Function)
	seen := map[*ssa.Function]bool{}
	scan = func(f *ssa.Function) {
		if seen[f] {
			return
		}
		seen[f] = true
		for _, b := range f.Blocks {
			for _, in := range b.Instrs {
				for _, op := range in.Operands(nil) {
					if g, isG := (*op).(*ssa.Global); isG && g.Pkg != nil && strings.HasPrefix(g.Pkg.Pkg.Path(), modPath) && g.Name() != "paramsPool" {
						bad, pos = g.Name(), in.Pos()
					}
				}
			}
		}
		for _, a := range f.AnonFuncs {
			scan(a)
		}
	}
	for _, g := range c.opFuncs(fn) {
		scan(g)
	}
	r.Check("C18.8", "C18.8:parameters-from-the-message-at-hand", pos, bad == "", "", "the request-to-parameter extraction reads the package-level variable "+bad+": what one request type left there is handed to another (a fault selected by a field's full name never matches)")
}

// C19.2 (time rendering): the envelope's publishTime carries its zone: the layout has a zone verb, or the time is
// converted to UTC before a layout with a literal Z is applied.
func ruleC19_2format(c *Ctx, r *Rep) {
	fn := r.Anchor("C19.2", "(*actions.httpPushStreamConn).Send")
	if fn == nil {
		return
	}
	n := 0
	for _, g := range c.opFuncs(fn) {
		for _, ci := range callsIn(g, true, func(cal *ssa.Function, _ ssa.CallInstruction) bool {
			return fnPkgPath(cal) == "time" && cal.Name() == "Format"
		}) {
			if !sources(ci.Common().Args[0])["field:PublishedAt"] {
				continue
			}
			n++
			layout, isS := constString(ci.Common().Args[1])
			ok := false
			if isS {
				hasZone := strings.Contains(layout, "Z07") || strings.Contains(layout, "-07") || strings.Contains(layout, "MST")
				utc := false
				if call, isC := resolve(ci.Common().Args[0]).(*ssa.Call); isC && call.Call.StaticCallee() != nil && call.Call.StaticCallee().Name() == "UTC" {
					utc = true
				}
				ok = hasZone || utc
			}
			r.Check("C19.2", fmt.Sprintf("C19.2:publish-time-carries-its-zone#%d", n), ci.Pos(), ok, "", "the publish time is rendered with a layout that has no zone verb (a literal Z) without converting it to UTC first: on a server whose local zone is not UTC the envelope's publishTime is off by the zone offset")
		}
	}
	if n == 0 {
		r.Undecided("C19.2", "C19.2:publish-time-carries-its-zone", fn.Pos(), "the rendering of the publish time was not found")
	}
}

// ---------------------------------------------------------------------------
// Rules added from the seventh round (small mutations).

// C15.2 (option): the schema is created WITH its foreign keys: no call of schema.WithForeignKeys(false). Without them
// SQLite tables have no ON DELETE SET NULL for not_before_id: pruning a completed predecessor leaves a dangling link
// and the ordered successor is never delivered.
func ruleC15_2fkOption(c *Ctx, r *Rep) {
	n := 0
	for _, f := range c.Funcs {
		if c.testSupport(f) || c.EntShape().isGenerated(f) {
			continue
		}
		for _, ci := range callsIn(f, true, func(cal *ssa.Function, _ ssa.CallInstruction) bool {
			return cal.Name() == "WithForeignKeys" && strings.Contains(fnPkgPath(cal), "entgo.io/ent/dialect/sql/schema")
		}) {
			n++
			k, isK := ci.Common().Args[0].(*ssa.Const)
			r.Check("C15.2", fmt.Sprintf("C15.2:schema-created-with-foreign-keys#%d@%s", n, c.Key(top(f))), ci.Pos(), isK && k.Value != nil && k.Value.String() == "true", "", "the schema is created with foreign keys switched off: the referential actions the rules read from the schema (NO ACTION, SET NULL for not_before_id) do not exist in the database")
		}
	}
	r.OK("C15.2", "C15.2:schema-option-sites", token.NoPos, fmt.Sprintf("%d WithForeignKeys call sites", n))
}

// C01.6 (shared): completed_at is always set to the current time — time.Now() read in the operation, or the `now`
// handed to a step of it — never to a value from the request (a seek target in the future makes the prune job skip
// the rows for ever; one in the past reclaims them before the age threshold).
func ruleC01_6(c *Ctx, r *Rep) {
	keys := c.stmtKeys()
	n := 0
	for _, s := range c.EntShape().Stmts {
		if s.Table != "deliveries" || s.Kind != "update" || c.testSupport(s.Fn) {
			continue
		}
		for _, m := range s.Mut("completed_at", "set") {
			if m.Arg == nil {
				continue
			}
			n++
			src := sources(m.Arg)
			isNowParam := false
			if p, isP := resolve(m.Arg).(*ssa.Parameter); isP && p.Name() == "now" {
				isNowParam = true
			}
			fromReq := false
			for k := range src {
				if strings.HasPrefix(k, "path:") && strings.Contains(k, "params.") {
					fromReq = true
				}
			}
			r.Check("C01.6", "C01.6:completed-at-is-now:"+keys[s], m.Pos, (src["call:Now"] || isNowParam) && !fromReq, "", "completed_at is set to a value that is not the current time (a request parameter such as the seek target): the age-based prune job never reclaims the row (future value) or reclaims it at once (past value)")
		}
	}
	r.Floor("C01.6", n, 3)
}

// C16.7: a constant index into a slice in the request path of package services is under a length test that implies
// it (`len(segments) == 4 && segments[3] != ""`): the name validators index the split request name.
func ruleC16_7(c *Ctx, r *Rep) {
	n := 0
	for _, f := range c.Funcs {
		if c.PkgOf(f) != "services" || c.testSupport(f) || c.EntShape().isGenerated(f) {
			continue
		}
		for _, b := range f.Blocks {
			for _, in := range b.Instrs {
				ia, ok := in.(*ssa.IndexAddr)
				if !ok {
					continue
				}
				if _, isSl := ia.X.Type().Underlying().(*types.Slice); !isSl {
					continue
				}
				k, isK := constInt(ia.Index)
				if !isK {
					continue
				}
				// only slices whose length the function does not fix itself (results of calls, parameters, fields)
				switch resolve(ia.X).(type) {
				case *ssa.MakeSlice, *ssa.Slice, *ssa.Alloc:
					continue
				}
				n++
				xk := valKey(ia.X)
				ok2 := false
				for _, cd := range edgeConds(b) {
					nc := normCond(cd.V, cd.Pol)
					bo, isB := nc.V.(*ssa.BinOp)
					if !isB {
						continue
					}
					call, isC := bo.X.(*ssa.Call)
					if !isC {
						continue
					}
					bi, isBi := call.Call.Value.(*ssa.Builtin)
					if !isBi || bi.Name() != "len" || valKey(call.Call.Args[0]) != xk {
						continue
					}
					lim, isL := constInt(bo.Y)
					if !isL {
						continue
					}
					switch {
					case bo.Op == token.EQL && nc.Pol && lim > k,
						bo.Op == token.GEQ && nc.Pol && lim > k,
						bo.Op == token.GTR && nc.Pol && lim >= k,
						bo.Op == token.NEQ && !nc.Pol && lim > k,
						bo.Op == token.LSS && !nc.Pol && lim > k,
						bo.Op == token.LEQ && !nc.Pol && lim >= k:
						ok2 = true
					}
				}
				r.Check("C16.7", fmt.Sprintf("C16.7:const-index-under-length-test#%d@%s", n, c.Key(top(f))), ia.Pos(), ok2, "", fmt.Sprintf("element [%d] of a slice built from request data is read without a dominating test that the slice is long enough: a short input (a resource name with fewer segments) panics with index out of range", k))
			}
		}
	}
	r.Floor("C16.7", n, 2)
}

// C16.8: what a deferred function of the pull dereferences is bound on every exit: the subscription id pointer is
// filled in only by a successful lookup, so its dereference in deferred clean-up sits under a nil test.
func ruleC16_8(c *Ctx, r *Rep) {
	fn := r.Anchor("C16.8", fnPullExec)
	if fn == nil {
		return
	}
	n := 0
	for _, b := range fn.Blocks {
		for _, in := range b.Instrs {
			df, ok := in.(*ssa.Defer)
			if !ok {
				continue
			}
			g := funcOf(df.Call.Value)
			if g == nil || g.Parent() != fn {
				continue
			}
			for _, gb := range g.Blocks {
				for _, gi := range gb.Instrs {
					u, isU := gi.(*ssa.UnOp)
					if !isU || u.Op != token.MUL {
						continue
					}
					// *(*p) where p = &a.params.ID (a pointer-typed field)
					inner, isIn := u.X.(*ssa.UnOp)
					if !isIn || inner.Op != token.MUL {
						continue
					}
					fa, isFA := inner.X.(*ssa.FieldAddr)
					if !isFA || fieldName(fa.X.Type(), fa.Field) != "ID" {
						continue
					}
					n++
					guarded := false
					ik := valKey(inner)
					for _, cd := range edgeConds(gb) {
						nc := normCond(cd.V, cd.Pol)
						if bo, isB := nc.V.(*ssa.BinOp); isB && isNilConst(bo.Y) && valKey(bo.X) == ik && (bo.Op == token.NEQ) == nc.Pol {
							guarded = true
						}
					}
					r.Check("C16.8", fmt.Sprintf("C16.8:deferred-deref-guarded#%d", n), u.Pos(), guarded, "", "the pull's deferred clean-up dereferences params.ID without a nil test: it runs on every exit, also when the subscription lookup failed before the id was bound — a Pull on an unknown subscription panics instead of answering NotFound")
				}
			}
		}
	}
	r.Floor("C16.8", n, 1)
}

// C17.3 (reader table): the interval pattern accepts what PostgreSQL prints — singular and plural unit words.
// Decided on the pattern CONSTANT (compiled here, matched against a fixed table of renderings): nothing of /repo runs.
func ruleC17_3pattern(c *Ctx, r *Rep) {
	sp := c.SSAPkg[modPath+"/internal/sqltypes"]
	if sp == nil {
		r.Fail("C17.3", "C17.3:interval-pattern", token.NoPos, "package internal/sqltypes not loaded")
		return
	}
	ini := sp.Func("init")
	pat := ""
	var pos token.Pos
	if ini != nil {
		for _, b := range ini.Blocks {
			for _, in := range b.Instrs {
				call, ok := in.(*ssa.Call)
				if !ok || call.Call.StaticCallee() == nil || call.Call.StaticCallee().Name() != "MustCompile" || fnPkgPath(call.Call.StaticCallee()) != "regexp" {
					continue
				}
				if s, isS := constString(call.Call.Args[0]); isS {
					pat, pos = s, call.Pos()
				}
			}
		}
	}
	if pat == "" {
		r.Undecided("C17.3", "C17.3:interval-pattern", token.NoPos, "the interval pattern constant was not found in the package initialiser")
		return
	}
	re, err := regexp.Compile(pat)
	if err != nil {
		r.Fail("C17.3", "C17.3:interval-pattern", pos, "the interval pattern does not compile: "+err.Error())
		return
	}
	bad := ""
	// (forms with a time part, as the pattern has always required one: stored values are Go duration strings, which
	// PostgreSQL keeps as hours and prints as H:M:S, with day / mon / year words only after interval arithmetic)
	for _, s := range []string{"1 day 00:00:00", "3 days 04:05:06", "1 mon 00:00:00", "2 mons 00:00:00", "1 year 00:00:00", "2 years 00:00:00", "1 year 1 mon 1 day 01:02:03", "2 years 3 mons 4 days 05:06:07.000008", "00:00:01", "720:00:00"} {
		if !re.MatchString(s) {
			bad = s
		}
	}
	r.Check("C17.3", "C17.3:interval-pattern-accepts-postgres-renderings", pos, bad == "", "", "the interval pattern rejects `"+bad+"`, a form PostgreSQL prints: a stored duration with that component cannot be read back")
}

// C19.2 (encoding): the envelope's data is the payload in STANDARD base64 (the Pub/Sub push format): the encoder is
// base64.StdEncoding.
func ruleC19_2base64(c *Ctx, r *Rep) {
	fn := r.Anchor("C19.2", "(*actions.httpPushStreamConn).Send")
	if fn == nil {
		return
	}
	n := 0
	for _, g := range c.opFuncs(fn) {
		for _, ci := range callsIn(g, true, func(cal *ssa.Function, _ ssa.CallInstruction) bool {
			return fnPkgPath(cal) == "encoding/base64" && strings.HasPrefix(cal.Name(), "Encode")
		}) {
			n++
			ok := false
			if len(ci.Common().Args) > 0 {
				if u, isU := ci.Common().Args[0].(*ssa.UnOp); isU && u.Op == token.MUL {
					if gl, isG := u.X.(*ssa.Global); isG && gl.Name() == "StdEncoding" {
						ok = true
					}
				}
			}
			r.Check("C19.2", fmt.Sprintf("C19.2:payload-standard-base64#%d", n), ci.Pos(), ok, "", "the pushed payload is not encoded with base64.StdEncoding: payloads whose encoding contains + or / arrive in another alphabet and do not decode at the endpoint")
		}
	}
	if n == 0 {
		r.Undecided("C19.2", "C19.2:payload-standard-base64", fn.Pos(), "the base64 encoding of the payload was not found")
	}
}

// C06.7 (shared with C17): the attempt limit stored by UpdateSubscription is the request's value when that is
// non-zero and the default otherwise — not the other way round.
func ruleC06_7(c *Ctx, r *Rep) {
	n := 0
	keys := c.stmtKeys()
	for _, s := range c.EntShape().Stmts {
		if s.Table != "subscriptions" || s.Kind != "update" || c.testSupport(s.Fn) || !strings.Contains(c.Owner(s), "UpdateSubscription") {
			continue
		}
		for _, m := range s.Mut("max_delivery_attempts", "set") {
			if m.Arg == nil {
				continue
			}
			n++
			// each value the argument can take, with the conditions that select it (two setter calls under if/else, or
			// one call fed by `v := req; if v == 0 { v = default }`)
			ok := true
			alts := valueAlternatives(m.Arg)
			if len(alts) == 0 {
				ok = false
			}
			for _, alt := range alts {
				fromReq := sources(alt.v)["field:MaxDeliveryAttempts"]
				_, isConst := resolve(alt.v).(*ssa.Const)
				nonZero, zero := false, false
				for _, cd := range append(append([]Cond{}, m.Conds...), alt.conds...) {
					nc := normCond(cd.V, cd.Pol)
					bo, isB := nc.V.(*ssa.BinOp)
					if !isB || !sources(bo.X)["field:MaxDeliveryAttempts"] {
						continue
					}
					if z, isZ := constInt(bo.Y); !isZ || z != 0 {
						continue
					}
					switch {
					case (bo.Op == token.NEQ || bo.Op == token.GTR) && nc.Pol, bo.Op == token.EQL && !nc.Pol:
						nonZero = true
					case bo.Op == token.EQL && nc.Pol, (bo.Op == token.NEQ || bo.Op == token.GTR) && !nc.Pol:
						zero = true
					}
				}
				if !(fromReq && !isConst && nonZero && !zero || isConst && zero && !nonZero) {
					ok = false
				}
			}
			r.Check("C06.7", fmt.Sprintf("C06.7:attempt-limit-from-request-or-default#%d:%s", n, keys[s]), m.Pos, ok, "", "the attempt limit stored by an update is not `the request's value if non-zero, else the default`: an explicit N is replaced by the default and an unspecified one stored as 0 (dead-lettering off)")
		}
	}
	r.Floor("C06.7", n, 1)
}

// ---------------------------------------------------------------------------
// C08.9 (shared with C07): two facts about the grammar the struct tags spell out.
//  (a) The three leaf forms name their attribute the same way: the capture of `Name` in HasAttribute,
//      HasAttributeValue and HasAttributePredicate accepts the same token kinds (a quoted name is valid in
//      `attributes:"k"`, `attributes."k" = "v"` and `hasPrefix(attributes."k", "p")` alike).
//  (b) AND and OR are not mixed at one level: the group holding the two chains of Condition is optional (`?`), not
//      repeated — with `*` or `+`, `a AND b OR c` is a sentence, and evaluator and printer drop its OR part.
func ruleC08_9(c *Ctx, r *Rep) {
	gts := grammarTypes(c)
	kinds := map[string]string{}
	for _, gt := range gts {
		for _, f := range gt.Fields {
			if f.Name != "Name" || !f.Captured {
				continue
			}
			// the capture after '@': @Ident, @String, @(Ident|String)
			i := strings.Index(f.Tag, "@")
			cap := f.Tag[i+1:]
			if strings.HasPrefix(cap, "(") {
				if j := strings.Index(cap, ")"); j > 0 {
					cap = cap[1:j]
				}
			} else {
				cap = strings.FieldsFunc(cap, func(r rune) bool { return !(r == '_' || r >= 'a' && r <= 'z' || r >= 'A' && r <= 'Z') })[0]
			}
			parts := strings.Split(strings.ReplaceAll(cap, " ", ""), "|")
			sort.Strings(parts)
			kinds[gt.Name] = strings.Join(parts, "|")
		}
	}
	var names []string
	for k := range kinds {
		names = append(names, k)
	}
	sort.Strings(names)
	same := len(names) >= 3
	for _, n := range names {
		if kinds[n] != kinds[names[0]] {
			same = false
		}
	}
	desc := ""
	for _, n := range names {
		desc += n + ":" + kinds[n] + " "
	}
	r.Check("C08.9", "C08.9:leaf-names-agree", token.NoPos, same, strings.TrimSpace(desc), "the leaf forms of the grammar do not accept the same kinds of attribute name ("+strings.TrimSpace(desc)+"): a quoted name valid in one form is a syntax error in another — a valid filter is rejected at create, or a stored one stops parsing at delivery time and the subscription silently receives nothing")
	// (b)
	for _, gt := range gts {
		if gt.Name != "Condition" {
			continue
		}
		all := ""
		for _, f := range gt.Fields {
			all += " " + f.Tag
		}
		all = strings.Join(strings.Fields(all), "")
		// the text after the last chain: the closing of the group and its quantifier
		j := strings.LastIndex(all, ")")
		quant := ""
		if j >= 0 {
			quant = all[j+1:]
		}
		ok := j >= 0 && quant == "?" && strings.Contains(all, `("AND"@@)+`) && strings.Contains(all, `|("OR"@@)+`)
		r.Check("C08.9", "C08.9:and-or-not-mixed", token.NoPos, ok, "@@ ( (\"AND\" @@)+ | (\"OR\" @@)+ )?", "the Condition grammar is not `term ( (AND term)+ | (OR term)+ )?` (found `"+all+"`): with a repeated group, AND and OR can be mixed at one level — such filters are accepted and stored, and evaluation and printing ignore part of them")
	}
}

// ---------------------------------------------------------------------------
// C12.8: a resource is addressed by its whole name. Every statement on topics / subscriptions / snapshots that is
// narrowed by the name column compares it for equality (or membership); a prefix / substring / case-folded match
// addresses more than the named resource (deleting `…/orders` would take `…/orders-dlq` with it).
func ruleC12_8(c *Ctx, r *Rep) {
	keys := c.stmtKeys()
	n := 0
	for _, s := range c.EntShape().Stmts {
		if !(s.Table == "topics" || s.Table == "subscriptions" || s.Table == "snapshots") || c.testSupport(s.Fn) {
			continue
		}
		for _, a := range s.Atoms() {
			if a.Kind != "atom" || a.Col != "name" || a.Tbl != "" && a.Tbl != s.Table {
				continue
			}
			n++
			ok := a.Op == "eq" || a.Op == "in" || a.Op == "ceq"
			if a.Op == "hasprefix" && s.Kind == "select" && len(s.Terms) > 0 {
				// the List operations scope their page to a project by name prefix: a multi-row read, never a
				// single-resource lookup or a mutation
				// (the prefix is a scope: it ends with the path separator, so it cannot be a resource's own name)
				ok = endsWithSeparator(a.Arg, 0)
				for _, t := range s.Terms {
					if !strings.HasPrefix(t.Name, "All") {
						ok = false
					}
				}
			}
			r.Check("C12.8", "C12.8:name-compared-whole:"+keys[s], s.Pos, ok, "", "a statement on "+s.Table+" matches the name column with `"+a.Op+"`, not equality: it addresses every resource whose name merely matches (a delete of `…/orders` also deletes `…/orders-dlq`; a Get answers for another resource)")
		}
	}
	r.Floor("C12.8", n, 10)
}

// endsWithSeparator: v is a string built as <something> + "…/" on every path (directly or through a small helper).
func endsWithSeparator(v ssa.Value, d int) bool {
	if v == nil || d > 4 {
		return false
	}
	switch x := resolve(v).(type) {
	case *ssa.BinOp:
		if x.Op != token.ADD {
			return false
		}
		if k, ok := x.Y.(*ssa.Const); ok && k.Value != nil && k.Value.Kind() == constant.String {
			return strings.HasSuffix(constant.StringVal(k.Value), "/")
		}
		return endsWithSeparator(x.Y, d+1)
	case *ssa.Phi:
		for _, e := range x.Edges {
			if !endsWithSeparator(e, d+1) {
				return false
			}
		}
		return len(x.Edges) > 0
	case *ssa.FreeVar:
		if b := freeVarBinding(x); b != nil {
			return endsWithSeparator(b, d+1)
		}
	case *ssa.Call:
		f := x.Call.StaticCallee()
		if f == nil || len(f.Blocks) == 0 || len(f.Blocks) > 4 {
			return false
		}
		n := 0
		for _, b := range f.Blocks {
			if ret, ok := b.Instrs[len(b.Instrs)-1].(*ssa.Return); ok && len(ret.Results) == 1 {
				n++
				if !endsWithSeparator(ret.Results[0], d+1) {
					return false
				}
			}
		}
		return n > 0
	}
	return false
}

// ---------------------------------------------------------------------------
// C04.10: unit of the client's deadlines. A request field counted in seconds (AckDeadlineSeconds, DelaySeconds, …)
// becomes a time.Duration by multiplication with exactly time.Second. Any other constant keeps compiling and
// withholds (or releases) the message for the wrong span.
func ruleC04_10(c *Ctx, r *Rep) {
	n := 0
	secondsField := func(v ssa.Value) string {
		for d := 0; d < 6 && v != nil; d++ {
			switch x := v.(type) {
			case *ssa.Convert:
				v = x.X
			case *ssa.ChangeType:
				v = x.X
			case *ssa.UnOp:
				if x.Op != token.MUL {
					return ""
				}
				v = x.X
			case *ssa.FieldAddr:
				if nm := fieldName(x.X.Type(), x.Field); strings.HasSuffix(nm, "Seconds") {
					return nm
				}
				return ""
			case *ssa.Field:
				if nm := fieldName(x.X.Type(), x.Field); strings.HasSuffix(nm, "Seconds") {
					return nm
				}
				return ""
			default:
				return ""
			}
		}
		return ""
	}
	for _, f := range c.Funcs {
		pk := c.PkgOf(f)
		if !(pk == "services" || pk == "actions") || c.testSupport(f) || c.EntShape().isGenerated(f) {
			continue
		}
		for _, b := range f.Blocks {
			for _, in := range b.Instrs {
				// a seconds count converted to time.Duration is scaled afterwards (a bare conversion reads it as
				// nanoseconds)
				if cv, isCv := in.(*ssa.Convert); isCv && cv.Type().String() == "time.Duration" && cv.Referrers() != nil {
					if nm := secondsField(cv.X); nm != "" {
						scaled := len(*cv.Referrers()) > 0
						for _, u := range *cv.Referrers() {
							if m, isM := u.(*ssa.BinOp); !isM || m.Op != token.MUL {
								scaled = false
							}
						}
						n++
						r.Check("C04.10", fmt.Sprintf("C04.10:seconds-scaled:%s@%s", nm, c.Key(top(f))), cv.Pos(), scaled, "",
							fmt.Sprintf("the field %s (a count of seconds) is converted to time.Duration and used without being multiplied by time.Second: the value is read as nanoseconds", nm))
					}
				}
				bo, ok := in.(*ssa.BinOp)
				if !ok || bo.Op != token.MUL {
					continue
				}
				for _, pr := range [][2]ssa.Value{{bo.X, bo.Y}, {bo.Y, bo.X}} {
					nm := secondsField(pr[0])
					k, isK := pr[1].(*ssa.Const)
					if nm == "" || !isK || k.Value == nil {
						continue
					}
					n++
					f64, _ := constant.Float64Val(constant.ToFloat(k.Value))
					r.Check("C04.10", fmt.Sprintf("C04.10:seconds-unit:%s@%s", nm, c.Key(top(f))), bo.Pos(), f64 == 1e9, "",
						fmt.Sprintf("the field %s (a count of seconds) is scaled by %s, not by time.Second: the deadline the client asked for is stored in another unit — the message is withheld (or released) for the wrong span", nm, k.Value.ExactString()))
				}
			}
		}
	}
	r.Floor("C04.10", n, 1)
}

// ---------------------------------------------------------------------------
// C17.6: a value that is optional on the wire is acted on whenever it is present. Where a call consumes a value V
// (a request's id list, an optional setting) under a guard that compares V — or len(V) — with an integer constant
// from below, the guard is the presence test itself (`!= 0`, `> 0`, `>= 1`). A guard such as `> 1` keeps compiling,
// and silently ignores the legitimate smallest values: a StreamingPull frame acking exactly one id, a dead-letter
// policy of one attempt.
func ruleC17_6(c *Ctx, r *Rep) {
	n := 0
	for _, f := range c.Funcs {
		pk := c.PkgOf(f)
		if !(pk == "services" || pk == "actions") || c.testSupport(f) || c.EntShape().isGenerated(f) {
			continue
		}
		for _, b := range f.Blocks {
			type guard struct {
				key  string
				op   token.Token
				k    int64
				what string
			}
			var gs []guard
			for _, cd := range edgeConds(b) {
				bo, ok := cd.V.(*ssa.BinOp)
				if !ok {
					continue
				}
				x, y, op := bo.X, bo.Y, bo.Op
				if _, isK := x.(*ssa.Const); isK {
					x, y = y, x
					switch op {
					case token.LSS:
						op = token.GTR
					case token.GTR:
						op = token.LSS
					case token.LEQ:
						op = token.GEQ
					case token.GEQ:
						op = token.LEQ
					}
				}
				k, isK := constInt(y)
				if !isK {
					continue
				}
				if !cd.Pol {
					switch op {
					case token.EQL:
						op = token.NEQ
					case token.NEQ:
						op = token.EQL
					case token.LSS:
						op = token.GEQ
					case token.GEQ:
						op = token.LSS
					case token.GTR:
						op = token.LEQ
					case token.LEQ:
						op = token.GTR
					default:
						continue
					}
				}
				what := ""
				base := strip(x)
				if cl, isC := base.(*ssa.Call); isC {
					if bi, isB := cl.Call.Value.(*ssa.Builtin); isB && bi.Name() == "len" && len(cl.Call.Args) == 1 {
						base = strip(cl.Call.Args[0])
						what = "len of "
					} else {
						continue
					}
				}
				if _, isK := base.(*ssa.Const); isK {
					continue
				}
				gs = append(gs, guard{valKey(base), op, k, what})
			}
			if len(gs) == 0 {
				continue
			}
			for _, in := range b.Instrs {
				ci, ok := in.(ssa.CallInstruction)
				if !ok {
					continue
				}
				if _, isB := ci.Common().Value.(*ssa.Builtin); isB {
					continue
				}
				if cal := ci.Common().StaticCallee(); cal != nil && !strings.HasPrefix(fnPkgPath(cal), modPath) {
					continue
				}
				for _, a := range ci.Common().Args {
					ak := valKey(strip(a))
					for _, g := range gs {
						if g.key != ak {
							continue
						}
						lower := g.op == token.NEQ || g.op == token.GTR || g.op == token.GEQ
						if !lower {
							continue
						}
						n++
						nm := shortKey(ak)
						if regRe.MatchString(nm) {
							nm = "arg-of:" + calleeName(ci)
						}
						ok := g.op == token.NEQ && g.k == 0 || g.op == token.GTR && g.k == 0 || g.op == token.GEQ && g.k == 1
						r.Check("C17.6", fmt.Sprintf("C17.6:presence-guard:%s@%s", nm, c.Key(top(f))), in.Pos(), ok, "",
							fmt.Sprintf("the call consuming %s runs only when %sit is %s %d — not whenever it is present (`!= 0`): the smallest legitimate values are silently ignored (a frame acking one id acks nothing; a policy of one attempt is stored as no policy)", nm, g.what, g.op, g.k))
					}
				}
			}
		}
	}
	r.Floor("C17.6", n, 3)
}

func shortKey(k string) string {
	if i := strings.LastIndex(k, "."); i >= 0 && i+1 < len(k) {
		return k[i+1:]
	}
	return k
}

var regRe = regexp.MustCompile(`^t\d+(#.*)?$`)

func calleeName(ci ssa.CallInstruction) string {
	if f := ci.Common().StaticCallee(); f != nil {
		return f.Name()
	}
	if ci.Common().IsInvoke() {
		return ci.Common().Method.Name()
	}
	return "dynamic"
}

// ---------------------------------------------------------------------------
// C16.9: a result that comes with an error is used only after the error was looked at. For every call in the
// hand-written server packages that returns (…, pointer-like, …, error): each dereference of the pointer-like result
// (field access, load, interface method call) is dominated by the branch on which the call's error is nil, or by a
// nil test of the result itself. Dropping the `if err != nil { return err }` after http.NewRequestWithContext keeps
// compiling; the nil request is dereferenced on a goroutine nobody recovers and the process dies.
func ruleC16_9(c *Ctx, r *Rep) {
	nCalls, nDeref := 0, 0
	isNilCmp := func(cd Cond, v ssa.Value, wantNil bool) bool {
		bo, ok := cd.V.(*ssa.BinOp)
		if !ok || !(bo.Op == token.EQL || bo.Op == token.NEQ) {
			return false
		}
		x, y := bo.X, bo.Y
		if isNilConst(x) {
			x, y = y, x
		}
		if !isNilConst(y) {
			return false
		}
		same := x == v
		if !same {
			// the value was spilled into a local that a closure captures: a load of that cell
			if ld, isL := x.(*ssa.UnOp); isL && ld.Op == token.MUL {
				if refs := v.Referrers(); refs != nil {
					for _, u := range *refs {
						if st, isS := u.(*ssa.Store); isS && st.Val == v && st.Addr == ld.X {
							same = true
						}
					}
				}
			}
		}
		if !same {
			return false
		}
		isNil := bo.Op == token.EQL == cd.Pol
		return isNil == wantNil
	}
	for _, f := range c.Funcs {
		pk := c.PkgOf(f)
		if !(pk == "services" || pk == "actions" || pk == "grpc" || pk == "faults" || pk == "filter") || c.testSupport(f) || c.EntShape().isGenerated(f) {
			continue
		}
		for _, b := range f.Blocks {
			for _, in := range b.Instrs {
				call, ok := in.(*ssa.Call)
				if !ok {
					continue
				}
				tup, ok := call.Type().(*types.Tuple)
				if !ok || tup.Len() < 2 || !isErrorType(tup.At(tup.Len()-1).Type()) || call.Referrers() == nil {
					continue
				}
				var errV ssa.Value
				var vals []*ssa.Extract
				for _, u := range *call.Referrers() {
					ex, isE := u.(*ssa.Extract)
					if !isE {
						continue
					}
					if ex.Index == tup.Len()-1 {
						errV = ex
						continue
					}
					switch ex.Type().Underlying().(type) {
					case *types.Pointer, *types.Interface:
						vals = append(vals, ex)
					}
				}
				if len(vals) == 0 {
					continue
				}
				nCalls++
				for _, v0 := range vals {
					if v0.Referrers() == nil {
						continue
					}
					// the result itself, and the loads of a local it is spilled into (a variable a closure captures)
					// when that local has no other store in this function
					users := []ssa.Instruction{}
					aliases := map[ssa.Value]bool{v0: true}
					users = append(users, *v0.Referrers()...)
					for _, u := range *v0.Referrers() {
						st, isS := u.(*ssa.Store)
						if !isS || st.Val != ssa.Value(v0) {
							continue
						}
						al, isA := st.Addr.(*ssa.Alloc)
						if !isA || al.Referrers() == nil {
							continue
						}
						nst := 0
						for _, au := range *al.Referrers() {
							if _, isSt := au.(*ssa.Store); isSt {
								nst++
							}
						}
						if nst != 1 {
							continue
						}
						for _, au := range *al.Referrers() {
							if ld, isL := au.(*ssa.UnOp); isL && ld.Op == token.MUL && ld.Referrers() != nil {
								aliases[ld] = true
								users = append(users, *ld.Referrers()...)
							}
						}
					}
					var v ssa.Value = v0
					for _, u := range users {
						deref := false
						switch x := u.(type) {
						case *ssa.FieldAddr:
							deref = aliases[x.X]
						case *ssa.UnOp:
							deref = x.Op == token.MUL && aliases[x.X]
						case ssa.CallInstruction:
							deref = x.Common().IsInvoke() && aliases[x.Common().Value]
						}
						if !deref {
							continue
						}
						nDeref++
						ui := u.(ssa.Instruction)
						checked := false
						for _, cd := range edgeConds(ui.Block()) {
							if errV != nil && isNilCmp(cd, errV, true) || isNilCmp(cd, v, false) {
								checked = true
							}
							for a := range aliases {
								if isNilCmp(cd, a, false) {
									checked = true
								}
							}
						}
						if !checked && errV != nil && ui.Block() == b {
							// same block as the call: nothing can have been tested
						}
						r.Check("C16.9", fmt.Sprintf("C16.9:result-used-after-error-check:%s@%s", calleeName(call), c.Key(top(f))), ui.Pos(), checked, "",
							fmt.Sprintf("the result of %s is dereferenced on a path where neither its error was found nil nor the result tested for nil: when the call fails the result is nil and the dereference panics — no recovery interceptor or goroutine recover exists, the process terminates", calleeName(call)))
					}
				}
			}
		}
	}
	r.Floor("C16.9", nDeref, 20)
	_ = nCalls
}

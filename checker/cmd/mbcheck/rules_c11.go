package main

import (
	"fmt"
	"go/token"
	"strings"

	"golang.org/x/tools/go/ssa"
)

const fnStreamerGo = "(*actions.MessageStreamer).Go"

// cellOf: v resolves (through free variables) to the local cell `name` of function owner.
func cellOf(v ssa.Value, owner *ssa.Function, name string) bool {
	for i := 0; i < 10; i++ {
		switch x := v.(type) {
		case *ssa.FieldAddr:
			// the same state kept in a field of a private carrier struct of the package (shared through a pointer)
			if fieldName(x.X.Type(), x.Field) != name {
				return false
			}
			n := namedOf(x.X.Type())
			return n != nil && !n.Obj().Exported() && n.Obj().Pkg() != nil && owner.Pkg != nil && n.Obj().Pkg() == owner.Pkg.Pkg
		case *ssa.Parameter:
			// handed to a private method / helper of the streamer by its only caller (as &cell)
			if a := uniqueCallerArg(x); a != nil {
				v = a
				continue
			}
			return false
		case *ssa.Alloc:
			return x.Parent() == owner && x.Comment == name
		case *ssa.FreeVar:
			b := freeVarBinding(x)
			if b == nil {
				return false
			}
			v = b
			continue
		}
		return false
	}
	return false
}

// loadedFromCell: v is a load of the cell.
func loadedFromCell(v ssa.Value, owner *ssa.Function, name string) bool {
	v = strip(v)
	for i := 0; i < 4; i++ {
		p, isP := v.(*ssa.Parameter)
		if !isP {
			break
		}
		a := uniqueCallerArg(p)
		if a == nil {
			return false
		}
		v = strip(a)
	}
	u, ok := v.(*ssa.UnOp)
	return ok && u.Op == token.MUL && cellOf(u.X, owner, name)
}

// streamMuHeld: the streamer's mutex — the local `mu` of Go, or the `mu` field of its private state struct.
func streamMuHeld(held map[string]bool) bool {
	if held["l:Go.mu"] {
		return true
	}
	for k := range held {
		if strings.HasPrefix(k, "f:") && strings.HasSuffix(k, ".mu") {
			return true
		}
	}
	return false
}

// ---------------------------------------------------------------------------
// C11.1 pending / fc only under mu

func ruleC11_1(c *Ctx, r *Rep) {
	g := r.Anchor("C11.1", fnStreamerGo)
	if g == nil {
		return
	}
	n := 0
	var walk func(f *ssa.Function)
	walk = func(f *ssa.Function) {
		if f != g {
			li := lockSets(f)
			for _, cell := range []string{"pending", "fc"} {
				acc := cellAccesses(f, g, cell)
				// operations on the map value loaded from the cell
				if cell == "pending" {
					// reading the VARIABLE (the map header, assigned once before the goroutines start) is not an access of
					// the shared map; what is done with the loaded map is (next line)
					var kept []access
					for _, a := range acc {
						if a.write || !strings.HasPrefix(a.what, "load pending") {
							kept = append(kept, a)
						}
					}
					acc = kept
					acc = append(acc, mapAccesses(f, func(v ssa.Value) bool { return loadedFromCell(v, g, "pending") })...)
				}
				for i, a := range acc {
					// a constructor filling the fields of the state struct it has just allocated: nothing shares it yet
					if st, isSt := a.instr.(*ssa.Store); isSt && f.Parent() == nil {
						if fa, isFA := st.Addr.(*ssa.FieldAddr); isFA {
							if al, isAl := fa.X.(*ssa.Alloc); isAl && al.Parent() == f {
								continue
							}
						}
					}
					n++
					held := li.heldAt(a.instr)
					ok := streamMuHeld(held)
					r.Check("C11.1", fmt.Sprintf("C11.1:%s:%s#%d@%s", cell, strings.Fields(a.what)[0], i+1, c.Key(f)), a.instr.Pos(), ok, "under mu",
						"the stream's "+cell+" is accessed ("+a.what+") in "+c.Key(f)+" without holding mu: the flow-control accounting races (miscount or concurrent map access crash)")
				}
			}
		}
		for _, a := range f.AnonFuncs {
			walk(a)
		}
	}
	walk(g)
	// private methods / helpers the goroutines hand their work to
	for _, h := range c.opFuncs(g)[1:] {
		walk(h)
	}
	r.Floor("C11.1", n, 8)
}

// streamer goroutines by role
func streamerRoles(c *Ctx, g *ssa.Function) (reader, sender, refresh *ssa.Function) {
	for _, a := range g.AnonFuncs {
		for _, b := range a.Blocks {
			for _, in := range b.Instrs {
				ci, ok := in.(ssa.CallInstruction)
				if !ok {
					continue
				}
				if ci.Common().IsInvoke() && ci.Common().Method.Name() == "Receive" {
					reader = a
				}
				if cal := ci.Common().StaticCallee(); cal != nil && fnIs(cal, modPath+"/actions", "GetSubscriptionMessages.ExecuteClient") {
					sender = a
				}
			}
		}
		for _, s := range c.EntShape().Stmts {
			if s.Fn == a && s.Table == "deliveries" && s.Kind == "select" {
				refresh = a
			}
		}
	}
	return
}

// ---------------------------------------------------------------------------
// C11.2 pending is filled before anything is sent ; C11.3 the fetch limits subtract every pending message

func ruleC11_2_3(c *Ctx, r *Rep) {
	g := r.Anchor("C11.2", fnStreamerGo)
	if g == nil {
		return
	}
	_, sender, _ := streamerRoles(c, g)
	if sender == nil {
		r.Fail("C11.2", "C11.2:sender", g.Pos(), "the streamer's sender goroutine was not found")
		return
	}
	ls := loopsOf(sender)
	// insertion loop
	var ins *ssa.MapUpdate
	for _, b := range sender.Blocks {
		for _, in := range b.Instrs {
			if mu, ok := in.(*ssa.MapUpdate); ok && loadedFromCell(mu.Map, g, "pending") {
				ins = mu
			}
		}
	}
	okIns := false
	why := "the sender never records what it sends in `pending`"
	if ins != nil {
		l := innermostLoop(ls, ins.Block())
		okIns = l != nil && sources(ins.Key)["field:ID"] && sources(ins.Key)["field:Deliveries"]
		why = "the pending entry is not keyed by the id of each fetched delivery"
		if okIns {
			for _, e := range l.exitEdges() {
				if e[0] != l.Header {
					okIns, why = false, "the loop that records fetched deliveries as pending can be left early"
				}
			}
		}
		if okIns {
			for _, b := range sender.Blocks {
				for _, in := range b.Instrs {
					ci, ok := in.(ssa.CallInstruction)
					if !ok || !ci.Common().IsInvoke() {
						continue
					}
					if m := ci.Common().Method.Name(); m == "Send" || m == "SendBatch" {
						if !(dominates(l.Header, b) && !l.Blocks[b]) {
							okIns, why = false, "a message can be sent before the whole fetch was recorded as pending: an ack arriving immediately finds nothing to release and the accounting drifts"
						}
					}
				}
			}
		}
	}
	pos := sender.Pos()
	if ins != nil {
		pos = ins.Pos()
	}
	r.Check("C11.2", "C11.2:pending-before-send", pos, okIns, "every fetched delivery is recorded as pending before any is sent", why)

	// C11.3: curFc = fc minus a loop over ALL of pending
	var rng *ssa.Range
	for _, b := range sender.Blocks {
		for _, in := range b.Instrs {
			if rg, ok := in.(*ssa.Range); ok && loadedFromCell(rg.X, g, "pending") {
				rng = rg
			}
		}
	}
	ok3 := false
	why3 := "the sender does not walk the pending set before fetching"
	if rng != nil {
		// the loop driven by this range
		var l *loop
		for _, x := range ls {
			for _, in := range x.Header.Instrs {
				if nx, ok := in.(*ssa.Next); ok && nx.Iter == ssa.Value(rng) {
					l = x
				}
			}
		}
		if l != nil {
			ok3 = true
			for _, e := range l.exitEdges() {
				if e[0] != l.Header {
					ok3, why3 = false, "the walk over pending can stop early: some outstanding messages are not subtracted from the limits"
				}
			}
			decMsgs, decBytes, anyP := false, false, false
			for b := range l.Blocks {
				for _, in := range b.Instrs {
					st, isSt := in.(*ssa.Store)
					if !isSt {
						continue
					}
					if fa, isFA := st.Addr.(*ssa.FieldAddr); isFA {
						f := fieldName(fa.X.Type(), fa.Field)
						if bo, isB := st.Val.(*ssa.BinOp); isB && bo.Op == token.SUB {
							if f == "MaxMessages" {
								if one, isC := constInt(bo.Y); isC && one == 1 {
									decMsgs = true
								}
							}
							if f == "MaxBytes" && sources(bo.Y)["field:bytes"] {
								decBytes = true
							}
						}
					}
					if cst, isC := st.Val.(*ssa.Const); isC && cst.Value != nil && cst.Value.String() == "true" {
						anyP = true
					}
				}
			}
			// `anyPending = true` inside the walk shows up as a phi edge fed by the constant true from a loop block
			for _, stv := range fieldStores(sender, modPath+"/actions", "GetSubscriptionMessagesParams")["MaxBytesStrict"] {
				seenPhi := map[ssa.Value]bool{}
				var visit func(v ssa.Value)
				visit = func(v ssa.Value) {
					ph, isPhi := v.(*ssa.Phi)
					if !isPhi || seenPhi[v] {
						return
					}
					seenPhi[v] = true
					for i, e := range ph.Edges {
						if cst, isC := e.(*ssa.Const); isC && cst.Value != nil && cst.Value.String() == "true" && l.Blocks[ph.Block().Preds[i]] {
							anyP = true
						}
						visit(e)
					}
				}
				visit(stv.Val)
			}
			if ok3 && !(decMsgs && decBytes && anyP) {
				ok3, why3 = false, fmt.Sprintf("each pending message must reduce MaxMessages by 1 and MaxBytes by its size and mark `anything pending` (messages=%v bytes=%v any=%v)", decMsgs, decBytes, anyP)
			}
		}
	}
	r.Check("C11.3", "C11.3:limits-minus-pending", sender.Pos(), ok3, "fetch limits = client limits − every pending message", why3)
	// the fetch parameters use the reduced limits and strict mode when anything is pending
	st := fieldStores(sender, modPath+"/actions", "GetSubscriptionMessagesParams")
	okP := len(st["MaxMessages"]) > 0 && len(st["MaxBytes"]) > 0 && len(st["MaxBytesStrict"]) > 0
	for _, s := range st["MaxBytesStrict"] {
		if cst, isC := s.Val.(*ssa.Const); isC && cst.Value != nil {
			okP = false // a constant strict flag ignores what is pending
		}
	}
	for _, f := range []string{"MaxMessages", "MaxBytes"} {
		if len(st[f]) > 0 {
			src := sources(st[f][0].Val)
			if !src["field:"+f] {
				okP = false
			}
		}
	}
	r.Check("C11.3", "C11.3:fetch-params", sender.Pos(), okP, "the fetch uses the reduced limits, strict-bytes iff anything is pending", "the fetch does not use the limits reduced by what is pending (or strict-bytes mode is not tied to `anything pending`)")
}

// ---------------------------------------------------------------------------
// C11.4 / C11.7 capacity freed => the sender is woken ; settled ids leave the window

func isTryWake(g *ssa.Function, in ssa.Instruction) bool {
	call, ok := in.(*ssa.Call)
	if !ok || call.Call.IsInvoke() || call.Call.StaticCallee() != nil {
		// tryWake is a closure value held in a local: a dynamic call of a loaded func value
		if ok && call.Call.StaticCallee() != nil && call.Call.StaticCallee().Parent() == g {
			// direct call of the closure
			return closureSends(call.Call.StaticCallee())
		}
		// a method of the private state struct that does the non-blocking send
		if ok && call.Call.StaticCallee() != nil && call.Call.StaticCallee().Pkg == g.Pkg && call.Call.StaticCallee().Object() != nil && !call.Call.StaticCallee().Object().Exported() && call.Call.StaticCallee().Signature.Recv() != nil {
			return closureSends(call.Call.StaticCallee())
		}
		return false
	}
	if u, isU := call.Call.Value.(*ssa.UnOp); isU && cellOf(u.X, g, "tryWake") {
		return true
	}
	if mc, isMC := call.Call.Value.(*ssa.MakeClosure); isMC {
		return closureSends(mc.Fn.(*ssa.Function))
	}
	return false
}

func closureSends(f *ssa.Function) bool {
	for _, b := range f.Blocks {
		for _, in := range b.Instrs {
			if sel, ok := in.(*ssa.Select); ok {
				for _, st := range sel.States {
					if st.Dir == 1 { // SendOnly
						return true
					}
				}
			}
			if _, ok := in.(*ssa.Send); ok {
				return true
			}
		}
	}
	return false
}

// wakeAfterDelete: from every delete(pending, …) in f, a tryWake() call is executed before the goroutine
// blocks again / starts its next iteration. A monotone flag (set to true next to the delete, tested before the
// wake) is followed with constant propagation.
func wakeAfterDelete(g, f *ssa.Function) (int, bool, string) {
	n := 0
	isBlocking := func(in ssa.Instruction) bool {
		switch x := in.(type) {
		case *ssa.Select:
			return x.Blocking
		case *ssa.Call:
			if x.Call.IsInvoke() && x.Call.Method.Name() == "Receive" {
				return true
			}
		}
		return false
	}
	for _, b := range f.Blocks {
		for idx, in := range b.Instrs {
			call, ok := in.(*ssa.Call)
			if !ok {
				continue
			}
			bi, ok := call.Call.Value.(*ssa.Builtin)
			if !ok || bi.Name() != "delete" || !loadedFromCell(call.Call.Args[0], g, "pending") {
				continue
			}
			n++
			// DFS with known-true values
			type st struct {
				b    *ssa.BasicBlock
				from int
				kt   string
			}
			seen := map[st]bool{}
			bad := false
			var walk func(b *ssa.BasicBlock, from int, pred *ssa.BasicBlock, known map[ssa.Value]bool)
			walk = func(b *ssa.BasicBlock, from int, pred *ssa.BasicBlock, known map[ssa.Value]bool) {
				if bad {
					return
				}
				k := st{b, from, fmt.Sprint(len(known))}
				if seen[k] {
					return
				}
				seen[k] = true
				known2 := map[ssa.Value]bool{}
				for v := range known {
					known2[v] = true
				}
				for i := from; i < len(b.Instrs); i++ {
					x := b.Instrs[i]
					if ph, isPhi := x.(*ssa.Phi); isPhi && pred != nil {
						for pi, p := range b.Preds {
							if p == pred {
								e := ph.Edges[pi]
								if cst, isC := e.(*ssa.Const); isC && cst.Value != nil && cst.Value.String() == "true" {
									known2[ph] = true
								} else if known2[e] {
									known2[ph] = true
								} else {
									delete(known2, ph)
								}
							}
						}
						continue
					}
					if isTryWake(g, x) {
						return // woken on this path
					}
					if isBlocking(x) {
						bad = true
						return
					}
					if _, isRet := x.(*ssa.Return); isRet {
						return // goroutine ends: nothing left to stall
					}
				}
				if len(b.Succs) == 2 {
					iff := b.Instrs[len(b.Instrs)-1].(*ssa.If)
					if known2[iff.Cond] {
						walk(b.Succs[0], 0, b, known2)
						return
					}
				}
				for _, s := range b.Succs {
					walk(s, 0, b, known2)
				}
			}
			// the flag may be set in the same block right after the delete: constants flow through phis at the next block
			walk(b, idx+1, nil, map[ssa.Value]bool{})
			if bad {
				return n, false, "after removing a message from the pending set the goroutine can block again without waking the sender: capacity is free and messages may be deliverable, yet the stream stalls"
			}
		}
	}
	return n, true, ""
}

func ruleC11_4_7(c *Ctx, r *Rep) {
	g := r.Anchor("C11.4", fnStreamerGo)
	if g == nil {
		return
	}
	reader, _, refresh := streamerRoles(c, g)
	total := 0
	for name, f := range map[string]*ssa.Function{"reader": reader, "refresh": refresh} {
		if f == nil {
			r.Fail("C11.4", "C11.4:"+name, g.Pos(), "streamer goroutine `"+name+"` not found")
			continue
		}
		n, ok, why := wakeAfterDelete(g, f)
		total += n
		r.Check("C11.4", "C11.4:wake-after-release@"+name, f.Pos(), ok && n > 0, "every release of capacity is followed by a wake-up of the sender", why)
	}
	r.Floor("C11.4", total, 2)
	// C11.7 reader: after doAcksNacks succeeded, both the acked and the nacked ids are removed
	if reader != nil {
		var dn *ssa.Call
		for _, ci := range callsIn(reader, false, func(cal *ssa.Function, _ ssa.CallInstruction) bool {
			return fnIs(cal, modPath+"/actions", "MessageStreamer.doAcksNacks")
		}) {
			dn = ci.(*ssa.Call)
		}
		okA, okN := false, false
		if dn != nil {
			for _, b := range reader.Blocks {
				for _, in := range b.Instrs {
					call, ok := in.(*ssa.Call)
					if !ok {
						continue
					}
					if bi, ok := call.Call.Value.(*ssa.Builtin); ok && bi.Name() == "delete" && loadedFromCell(call.Call.Args[0], g, "pending") && instrDominates(dn, call) {
						src := sources(call.Call.Args[1])
						if src["field:Ack"] {
							okA = rangesWhole(call, "field:Ack")
						}
						if src["field:Nack"] {
							okN = rangesWhole(call, "field:Nack")
						}
					}
				}
			}
		}
		r.Check("C11.7", "C11.7:acked-and-nacked-leave-window", reader.Pos(), okA && okN, "acked and nacked ids are removed from pending", fmt.Sprintf("ids settled on the stream stay counted as outstanding (acks removed=%v, nacks removed=%v): the window fills up with settled messages and the stream stalls", okA, okN))
	}
	// C11.7 refresh: the ids checked against the database are the snapshot taken under the lock, and every id
	// the database no longer reports is removed
	if refresh != nil {
		var sel *Stmt
		for _, s := range c.EntShape().Stmts {
			if s.Fn == refresh && s.Table == "deliveries" && s.Kind == "select" {
				sel = s
			}
		}
		ok := false
		why := "refresh query not found"
		if sel != nil {
			ida := sel.Find("", "id", "in")
			need := len(ida) == 1 && len(sel.Find("", "completed_at", "isnull")) == 1 && len(sel.Find("", "expires_at", "gte", "gt")) == 1
			if need {
				// nothing else may narrow "still outstanding": a row the query misses is dropped from the accounting
				_, extra, _ := c.matchAtoms(sel.Where, []ap{{col: "id", ops: []string{"in"}}, {col: "completed_at", ops: []string{"isnull"}}, {col: "expires_at", ops: []string{"gte", "gt"}}}, nil)
				if len(extra) > 0 {
					need = false
				}
			}
			why = "the refresh must ask the database for exactly `id IN <snapshot of pending> ∧ completed_at IS NULL ∧ not expired` (a further restricting atom drops messages the client still holds from the window accounting)"
			if need {
				// the removal loop ranges over the same snapshot as the query (not over the live map)
				ok = true
				found := false
				for _, b := range refresh.Blocks {
					for _, in := range b.Instrs {
						call, isC := in.(*ssa.Call)
						if !isC {
							continue
						}
						if bi, isB := call.Call.Value.(*ssa.Builtin); isB && bi.Name() == "delete" && loadedFromCell(call.Call.Args[0], g, "pending") {
							found = true
							same := false
							for e := range elementLoads(call.Call.Args[1]) {
								if valKey(e.(*ssa.IndexAddr).X) == valKey(sliceOfVariadic(ida[0].Arg)) {
									same = true
								}
							}
							if !same {
								ok, why = false, "ids are removed from pending while walking something other than the snapshot that was sent to the database: a delivery recorded while the query was in flight is dropped from the accounting (the window is exceeded)"
							}
							// removal only for ids the database did not return
							if !condHas(edgeConds(b), false, func(v ssa.Value) bool {
								ex, isE := v.(*ssa.Extract)
								if !isE {
									return false
								}
								lk, isL := ex.Tuple.(*ssa.Lookup)
								return isL && lk.CommaOk && dependsOnCall(lk.X, sel.Terms[0].Call)
							}) {
								ok, why = false, "an id is removed from pending although the database still reports it outstanding"
							}
						}
					}
				}
				if !found {
					ok, why = false, "the refresh never removes settled ids from pending"
				}
			}
		}
		r.Check("C11.7", "C11.7:refresh-rebuilds-from-db", refresh.Pos(), ok, "pending is rebuilt from the database over the snapshot taken under the lock", why)
	}
}

// sliceOfVariadic: for an `ids...` argument the slice value itself.
func sliceOfVariadic(v ssa.Value) ssa.Value { return v }

// rangesWhole: the call sits in a range loop over a slice with the given source that cannot be left early.
func rangesWhole(call *ssa.Call, srcKey string) bool {
	f := call.Parent()
	l := innermostLoop(loopsOf(f), call.Block())
	if l == nil {
		return false
	}
	for _, e := range l.exitEdges() {
		if e[0] != l.Header {
			return false
		}
	}
	for e := range elementLoads(call.Call.Args[1]) {
		if sources(e.(*ssa.IndexAddr).X)[srcKey] {
			return true
		}
	}
	return false
}

// ---------------------------------------------------------------------------
// C11.6 byte budget in applyResults

func ruleC11_6(c *Ctx, r *Rep) {
	ap := r.Anchor("C11.6", fnPullApply)
	if ap == nil {
		return
	}
	// the over-budget test (in applyResults or a private helper that belongs to it)
	budgetTest := func(f *ssa.Function) *ssa.If {
		for _, b := range f.Blocks {
			if len(b.Instrs) == 0 {
				continue
			}
			if x, ok := b.Instrs[len(b.Instrs)-1].(*ssa.If); ok {
				if bo, ok := x.Cond.(*ssa.BinOp); ok && bo.Op == token.GTR && sources(bo.Y)["field:MaxBytes"] && sources(bo.X)["field:Payload"] {
					return x
				}
			}
		}
		return nil
	}
	ap = c.opFuncWhere(ap, func(f *ssa.Function) bool { return budgetTest(f) != nil })
	var iff *ssa.If
	for _, b := range ap.Blocks {
		if len(b.Instrs) == 0 {
			continue
		}
		x, ok := b.Instrs[len(b.Instrs)-1].(*ssa.If)
		if !ok {
			continue
		}
		if bo, ok := x.Cond.(*ssa.BinOp); ok && bo.Op == token.GTR && sources(bo.Y)["field:MaxBytes"] && sources(bo.X)["field:Payload"] {
			iff = x
		}
	}
	if iff == nil {
		r.Fail("C11.6", "C11.6:byte-budget", ap.Pos(), "applyResults has no `bytes + len(payload) > MaxBytes` test")
		return
	}
	l := innermostLoop(loopsOf(ap), iff.Block())
	over := iff.Block().Succs[0]
	ok := l != nil
	why := ""
	if ok {
		// over budget: this message is skipped but the scan continues (the loop is not left)
		if over != l.Header {
			ok, why = false, "an over-budget message ends the scan (break) instead of being skipped: a smaller deliverable message behind it is held back although it fits"
		}
		// and the append is not reachable from the over-budget edge within the iteration
		reach := reachableFrom([]*ssa.BasicBlock{over}, map[*ssa.BasicBlock]bool{l.Header: true})
		for b := range reach {
			if b == l.Header {
				continue
			}
			for _, in := range b.Instrs {
				if st, isSt := in.(*ssa.Store); isSt {
					if fa, isFA := st.Addr.(*ssa.FieldAddr); isFA && fieldName(fa.X.Type(), fa.Field) == "Deliveries" && l.Blocks[b] {
						ok, why = false, "a message over the byte budget is still delivered"
					}
				}
			}
		}
		// the test is skipped only for the first message in non-strict mode
		cs := edgeConds(iff.Block())
		_ = cs
	}
	r.Check("C11.6", "C11.6:byte-budget", iff.Pos(), ok, "over-budget messages are skipped, the scan continues", why)
	// the budget accumulates the payload size of every delivered message
	acc := false
	for _, b := range ap.Blocks {
		for _, in := range b.Instrs {
			if ph, isPhi := in.(*ssa.Phi); isPhi && ph.Comment == "bytes" {
				for _, e := range ph.Edges {
					if bo, isB := e.(*ssa.BinOp); isB && bo.Op == token.ADD && sources(bo.Y)["field:Payload"] {
						acc = true
					}
				}
			}
		}
	}
	r.Check("C11.6", "C11.6:bytes-accumulate", ap.Pos(), acc, "", "the byte counter does not accumulate the size of delivered payloads")
}

// ---------------------------------------------------------------------------
// C11.5 effectiveFlowControl returns limits >= 1 (K6 interval analysis)

func ruleC11_5(c *Ctx, r *Rep) {
	fn := r.Anchor("C11.5", "services.effectiveFlowControl")
	if fn == nil {
		return
	}
	ai := newAI(c)
	// private helpers that clamp one limit are analysed with the caller's abstract arguments
	ai.Inline = func(cal *ssa.Function, call *ssa.Call, args []*AV) bool { return true }
	entry := &aiState{vals: map[ssa.Value]*AV{}, mem: map[string]*AV{}}
	for _, p := range fn.Params {
		entry.vals[p] = topOf(p.Type(), true)
	}
	okM, okB := true, true
	nret := 0
	ai.OnReturn = func(f *ssa.Function, ret *ssa.Return, s *aiState) {
		if f != fn {
			return
		}
		nret++
		v := ai.val(ret.Results[0], s)
		chk := func(name string) bool {
			fv := v.F[name]
			return fv != nil && fv.K == 'i' && !fv.LoInf && fv.Lo >= 1
		}
		if !chk("MaxMessages") {
			okM = false
		}
		if !chk("MaxBytes") {
			okB = false
		}
	}
	ai.Run(fn, entry)
	arch := "amd64"
	if c.is386() {
		arch = "386"
	}
	r.Check("C11.5", "C11.5:limits>=1@effectiveFlowControl", fn.Pos(), nret > 0 && okM && okB, "MaxMessages >= 1 and MaxBytes >= 1 for every int64 input ("+arch+")",
		fmt.Sprintf("effectiveFlowControl can return a limit < 1 for some client value (messages ok=%v, bytes ok=%v, %s): the streamer would never fetch", okM, okB, arch))
	// the initial limits of a stream are {1,1}
	if g := c.Fn(fnStreamerGo); g != nil {
		st := fieldStores(g, modPath+"/actions", "FlowControl")
		ok := len(st["MaxMessages"]) > 0 && len(st["MaxBytes"]) > 0
		for _, f := range []string{"MaxMessages", "MaxBytes"} {
			for _, s := range st[f] {
				if v, isC := constInt(s.Val); !isC || v < 1 {
					ok = false
				}
			}
		}
		r.Check("C11.5", "C11.5:initial-limits", g.Pos(), ok, "", "the stream's initial flow-control limits are not positive constants")
	}
}

package main

import (
	"fmt"
	"go/token"
	"go/types"
	"os"
	"strings"

	"golang.org/x/tools/go/ssa"
)

// Run analyses fn from the given entry state and returns the states at its Return instructions.
type retState struct {
	ret *ssa.Return
	s   *aiState
}

func (ai *AI) Run(fn *ssa.Function, entry *aiState) []retState {
	if len(fn.Blocks) == 0 {
		return nil
	}
	ai.chain = append(ai.chain, ai.c.Key(fn))
	defer func() { ai.chain = ai.chain[:len(ai.chain)-1] }()
	states := map[*ssa.BasicBlock][]*aiState{}
	visits := map[*ssa.BasicBlock]int{}
	// values that are used outside their defining block (only those need to travel between blocks)
	cross := map[ssa.Value]bool{}
	for _, b := range fn.Blocks {
		for _, in := range b.Instrs {
			v, ok := in.(ssa.Value)
			if !ok {
				continue
			}
			if refs := v.Referrers(); refs != nil {
				for _, r := range *refs {
					if r.Block() != b {
						cross[v] = true
					}
					if _, isPhi := r.(*ssa.Phi); isPhi {
						cross[v] = true
					}
				}
			}
		}
	}
	prune := func(s *aiState) *aiState {
		n := &aiState{vals: make(map[ssa.Value]*AV), mem: make(map[string]*AV, len(s.mem)), pred: s.pred}
		for k, v := range s.vals {
			if cross[k] {
				n.vals[k] = v
			} else if _, isParam := k.(*ssa.Parameter); isParam {
				n.vals[k] = v
			} else if k.Parent() != fn {
				n.vals[k] = v
			}
		}
		for k, v := range s.mem {
			n.mem[k] = v
		}
		return n
	}
	type item struct {
		b *ssa.BasicBlock
		s *aiState
	}
	work := []item{{fn.Blocks[0], entry}}
	var rets []retState
	for len(work) > 0 && ai.budget > 0 {
		it := work[len(work)-1]
		work = work[:len(work)-1]
		b, s := it.b, it.s
		// dedupe / bound the number of states per block
		dup := false
		for _, o := range states[b] {
			if eqState(o, s) {
				dup = true
				break
			}
		}
		if dup {
			continue
		}
		visits[b]++
		if len(states[b]) >= ai.MaxStates || visits[b] > 600 {
			// widen: join into the first state of that predecessor class, dropping what differs
			j := states[b][0]
			n := &aiState{vals: map[ssa.Value]*AV{}, mem: map[string]*AV{}, pred: s.pred}
			for k, v := range j.vals {
				if w, ok := s.vals[k]; ok {
					if jv := widenAV(v, w); jv != nil {
						n.vals[k] = jv
					}
				}
			}
			for k, v := range j.mem {
				if w, ok := s.mem[k]; ok {
					if jv := widenAV(v, w); jv != nil {
						n.mem[k] = jv
					}
				}
			}
			if eqState(j, n) {
				continue
			}
			states[b] = []*aiState{n}
			s = n.clone()
		} else {
			states[b] = append(states[b], s.clone())
		}
		ai.budget -= len(b.Instrs)
		// phis: evaluated for the edge we came through
		if s.pred != nil {
			idx := -1
			for i, p := range b.Preds {
				if p == s.pred {
					idx = i
				}
			}
			upd := map[ssa.Value]*AV{}
			for _, in := range b.Instrs {
				ph, ok := in.(*ssa.Phi)
				if !ok {
					break
				}
				if idx >= 0 && idx < len(ph.Edges) {
					upd[ph] = ai.val(ph.Edges[idx], s).clone()
				}
			}
			for k, v := range upd {
				s.vals[k] = v
			}
		}
		// instruction loop with continuations: an inlined validator-like callee (several returns, a verdict among its
		// results) forks the state, one continuation per outcome, so that "err == nil" stays tied to what the callee
		// established about its arguments on that path
		type cont struct {
			idx int
			s   *aiState
		}
		conts := []cont{{0, s}}
		for len(conts) > 0 && ai.budget > 0 {
			ct := conts[len(conts)-1]
			conts = conts[:len(conts)-1]
			s := ct.s
			dead := false
			for idx := ct.idx; idx < len(b.Instrs); idx++ {
				in := b.Instrs[idx]
				if _, ok := in.(*ssa.Phi); ok {
					continue
				}
				if ai.OnInstr != nil {
					ai.OnInstr(in, s)
				}
				var pre *aiState
				if _, isCall := in.(*ssa.Call); isCall && ai.Inline != nil {
					pre = s.clone()
				}
				ai.forks = nil
				if !ai.step(fn, in, s) {
					dead = true
					break
				}
				if len(ai.forks) > 0 && pre != nil {
					call := in.(*ssa.Call)
					for _, fk := range ai.forks {
						s2 := pre.clone()
						ai.applyOutcome(call, fk, s2)
						conts = append(conts, cont{idx + 1, s2})
					}
					ai.forks = nil
				}
				switch x := in.(type) {
				case *ssa.Return:
					rets = append(rets, retState{x, s})
					if ai.OnReturn != nil {
						ai.OnReturn(fn, x, s)
					}
				case *ssa.Panic:
					// go/ssa's synthetic "blocking select matched no case" has no position and is unreachable
					if x.Pos().IsValid() {
						ai.report("panic", x.Pos(), fn, "an explicit panic is reachable")
					}
				}
			}
			if dead {
				continue
			}
			switch len(b.Succs) {
			case 1:
				n := prune(s)
				n.pred = b
				work = append(work, item{b.Succs[0], n})
			case 2:
				iff := b.Instrs[len(b.Instrs)-1].(*ssa.If)
				for i, succ := range b.Succs {
					n := s.clone()
					n.pred = b
					if ai.assume(iff.Cond, i == 0, n) {
						n = prune(n)
						n.pred = b
						work = append(work, item{succ, n})
					}
				}
			}
		}
	}
	return rets
}

// widenAV: join with threshold widening (bounds move outwards only to one of a few landmark values).
func widenAV(a, b *AV) *AV {
	j := joinAV(a, b)
	if j == nil {
		return nil
	}
	if j.K == 'i' {
		if !j.LoInf && (a.LoInf || b.LoInf || a.Lo != b.Lo) {
			lo := j.Lo
			j.LoInf = true
			for _, t := range []int64{1000, 1, 0, -1} {
				if lo >= t {
					j.Lo, j.LoInf = t, false
					break
				}
			}
		}
		if !j.HiInf && (a.HiInf || b.HiInf || a.Hi != b.Hi) {
			hi := j.Hi
			j.HiInf = true
			for _, t := range []int64{-1, 0, 1, 1000} {
				if hi <= t {
					j.Hi, j.HiInf = t, false
					break
				}
			}
		}
	}
	return j
}

// step interprets one instruction; false = this path ends here (definite nil dereference etc.).
func (ai *AI) step(fn *ssa.Function, in ssa.Instruction, s *aiState) bool {
	switch x := in.(type) {
	case *ssa.Alloc:
		// zero value of a local struct: fields are unknown-but-untainted until stored
		if st, ok := x.Type().Underlying().(*types.Pointer).Elem().Underlying().(*types.Struct); ok {
			loc := ai.locKey(x, s)
			for i := 0; i < st.NumFields(); i++ {
				z := zeroAV(st.Field(i).Type())
				s.mem[loc+"."+st.Field(i).Name()] = z
			}
		} else {
			s.mem[ai.locKey(x, s)] = zeroAV(x.Type().Underlying().(*types.Pointer).Elem())
		}
	case *ssa.UnOp:
		switch x.Op {
		case token.MUL:
			ai.checkDeref(fn, x.X, x.Pos(), s)
			lv := ai.load(x.X, x.Type(), s)
			if fa, ok := x.X.(*ssa.FieldAddr); ok && !lv.Taint {
				if b := ai.val(fa.X, s); b != nil && b.Taint {
					lv.Taint = true // a field of a request-derived message
				}
			}
			s.vals[x] = lv
		case token.NOT:
			a := ai.val(x.X, s).clone()
			switch a.B {
			case tYes:
				a.B = tNo
			case tNo:
				a.B = tYes
			}
			s.vals[x] = a
		case token.SUB:
			a := ai.val(x.X, s)
			s.vals[x] = arith(token.SUB, &AV{K: 'i'}, a)
		default:
			s.vals[x] = topOf(x.Type(), ai.val(x.X, s).Taint)
		}
	case *ssa.FieldAddr:
		ai.checkDeref(fn, x.X, x.Pos(), s)
		s.vals[x] = &AV{K: 'p', Nil: tNo, Taint: ai.val(x.X, s).Taint}
	case *ssa.Field:
		a := ai.val(x.X, s)
		f := fieldName(x.X.Type(), x.Field)
		if a != nil && a.F != nil && a.F[f] != nil {
			s.vals[x] = a.F[f].clone()
		} else {
			s.vals[x] = topOf(x.Type(), a != nil && a.Taint)
		}
	case *ssa.IndexAddr:
		s.vals[x] = &AV{K: 'p', Nil: tNo, Taint: ai.val(x.X, s).Taint}
	case *ssa.Store:
		v := ai.val(x.Val, s)
		loc := ai.store(x.Addr, v, s)
		if ai.OnStore != nil {
			ai.OnStore(fn, x, loc, v, s)
		}
	case *ssa.BinOp:
		a, b := ai.val(x.X, s), ai.val(x.Y, s)
		switch x.Op {
		case token.ADD, token.SUB, token.MUL:
			if kindOf(x.Type()) == 'i' {
				s.vals[x] = arith(x.Op, a, b)
			} else {
				r := topOf(x.Type(), a.Taint || b.Taint)
				if x.Op == token.ADD && r.K == 's' && (a.Empty == tNo || b.Empty == tNo) {
					r.Empty = tNo
				}
				s.vals[x] = r
			}
		case token.EQL, token.NEQ, token.LSS, token.LEQ, token.GTR, token.GEQ:
			r := &AV{K: 'b', Taint: a.Taint || b.Taint}
			r.B = ai.evalCmp(x.Op, a, b)
			s.vals[x] = r
		default:
			s.vals[x] = topOf(x.Type(), a.Taint || b.Taint)
		}
	case *ssa.Convert:
		a := ai.val(x.X, s).clone()
		if kindOf(x.Type()) == 'i' && a.K == 'i' {
			// narrowing conversions keep the interval only if it fits
			sizeOf := func(t types.Type) int64 {
				if ai.c.is386() && isPlainInt(t) {
					return 4
				}
				return types.SizesFor("gc", "amd64").Sizeof(t)
			}
			signed := func(t types.Type) bool {
				b, ok := t.Underlying().(*types.Basic)
				return ok && b.Info()&types.IsUnsigned == 0
			}
			// a conversion into a type at least as wide and of the same signedness keeps every value (int32 → int,
			// also where int has 32 bits)
			widening := kindOf(x.X.Type()) == 'i' && sizeOf(x.X.Type()) <= sizeOf(x.Type()) && signed(x.X.Type()) == signed(x.Type())
			if sz := types.SizesFor("gc", "amd64").Sizeof(x.Type()); !widening && (sz < 8 || (ai.c.is386() && isPlainInt(x.Type()))) {
				lim := int64(1) << 31
				if sz == 1 {
					lim = 1 << 7
				} else if sz == 2 {
					lim = 1 << 15
				}
				if a.LoInf || a.HiInf || a.Lo < -lim || a.Hi >= lim {
					a = topOf(x.Type(), a.Taint)
				}
			}
			a.Loc = ""
			s.vals[x] = a
		} else {
			s.vals[x] = topOf(x.Type(), a.Taint)
			if kindOf(x.Type()) == 's' && a.K == 's' {
				s.vals[x] = a
			}
		}
	case *ssa.ChangeType:
		s.vals[x] = ai.val(x.X, s).clone()
	case *ssa.MakeInterface:
		a := ai.val(x.X, s)
		s.vals[x] = &AV{K: 'p', Nil: tNo, Taint: a.Taint}
	case *ssa.TypeAssert:
		a := ai.val(x.X, s)
		r := topOf(x.Type(), a.Taint)
		if x.CommaOk {
			r = &AV{K: 'S', Taint: a.Taint, F: map[string]*AV{"0": topOf(x.AssertedType, a.Taint), "1": {K: 'b'}}}
			if r.F["0"].K == 'p' {
				// oneof wrappers / concrete pointers held by an interface are non-nil on the matching branch
				r.F["0"].Nil = tNo
			}
		} else if r.K == 'p' {
			r.Nil = tNo
		}
		s.vals[x] = r
	case *ssa.Extract:
		t := ai.val(x.Tuple, s)
		if t != nil && t.F != nil {
			if f := t.F[string(rune('0'+x.Index))]; f != nil {
				s.vals[x] = f.clone()
				return true
			}
		}
		s.vals[x] = topOf(x.Type(), t != nil && t.Taint)
	case *ssa.Slice:
		a := ai.val(x.X, s)
		s.vals[x] = &AV{K: 'p', Taint: a.Taint, Nil: a.Nil}
	case *ssa.Lookup:
		a := ai.val(x.X, s)
		s.vals[x] = topOf(x.Type(), a.Taint)
	case *ssa.Call:
		ai.call(fn, x, s)
	case *ssa.Defer, *ssa.Go:
		// deferred closures run at exit with the state of that time; not modelled
	case *ssa.MakeClosure, *ssa.MakeMap, *ssa.MakeSlice, *ssa.MakeChan:
		s.vals[x.(ssa.Value)] = &AV{K: 'p', Nil: tNo}
	case *ssa.Next, *ssa.Range, *ssa.Select:
		if v, ok := in.(ssa.Value); ok {
			s.vals[v] = topOf(v.Type(), true)
			s.vals[v].Taint = false
		}
	}
	return true
}

func isPlainInt(t types.Type) bool {
	b, ok := t.Underlying().(*types.Basic)
	return ok && (b.Kind() == types.Int || b.Kind() == types.Uint)
}

func (c *Ctx) is386() bool {
	for _, e := range c.BuildEnv {
		if e == "GOARCH=386" {
			return true
		}
	}
	return false
}

func zeroAV(t types.Type) *AV {
	a := topAV(kindOf(t))
	switch a.K {
	case 'i':
		a.Lo, a.Hi, a.LoInf, a.HiInf = 0, 0, false, false
	case 'p':
		a.Nil = tYes
	case 's':
		a.Empty = tYes
	case 'b':
		a.B = tNo
	case 't':
		a.Zero = tYes
	case 'S':
		a.F = map[string]*AV{}
		if st, ok := t.Underlying().(*types.Struct); ok {
			for i := 0; i < st.NumFields(); i++ {
				a.F[st.Field(i).Name()] = zeroAV(st.Field(i).Type())
			}
		}
	}
	return a
}

// checkDeref: dereferencing a request-derived pointer that may be nil.
func (ai *AI) checkDeref(fn *ssa.Function, p ssa.Value, pos token.Pos, s *aiState) {
	switch p.(type) {
	case *ssa.Alloc, *ssa.FieldAddr, *ssa.IndexAddr, *ssa.Global, *ssa.FreeVar, *ssa.Parameter:
		if _, isParam := p.(*ssa.Parameter); !isParam {
			return
		}
	}
	a := ai.val(p, s)
	if a == nil || a.K != 'p' || !a.Taint {
		return
	}
	// only a pointer to a protobuf message can be "a request sub-message that may be absent": rows, builders and
	// other values computed from request strings are not (their nil-ness is the callee's contract, not the client's)
	if !isProtoMsgPtr(p.Type()) {
		if os.Getenv("MB_DEBUG_AI") != "" && a.Nil != tNo {
			fmt.Fprintf(os.Stderr, "deref of non-proto tainted %s : %s\n", p.Name(), p.Type())
		}
		return
	}
	if a.Nil != tNo {
		ai.report("nilderef", pos, fn, "a request sub-message that may be absent ("+a.Loc+") is dereferenced without a nil check")
		// continue on the non-nil assumption so that one finding does not hide the next
		if a.Loc != "" {
			if m := s.mem[a.Loc]; m != nil {
				m2 := m.clone()
				m2.Nil = tNo
				s.mem[a.Loc] = m2
			} else {
				s.mem[a.Loc] = &AV{K: 'p', Nil: tNo, Taint: true}
			}
		}
		a2 := a.clone()
		a2.Nil = tNo
		s.vals[p] = a2
	}
}

func (ai *AI) evalCmp(op token.Token, a, b *AV) tri {
	if a == nil || b == nil {
		return tUnknown
	}
	eq := tUnknown
	switch {
	case a.K == 'i' && b.K == 'i':
		return cmpIv(op, a, b)
	case a.K == 'p' && b.K == 'p':
		if a.Nil == tYes && b.Nil == tYes {
			eq = tYes
		} else if (a.Nil == tYes && b.Nil == tNo) || (a.Nil == tNo && b.Nil == tYes) {
			eq = tNo
		}
	case a.K == 's' && b.K == 's':
		if a.Empty == tYes && b.Empty == tYes {
			eq = tYes
		} else if (a.Empty == tYes && b.Empty == tNo) || (a.Empty == tNo && b.Empty == tYes) {
			eq = tNo
		}
	case a.K == 'b' && b.K == 'b':
		if a.B != tUnknown && b.B != tUnknown {
			if a.B == b.B {
				eq = tYes
			} else {
				eq = tNo
			}
		}
	}
	switch op {
	case token.EQL:
		return eq
	case token.NEQ:
		switch eq {
		case tYes:
			return tNo
		case tNo:
			return tYes
		}
	}
	return tUnknown
}

// setFact writes a refined value for an SSA value and for the location it was loaded from.
func (ai *AI) setFact(v ssa.Value, nv *AV, s *aiState) {
	s.vals[v] = nv
	// a generated getter returns the zero value for a nil receiver: a non-zero result proves the receiver non-nil
	if lk := nv.Link; lk != nil && lk.kind == "getter" {
		nonZero := (nv.K == 's' && nv.Empty == tNo) || (nv.K == 'p' && nv.Nil == tNo) || (nv.K == 'i' && (!nv.LoInf && nv.Lo > 0 || !nv.HiInf && nv.Hi < 0)) || (nv.K == 'b' && nv.B == tYes)
		if nonZero {
			if rv := s.vals[lk.val]; rv != nil {
				r2 := rv.clone()
				r2.Nil = tNo
				s.vals[lk.val] = r2
			}
			if lk.loc != "" {
				if m := s.mem[lk.loc]; m != nil {
					m2 := m.clone()
					m2.Nil = tNo
					s.mem[lk.loc] = m2
				} else {
					s.mem[lk.loc] = &AV{K: 'p', Nil: tNo, Taint: true}
				}
			}
		}
	}
	if nv.Loc != "" {
		m := nv.clone()
		m.Loc = ""
		s.mem[nv.Loc] = m
	}
	// conversions of a loaded value refine the source too (int(req.MaxMessages))
	switch x := v.(type) {
	case *ssa.Convert:
		src := ai.val(x.X, s)
		if src.K == 'i' && nv.K == 'i' && src.Loc != "" {
			r := src.clone()
			if !nv.LoInf && (r.LoInf || nv.Lo > r.Lo) {
				r.Lo, r.LoInf = nv.Lo, false
			}
			if !nv.HiInf && (r.HiInf || nv.Hi < r.Hi) {
				r.Hi, r.HiInf = nv.Hi, false
			}
			ai.setFact(x.X, r, s)
		}
	case *ssa.ChangeType:
		src := ai.val(x.X, s)
		r := nv.clone()
		r.Loc = src.Loc
		ai.setFact(x.X, r, s)
	}
}

// assume refines the state with cond == pol; false = infeasible.
func (ai *AI) assume(cond ssa.Value, pol bool, s *aiState) bool {
	cv := ai.val(cond, s)
	if cv != nil && cv.K == 'b' {
		if cv.B == tYes && !pol || cv.B == tNo && pol {
			return false
		}
	}
	switch x := cond.(type) {
	case *ssa.UnOp:
		if x.Op == token.NOT {
			return ai.assume(x.X, !pol, s)
		}
	case *ssa.BinOp:
		a, b := ai.val(x.X, s), ai.val(x.Y, s)
		switch {
		case a.K == 'i' && b.K == 'i':
			na := refineIv(x.Op, a, b, pol)
			if !na.LoInf && !na.HiInf && na.Lo > na.Hi {
				return false
			}
			ai.setFact(x.X, na, s)
			// mirror for the right operand
			rop := map[token.Token]token.Token{token.LSS: token.GTR, token.LEQ: token.GEQ, token.GTR: token.LSS, token.GEQ: token.LEQ, token.EQL: token.EQL, token.NEQ: token.NEQ}[x.Op]
			nb := refineIv(rop, b, a, pol)
			if !nb.LoInf && !nb.HiInf && nb.Lo > nb.Hi {
				return false
			}
			if _, isC := x.Y.(*ssa.Const); !isC {
				ai.setFact(x.Y, nb, s)
			}
			// len(s) compared with 0 tells emptiness
			ai.lenFact(x.X, na, s)
		case a.K == 'p' && b.K == 'p' && (x.Op == token.EQL || x.Op == token.NEQ):
			isEq := (x.Op == token.EQL) == pol
			if b.Nil == tYes {
				n := a.clone()
				if isEq {
					n.Nil = tYes
				} else {
					n.Nil = tNo
				}
				ai.setFact(x.X, n, s)
			} else if a.Nil == tYes {
				n := b.clone()
				if isEq {
					n.Nil = tYes
				} else {
					n.Nil = tNo
				}
				ai.setFact(x.Y, n, s)
			}
		case a.K == 's' && b.K == 's' && (x.Op == token.EQL || x.Op == token.NEQ):
			isEq := (x.Op == token.EQL) == pol
			if b.Empty == tYes {
				n := a.clone()
				if isEq {
					n.Empty = tYes
				} else {
					n.Empty = tNo
				}
				ai.setFact(x.X, n, s)
			} else if b.Empty == tNo && isEq {
				n := a.clone()
				n.Empty = tNo
				ai.setFact(x.X, n, s)
			}
		case a.K == 'b' && b.K == 'b':
			if b.B != tUnknown {
				want := (x.Op == token.EQL) == pol
				if (b.B == tYes) == want {
					return ai.assume(x.X, true, s)
				}
				return ai.assume(x.X, false, s)
			}
		}
	case *ssa.Call:
		if cv != nil && cv.Link != nil {
			lk := cv.Link
			cur := s.mem[lk.loc]
			switch lk.kind {
			case "iszero":
				n := &AV{K: 't', Taint: true}
				if cur != nil {
					n = cur.clone()
				}
				if pol {
					n.Zero = tYes
				} else {
					n.Zero = tNo
				}
				s.mem[lk.loc] = n
				if lk.val != nil {
					v2 := n.clone()
					v2.Loc = lk.loc
					s.vals[lk.val] = v2
				}
			case "validname":
				if pol {
					n := &AV{K: 's', Taint: true}
					if cur != nil {
						n = cur.clone()
					}
					n.Empty = tNo
					if lk.loc != "" {
						s.mem[lk.loc] = n
					}
					if lk.val != nil {
						v2 := n.clone()
						v2.Loc = lk.loc
						s.vals[lk.val] = v2
					}
				}
			}
		}
	}
	nb := &AV{K: 'b'}
	if cv != nil {
		nb = cv.clone()
	}
	if pol {
		nb.B = tYes
	} else {
		nb.B = tNo
	}
	s.vals[cond] = nb
	return true
}

// lenFact: v = len(x) refined to an interval excluding/including 0 tells x's emptiness.
func (ai *AI) lenFact(v ssa.Value, iv *AV, s *aiState) {
	call, ok := v.(*ssa.Call)
	if !ok {
		return
	}
	bi, ok := call.Call.Value.(*ssa.Builtin)
	if !ok || bi.Name() != "len" {
		return
	}
	arg := call.Call.Args[0]
	a := ai.val(arg, s).clone()
	if a.K != 's' {
		return
	}
	if !iv.LoInf && iv.Lo >= 1 {
		a.Empty = tNo
	} else if !iv.HiInf && iv.Hi <= 0 {
		a.Empty = tYes
	} else {
		return
	}
	ai.setFact(arg, a, s)
}

// ---------------------------------------------------------------------------
// calls

var nilSafeMethods = map[string]string{
	"AsDuration":   "(*durationpb.Duration).AsDuration returns 0 for a nil receiver",
	"AsTime":       "(*timestamppb.Timestamp).AsTime returns the Unix epoch for a nil receiver",
	"CheckValid":   "protobuf well-known types: CheckValid reports an error for a nil receiver",
	"IsValid":      "protobuf well-known types: IsValid is false for a nil receiver",
	"String":       "protobuf generated String() is nil-safe",
	"ProtoReflect": "nil-safe by construction",
}

func (ai *AI) call(fn *ssa.Function, call *ssa.Call, s *aiState) {
	com := call.Common()
	var args []*AV
	taint := false
	for _, a := range com.Args {
		v := ai.val(a, s)
		args = append(args, v)
		if v != nil && v.Taint {
			taint = true
		}
	}
	res := topOf(call.Type(), taint)
	if tup, ok := call.Type().(*types.Tuple); ok {
		res = &AV{K: 'S', F: map[string]*AV{}, Taint: taint}
		for i := 0; i < tup.Len(); i++ {
			res.F[string(rune('0'+i))] = topOf(tup.At(i).Type(), taint)
		}
	}
	defer func() { s.vals[call] = res }()
	if bi, ok := com.Value.(*ssa.Builtin); ok {
		switch bi.Name() {
		case "len", "cap":
			res = &AV{K: 'i', Lo: 0, HiInf: true, Taint: taint}
			if args[0] != nil && args[0].K == 's' {
				if args[0].Empty == tYes {
					res.Hi, res.HiInf = 0, false
				} else if args[0].Empty == tNo {
					res.Lo = 1
				}
			}
		case "append":
			res = &AV{K: 'p', Taint: taint, Nil: tUnknown}
		case "min", "max":
			// interval arithmetic of the builtins (integers only; other kinds stay ⊤)
			allInt := len(args) > 0
			for _, a := range args {
				if a == nil || a.K != 'i' {
					allInt = false
				}
			}
			if allInt {
				out := args[0].clone()
				for _, a := range args[1:] {
					n := &AV{K: 'i', Taint: out.Taint || a.Taint}
					if bi.Name() == "min" {
						// lower bound: min of lower bounds (−inf if any is); upper bound: min of upper bounds (finite if any is)
						n.LoInf = out.LoInf || a.LoInf
						if !n.LoInf {
							n.Lo = out.Lo
							if a.Lo < n.Lo {
								n.Lo = a.Lo
							}
						}
						switch {
						case out.HiInf && a.HiInf:
							n.HiInf = true
						case out.HiInf:
							n.Hi = a.Hi
						case a.HiInf:
							n.Hi = out.Hi
						default:
							n.Hi = out.Hi
							if a.Hi < n.Hi {
								n.Hi = a.Hi
							}
						}
					} else {
						n.HiInf = out.HiInf || a.HiInf
						if !n.HiInf {
							n.Hi = out.Hi
							if a.Hi > n.Hi {
								n.Hi = a.Hi
							}
						}
						switch {
						case out.LoInf && a.LoInf:
							n.LoInf = true
						case out.LoInf:
							n.Lo = a.Lo
						case a.LoInf:
							n.Lo = out.Lo
						default:
							n.Lo = out.Lo
							if a.Lo > n.Lo {
								n.Lo = a.Lo
							}
						}
					}
					out = n
				}
				res = out
			}
		}
		return
	}
	if com.IsInvoke() {
		// interface method call: escaping pointers lose their facts
		ai.escape(com.Args, s)
		if com.Method.Name() == "Recv" {
			// a message received on a stream is a (non-nil on success) request
			if tup, ok := call.Type().(*types.Tuple); ok && tup.Len() == 2 {
				res = &AV{K: 'S', Taint: true, F: map[string]*AV{"0": {K: 'p', Nil: tNo, Taint: true}, "1": topOf(tup.At(1).Type(), false)}}
			}
		}
		return
	}
	cal := com.StaticCallee()
	if cal == nil {
		ai.escape(com.Args, s)
		return
	}
	name := cal.Name()
	pkg := fnPkgPath(cal)
	// methods on possibly-nil request sub-messages
	if cal.Signature.Recv() != nil && len(args) > 0 && args[0] != nil && args[0].K == 'p' && args[0].Taint && args[0].Nil != tNo {
		_, safe := nilSafeMethods[name]
		if strings.HasPrefix(name, "Get") && isProtoPkg(pkg) {
			safe = true // protobuf-generated getters check the receiver
		}
		if !safe && len(cal.Blocks) == 0 && isProtoMsgPtr(com.Args[0].Type()) {
			ai.report("nilderef", call.Pos(), fn, "method "+name+" is called on a request sub-message that may be absent ("+args[0].Loc+")")
		}
	}
	switch {
	case pkg == "time" && name == "IsZero" && len(args) == 1:
		res = &AV{K: 'b', Taint: args[0].Taint}
		switch args[0].Zero {
		case tYes:
			res.B = tYes
		case tNo:
			res.B = tNo
		}
		loc := args[0].Loc
		if loc == "" {
			loc = "V:" + com.Args[0].Name()
		}
		res.Link = &predLnk{kind: "iszero", loc: loc, val: com.Args[0]}
		return
	case pkg == "time" && name == "Now":
		res = &AV{K: 't', Zero: tNo}
		return
	case pkg == "errors" && name == "New", pkg == "fmt" && name == "Errorf",
		strings.HasSuffix(pkg, "google.golang.org/grpc/status") && (name == "Error" || name == "Errorf"):
		// constructors of errors never return nil (status.Error does for codes.OK only, which C09.8 excludes)
		res = &AV{K: 'p', Nil: tNo, Taint: taint}
		return
	case strings.HasPrefix(name, "isValid") && strings.HasSuffix(name, "Name") && ai.c.inModule(cal) && len(args) == 1:
		// confirmed from the bodies: four non-empty segments => the whole string is non-empty
		res = &AV{K: 'b', Taint: args[0].Taint}
		loc := args[0].Loc
		res.Link = &predLnk{kind: "validname", loc: loc, val: com.Args[0]}
		return
	case strings.HasPrefix(name, "Get") && cal.Signature.Recv() != nil && isProtoPkg(pkg):
		// generated getter: the field of the receiver, or the zero value when the receiver is nil
		f := strings.TrimPrefix(name, "Get")
		base := args[0]
		loc := ""
		if base != nil {
			loc = ai.ptrKey(com.Args[0], s) + "." + f
		}
		if m, ok := s.mem[loc]; ok && base.Nil == tNo {
			res = m.clone()
			res.Loc = loc
		} else {
			res = topOf(call.Type(), true)
			if base != nil && base.Nil == tNo {
				res.Loc = loc
			}
		}
		res.Taint = base == nil || base.Taint
		if base != nil && base.Nil != tNo {
			rl := base.Loc
			res.Link = &predLnk{kind: "getter", loc: rl, val: com.Args[0]}
		}
		return
	}
	if ai.c.inModule(cal) && len(cal.Blocks) > 0 && ai.depth < 4 && ai.Inline != nil && ai.Inline(cal, call, args) {
		res = ai.inline(cal, call, args, s)
		return
	}
	ai.escape(com.Args, s)
}

// escape: a callee we do not look into may write through pointers to local cells.
func (ai *AI) escape(args []ssa.Value, s *aiState) {
	for _, a := range args {
		var root string
		switch x := a.(type) {
		case *ssa.Alloc:
			root = ai.locKey(x, s)
		case *ssa.FieldAddr, *ssa.IndexAddr:
			root = ai.locKey(a, s)
		default:
			continue
		}
		for k := range s.mem {
			if k == root || strings.HasPrefix(k, root+".") {
				delete(s.mem, k)
			}
		}
	}
}

// inline analyses a module-local callee with the caller's abstract arguments.
func (ai *AI) inline(cal *ssa.Function, call *ssa.Call, args []*AV, s *aiState) *AV {
	ai.depth++
	defer func() { ai.depth-- }()
	if os.Getenv("MB_DEBUG_AI") != "" {
		var as []string
		for _, a := range args {
			as = append(as, a.String())
		}
		fmt.Fprintf(os.Stderr, "inline %s(%s)\n", cal.Name(), strings.Join(as, ", "))
	}
	entry := &aiState{vals: map[ssa.Value]*AV{}, mem: map[string]*AV{}}
	// the callee sees the caller's memory (locations are globally keyed)
	for k, v := range s.mem {
		entry.mem[k] = v
	}
	for i, p := range cal.Params {
		if i < len(args) && args[i] != nil {
			a := args[i].clone()
			entry.vals[p] = a
			// a pointer parameter aliases the caller's object: map its pointee key
			if a.K == 'p' {
				pk := "P:" + cal.Name() + "." + p.Name()
				ck := ai.ptrKey(call.Call.Args[i], s)
				// the pointee stored as one struct value (`*t0 = params`): its fields are the callee's field cells
				if whole := s.mem[ck]; whole != nil && whole.K == 'S' {
					var expand func(prefix string, v *AV, d int)
					expand = func(prefix string, v *AV, d int) {
						if v == nil || d > 3 {
							return
						}
						for fname, fv := range v.F {
							if _, has := entry.mem[prefix+"."+fname]; !has {
								entry.mem[prefix+"."+fname] = fv
							}
							if fv != nil && fv.K == 'S' {
								expand(prefix+"."+fname, fv, d+1)
							}
						}
					}
					expand(pk, whole, 0)
				}
				for k, v := range s.mem {
					if strings.HasPrefix(k, ck+".") {
						entry.mem[pk+k[len(ck):]] = v
					}
				}
				if a.Taint {
					if ai.taintRoots == nil {
						ai.taintRoots = map[string]bool{}
					}
					ai.taintRoots[pk] = true
				}
			}
		}
	}
	// free variables of a closure: nothing to bind, locations are keyed by the parent's cells
	savedForks := ai.forks
	rets := ai.Run(cal, entry)
	ai.forks = savedForks
	// a validator-like callee: keep its outcomes apart (first one continues in place, the others fork)
	if verdictLike(cal) && len(rets) >= 2 {
		// one outcome per return INSTRUCTION (the states that reach it are joined)
		var order []*ssa.Return
		var all []outcome
		byRet := map[*ssa.Return]*outcome{}
		for _, r := range rets {
			ret := r.ret
			var v *AV
			if len(ret.Results) == 1 {
				v = ai.val(ret.Results[0], r.s).clone()
			} else if len(ret.Results) > 1 {
				v = &AV{K: 'S', F: map[string]*AV{}}
				for i, rv := range ret.Results {
					v.F[string(rune('0'+i))] = ai.val(rv, r.s).clone()
				}
			}
			if v == nil {
				continue
			}
			v.Loc = ""
			o := outcome{val: v, cal: cal, params: map[int]*AV{}, mem: map[string]*AV{}}
			for i, p := range cal.Params {
				if pv := r.s.vals[p]; pv != nil && pv.K != 'p' {
					o.params[i] = pv.clone()
				}
				if i < len(args) && args[i] != nil && args[i].K == 'p' {
					pk := "P:" + cal.Name() + "." + p.Name()
					ck := ai.ptrKey(call.Call.Args[i], s)
					for k, mv := range r.s.mem {
						if strings.HasPrefix(k, pk+".") {
							o.mem[ck+k[len(pk):]] = mv
						}
					}
				}
			}
			// keep distinct outcomes of one return apart while they are few (correlated fields of a result struct)
			all = append(all, o)
			if prev, ok := byRet[ret]; ok {
				if j := joinAV(prev.val, o.val); j != nil {
					prev.val = j
				}
				for i, pv := range prev.params {
					if nv, ok := o.params[i]; ok {
						if j := joinAV(pv, nv); j != nil {
							prev.params[i] = j
							continue
						}
					}
					delete(prev.params, i)
				}
				for k, mv := range prev.mem {
					if nv, ok := o.mem[k]; ok {
						if j := joinAV(mv, nv); j != nil {
							prev.mem[k] = j
							continue
						}
					}
					delete(prev.mem, k)
				}
			} else {
				oc := o
				byRet[ret] = &oc
				order = append(order, ret)
			}
		}
		var outs []outcome
		// distinct states, if few; else one (joined) outcome per return instruction
		seenOut := map[string]bool{}
		for _, o := range all {
			k := o.val.String()
			for i := 0; i < len(cal.Params); i++ {
				if pv, ok := o.params[i]; ok {
					k += "|" + pv.String()
				}
			}
			if !seenOut[k] {
				seenOut[k] = true
				outs = append(outs, o)
			}
		}
		if len(outs) > 80 {
			outs = nil
			for _, ret := range order {
				outs = append(outs, *byRet[ret])
			}
		}
		if os.Getenv("MB_DEBUG_AI") != "" {
			fmt.Fprintf(os.Stderr, "  %s: %d return states, %d distinct, %d return instrs\n", cal.Name(), len(rets), len(seenOut), len(order))
			for _, o := range outs {
				fmt.Fprintf(os.Stderr, "  outcome of %s: %s\n", cal.Name(), o.val.String())
			}
		}
		if len(outs) >= 2 && len(outs) <= 80 {
			ai.applyOutcome(call, outs[0], s)
			ai.forks = append(ai.forks, outs[1:]...)
			return outs[0].val
		}
	}
	var out *AV
	for _, r := range rets {
		ret := r.ret
		var v *AV
		if len(ret.Results) == 1 {
			v = ai.val(ret.Results[0], r.s)
		} else if len(ret.Results) > 1 {
			v = &AV{K: 'S', F: map[string]*AV{}}
			for i, rv := range ret.Results {
				v.F[string(rune('0'+i))] = ai.val(rv, r.s)
			}
		}
		if v != nil {
			if out == nil {
				out = v.clone()
			} else {
				out = joinAV(out, v)
			}
		}
	}
	if out == nil {
		out = topOf(call.Type(), false)
	}
	out.Loc = ""
	return out
}

// outcome: one way an inlined callee returned: its result and what it established about its arguments.
type outcome struct {
	val    *AV
	cal    *ssa.Function
	params map[int]*AV    // refined facts about non-pointer arguments, by parameter index
	mem    map[string]*AV // refined facts about memory reached through pointer arguments (caller's keys)
}

func (ai *AI) applyOutcome(call *ssa.Call, o outcome, s *aiState) {
	s.vals[call] = o.val
	for i, pv := range o.params {
		if i < len(call.Call.Args) {
			a := call.Call.Args[i]
			cur := ai.val(a, s)
			nv := pv.clone()
			if cur != nil {
				nv.Loc, nv.Link = cur.Loc, cur.Link
			}
			ai.setFact(a, nv, s)
		}
	}
	for k, v := range o.mem {
		s.mem[k] = v
	}
}

// verdictLike: the callee reports a verdict — a bool or an error among its results.
func verdictLike(f *ssa.Function) bool {
	res := f.Signature.Results()
	for i := 0; i < res.Len(); i++ {
		t := res.At(i).Type()
		if isErrorType(t) {
			return true
		}
		if bt, ok := t.Underlying().(*types.Basic); ok && bt.Kind() == types.Bool {
			return true
		}
	}
	return false
}

func isProtoMsgPtr(t types.Type) bool {
	pt, ok := t.Underlying().(*types.Pointer)
	if !ok {
		return false
	}
	el := pt.Elem()
	if al, isAlias := el.(*types.Alias); isAlias {
		// the repo re-exports the Google messages through aliases
		if al.Obj().Pkg() != nil && isProtoPkg(al.Obj().Pkg().Path()) {
			_, isStruct := al.Underlying().(*types.Struct)
			return isStruct
		}
		el = types.Unalias(el)
	}
	n, ok := el.(*types.Named)
	if !ok || n.Obj().Pkg() == nil {
		return false
	}
	if _, isStruct := n.Underlying().(*types.Struct); !isStruct {
		return false
	}
	return isProtoPkg(n.Obj().Pkg().Path())
}

func isProtoPkg(p string) bool {
	return strings.Contains(p, "pubsubpb") || strings.HasPrefix(p, "google.golang.org/protobuf/types/known/") || strings.HasPrefix(p, "google.golang.org/genproto")
}

package main

// K3 LockSet: forward must-analysis of held mutexes per function.

import (
	"go/token"
	"go/types"
	"strings"

	"golang.org/x/tools/go/ssa"
)

type lockInfo struct {
	fn   *ssa.Function
	in   map[*ssa.BasicBlock]map[string]bool
	keys map[string]bool
}

// mutexKey: canonical key of the mutex whose address is v.
func mutexKey(v ssa.Value) string {
	v = strip(v)
	switch x := v.(type) {
	case *ssa.Global:
		return "g:" + x.Name()
	case *ssa.Alloc:
		return "l:" + top(x.Parent()).Name() + "." + x.Comment
	case *ssa.FreeVar:
		if b := freeVarBinding(x); b != nil {
			return mutexKey(b)
		}
		return "fv:" + x.Name()
	case *ssa.Parameter:
		// a mutex handed to a private helper by its only caller
		if a := uniqueCallerArg(x); a != nil {
			return mutexKey(a)
		}
	case *ssa.FieldAddr:
		tn := "?"
		if n := namedOf(x.X.Type()); n != nil {
			tn = n.Obj().Name()
		}
		return "f:" + tn + "." + fieldName(x.X.Type(), x.Field)
	case *ssa.UnOp:
		if x.Op == token.MUL {
			return mutexKey(x.X)
		}
	}
	return "?:" + v.Name()
}

// lockOp: is this call Lock/Unlock/RLock/RUnlock on a sync mutex? returns key and op.
func lockOp(ci ssa.CallInstruction) (key, op string, ok bool) {
	cal := ci.Common().StaticCallee()
	if cal == nil || cal.Signature.Recv() == nil || fnPkgPath(cal) != "sync" {
		return "", "", false
	}
	n := namedOf(cal.Signature.Recv().Type())
	if n == nil || (n.Obj().Name() != "Mutex" && n.Obj().Name() != "RWMutex") {
		return "", "", false
	}
	switch cal.Name() {
	case "Lock", "Unlock", "RLock", "RUnlock":
		return mutexKey(ci.Common().Args[0]), cal.Name(), true
	}
	return "", "", false
}

func transfer(state map[string]bool, in ssa.Instruction) {
	ci, ok := in.(*ssa.Call)
	if !ok {
		return
	}
	key, op, isLock := lockOp(ci)
	if !isLock {
		return
	}
	switch op {
	case "Lock":
		state[key] = true
		state[key+"#r"] = true
	case "RLock":
		state[key+"#r"] = true
	case "Unlock":
		delete(state, key)
		delete(state, key+"#r")
	case "RUnlock":
		delete(state, key+"#r")
	}
}

func lockSets(fn *ssa.Function) *lockInfo { return lockSetsD(fn, 0) }

func lockSetsD(fn *ssa.Function, depth int) *lockInfo {
	li := &lockInfo{fn: fn, in: map[*ssa.BasicBlock]map[string]bool{}, keys: map[string]bool{}}
	if len(fn.Blocks) == 0 {
		return li
	}
	for _, b := range fn.Blocks {
		for _, in := range b.Instrs {
			if ci, ok := in.(*ssa.Call); ok {
				if k, _, ok := lockOp(ci); ok {
					li.keys[k] = true
					li.keys[k+"#r"] = true
				}
			}
		}
	}
	full := func() map[string]bool {
		m := map[string]bool{}
		for k := range li.keys {
			m[k] = true
		}
		return m
	}
	for _, b := range fn.Blocks {
		li.in[b] = full()
	}
	li.in[fn.Blocks[0]] = entryLocks(fn, depth)
	for k := range li.in[fn.Blocks[0]] {
		li.keys[k] = true
	}
	for _, b := range fn.Blocks[1:] {
		for k := range li.in[fn.Blocks[0]] {
			li.in[b][k] = true
		}
	}
	changed := true
	for changed {
		changed = false
		for _, b := range fn.Blocks {
			if b != fn.Blocks[0] {
				var meet map[string]bool
				for _, p := range b.Preds {
					out := map[string]bool{}
					for k := range li.in[p] {
						out[k] = true
					}
					for _, in := range p.Instrs {
						transfer(out, in)
					}
					if meet == nil {
						meet = out
					} else {
						for k := range meet {
							if !out[k] {
								delete(meet, k)
							}
						}
					}
				}
				if meet == nil {
					meet = map[string]bool{}
				}
				if len(meet) != len(li.in[b]) {
					changed = true
				} else {
					for k := range meet {
						if !li.in[b][k] {
							changed = true
						}
					}
				}
				li.in[b] = meet
			}
		}
	}
	return li
}

// entryLocks: the locks certainly held whenever fn starts — for an unexported function or method that is only ever
// called directly (never started with go, deferred, or used as a value), the intersection of what its callers hold
// at their call sites ("…Locked" helpers). Everything else starts with nothing held.
func entryLocks(fn *ssa.Function, depth int) map[string]bool {
	out := map[string]bool{}
	c := lastCtx
	if c == nil || depth > 2 || fn.Parent() != nil || fn.Object() == nil || fn.Object().Exported() || len(c.valueUses(fn)) > 0 {
		return out
	}
	first := true
	for _, ci := range c.callersOf(fn) {
		if c.FnInControl(ci.Parent()) {
			continue
		}
		if _, isCall := ci.(*ssa.Call); !isCall {
			return map[string]bool{} // go / defer: runs when the caller's locks may be gone
		}
		caller := ci.Parent()
		var held map[string]bool
		if caller == fn {
			continue
		}
		li := lockSetsD(caller, depth+1)
		held = li.heldAt(ci)
		if first {
			for k := range held {
				out[k] = true
			}
			first = false
		} else {
			for k := range out {
				if !held[k] {
					delete(out, k)
				}
			}
		}
	}
	if first {
		return map[string]bool{}
	}
	return out
}

// heldAt: the locks certainly held just before instruction `at`.
func (li *lockInfo) heldAt(at ssa.Instruction) map[string]bool {
	b := at.Block()
	st := map[string]bool{}
	for k := range li.in[b] {
		st[k] = true
	}
	for _, in := range b.Instrs {
		if in == at {
			break
		}
		transfer(st, in)
	}
	return st
}

// ---------------------------------------------------------------------------
// guarded access collection

type access struct {
	instr ssa.Instruction
	write bool
	what  string
}

// mapAccesses: operations on map values that derive from `roots` within fn (lookups, updates, ranges, len, delete),
// following inner maps obtained by lookup/range.
func mapAccesses(fn *ssa.Function, isRoot func(v ssa.Value) bool) []access {
	guarded := map[ssa.Value]bool{}
	var out []access
	for _, p := range fn.Params {
		if isRoot(p) {
			guarded[p] = true
		}
	}
	// arrays (slice literals) that hold guarded maps
	holder := map[ssa.Value]bool{}
	// fixpoint over values derived from roots
	changed := true
	for changed {
		changed = false
		for _, b := range fn.Blocks {
			for _, in := range b.Instrs {
				if st, ok := in.(*ssa.Store); ok && guarded[st.Val] {
					if ia, ok := st.Addr.(*ssa.IndexAddr); ok && !holder[ia.X] {
						holder[ia.X], changed = true, true
					}
				}
				v, isV := in.(ssa.Value)
				if !isV || guarded[v] {
					continue
				}
				if isRoot(v) {
					guarded[v], changed = true, true
					continue
				}
				switch x := in.(type) {
				case *ssa.UnOp:
					// element of a slice literal holding guarded maps
					if x.Op == token.MUL && isMapType(x.Type()) {
						if ia, ok := x.X.(*ssa.IndexAddr); ok {
							base := ia.X
							if sl, ok := base.(*ssa.Slice); ok {
								base = sl.X
							}
							if holder[base] {
								guarded[v], changed = true, true
							}
						}
					}
				case *ssa.Lookup:
					if guarded[x.X] && isMapType(x.Type()) {
						guarded[v], changed = true, true
					}
				case *ssa.Extract:
					// value of a comma-ok lookup or range next
					if lk, ok := x.Tuple.(*ssa.Lookup); ok && guarded[lk.X] && isMapType(x.Type()) {
						guarded[v], changed = true, true
					}
					if nx, ok := x.Tuple.(*ssa.Next); ok {
						if rg, ok := nx.Iter.(*ssa.Range); ok && guarded[rg.X] && isMapType(x.Type()) {
							guarded[v], changed = true, true
						}
					}
				case *ssa.Phi:
					for _, e := range x.Edges {
						if guarded[e] && isMapType(x.Type()) {
							guarded[v], changed = true, true
						}
					}
				}
			}
		}
	}
	_ = holder
	for _, b := range fn.Blocks {
		for _, in := range b.Instrs {
			switch x := in.(type) {
			case *ssa.Lookup:
				if guarded[x.X] {
					out = append(out, access{in, false, "lookup"})
				}
			case *ssa.MapUpdate:
				if guarded[x.Map] {
					out = append(out, access{in, true, "update"})
				}
			case *ssa.Range:
				if guarded[x.X] {
					out = append(out, access{in, false, "range"})
				}
			case *ssa.Call:
				if bi, ok := x.Call.Value.(*ssa.Builtin); ok {
					switch bi.Name() {
					case "len":
						if guarded[x.Call.Args[0]] {
							out = append(out, access{in, false, "len"})
						}
					case "delete":
						if guarded[x.Call.Args[0]] {
							out = append(out, access{in, true, "delete"})
						}
					}
				}
			}
		}
	}
	return out
}

func isMapType(t types.Type) bool {
	_, ok := t.Underlying().(*types.Map)
	return ok
}

// cellAccesses: loads and stores of a captured/local cell named `name` created in function `owner`
// (matched through free-variable bindings), inside fn.
func cellAccesses(fn *ssa.Function, owner *ssa.Function, name string) []access {
	var out []access
	isCell := func(v ssa.Value) bool { return cellOf(v, owner, name) }
	_ = func(v ssa.Value) bool {
		for i := 0; i < 10; i++ {
			switch x := v.(type) {
			case *ssa.Alloc:
				return x.Parent() == owner && x.Comment == name
			case *ssa.FreeVar:
				b := freeVarBinding(x)
				if b == nil {
					return false
				}
				v = b
				continue
			}
			return false
		}
		return false
	}
	for _, b := range fn.Blocks {
		for _, in := range b.Instrs {
			switch x := in.(type) {
			case *ssa.UnOp:
				if x.Op == token.MUL && isCell(x.X) {
					out = append(out, access{in, false, "load " + name})
				}
			case *ssa.Store:
				if isCell(x.Addr) {
					out = append(out, access{in, true, "store " + name})
				}
				if fa, ok := x.Addr.(*ssa.FieldAddr); ok && isCell(fa.X) {
					out = append(out, access{in, true, "store " + name + "." + fieldName(fa.X.Type(), fa.Field)})
				}
			case *ssa.FieldAddr:
				if isCell(x.X) {
					// field read of the struct cell (loads through it are covered by their own UnOp)
					if refs := x.Referrers(); refs != nil {
						for _, r := range *refs {
							if u, ok := r.(*ssa.UnOp); ok && u.Op == token.MUL {
								out = append(out, access{u, false, "load " + name + "." + fieldName(x.X.Type(), x.Field)})
							}
						}
					}
				}
			}
		}
	}
	return out
}

// fieldAccesses: loads/stores of field `field` of struct type `typ` in fn.
func fieldAccesses(fn *ssa.Function, pkgPath, typ, field string) []access {
	var out []access
	for _, b := range fn.Blocks {
		for _, in := range b.Instrs {
			fa, ok := in.(*ssa.FieldAddr)
			if !ok || !typeIs(fa.X.Type(), pkgPath, typ) || fieldName(fa.X.Type(), fa.Field) != field {
				continue
			}
			if refs := fa.Referrers(); refs != nil {
				for _, r := range *refs {
					switch y := r.(type) {
					case *ssa.UnOp:
						if y.Op == token.MUL {
							out = append(out, access{y, false, "load " + typ + "." + field})
						}
					case *ssa.Store:
						if y.Addr == ssa.Value(fa) {
							out = append(out, access{y, true, "store " + typ + "." + field})
						}
					case *ssa.Call:
						// address passed to sync/atomic etc.: not a plain access
					}
				}
			}
		}
	}
	return out
}

func keysString(m map[string]bool) string {
	var ks []string
	for k := range m {
		if !strings.HasSuffix(k, "#r") {
			ks = append(ks, k)
		}
	}
	return strings.Join(ks, ",")
}

package main

import (
	"go/ast"
	"go/token"
	"os"
	"path/filepath"
	"regexp"
	"sort"
	"strings"
)

// K8 tables: foreign keys / unique indexes of the generated ent migrate schema
// (composite literals) and of the SQL migrations.

type fkDef struct {
	Table    string
	Symbol   string
	Column   string
	RefTable string
	OnDelete string // NoAction | SetNull | Cascade | Restrict | SetDefault
	Pos      token.Pos
}

type idxDef struct {
	Table   string
	Name    string
	Unique  bool
	Columns []string
	Pos     token.Pos
}

// entSchemaTables parses ent/migrate/schema.go.
func (c *Ctx) entSchema() (fks []fkDef, idx []idxDef, ok bool) {
	p := c.PkgByPath[entPkg+"/migrate"]
	if p == nil {
		return nil, nil, false
	}
	cols := map[string][]string{} // XColumns -> column names
	tableOfCols := map[string]string{}
	var tables []*ast.ValueSpec
	for _, f := range p.Syntax {
		for _, d := range f.Decls {
			gd, isG := d.(*ast.GenDecl)
			if !isG || gd.Tok != token.VAR {
				continue
			}
			for _, sp := range gd.Specs {
				vs := sp.(*ast.ValueSpec)
				for i, n := range vs.Names {
					if i >= len(vs.Values) {
						continue
					}
					if strings.HasSuffix(n.Name, "Columns") {
						if cl, isCL := vs.Values[i].(*ast.CompositeLit); isCL {
							for _, el := range cl.Elts {
								if ecl, ok := el.(*ast.CompositeLit); ok {
									cols[n.Name] = append(cols[n.Name], kvString(ecl, "Name"))
								}
							}
						}
					}
					if strings.HasSuffix(n.Name, "Table") {
						tables = append(tables, vs)
					}
				}
			}
		}
	}
	colRef := func(e ast.Expr) (string, string) {
		// DeliveriesColumns[7]
		ix, ok := e.(*ast.IndexExpr)
		if !ok {
			return "", ""
		}
		id, ok := ix.X.(*ast.Ident)
		if !ok {
			return "", ""
		}
		lit, ok := ix.Index.(*ast.BasicLit)
		if !ok {
			return id.Name, ""
		}
		n := 0
		for _, ch := range lit.Value {
			n = n*10 + int(ch-'0')
		}
		if n < len(cols[id.Name]) {
			return id.Name, cols[id.Name][n]
		}
		return id.Name, ""
	}
	for _, vs := range tables {
		for i := range vs.Names {
			if i >= len(vs.Values) {
				continue
			}
			var cl *ast.CompositeLit
			if u, ok := vs.Values[i].(*ast.UnaryExpr); ok {
				cl, _ = u.X.(*ast.CompositeLit)
			}
			if cl == nil {
				continue
			}
			tname := kvString(cl, "Name")
			if ce := kvExpr(cl, "Columns"); ce != nil {
				if id, ok := ce.(*ast.Ident); ok {
					tableOfCols[id.Name] = tname
				}
			}
		}
	}
	for _, vs := range tables {
		for i := range vs.Names {
			if i >= len(vs.Values) {
				continue
			}
			var cl *ast.CompositeLit
			if u, ok := vs.Values[i].(*ast.UnaryExpr); ok {
				cl, _ = u.X.(*ast.CompositeLit)
			}
			if cl == nil {
				continue
			}
			tname := kvString(cl, "Name")
			if fe, ok := kvExpr(cl, "ForeignKeys").(*ast.CompositeLit); ok {
				for _, el := range fe.Elts {
					fcl, ok := el.(*ast.CompositeLit)
					if !ok {
						continue
					}
					d := fkDef{Table: tname, Symbol: kvString(fcl, "Symbol"), Pos: fcl.Pos(), OnDelete: "NoAction"}
					if cs, ok := kvExpr(fcl, "Columns").(*ast.CompositeLit); ok && len(cs.Elts) > 0 {
						_, d.Column = colRef(cs.Elts[0])
					}
					if cs, ok := kvExpr(fcl, "RefColumns").(*ast.CompositeLit); ok && len(cs.Elts) > 0 {
						v, _ := colRef(cs.Elts[0])
						d.RefTable = tableOfCols[v]
					}
					if se, ok := kvExpr(fcl, "OnDelete").(*ast.SelectorExpr); ok {
						d.OnDelete = se.Sel.Name
					}
					fks = append(fks, d)
				}
			}
			if ie, ok := kvExpr(cl, "Indexes").(*ast.CompositeLit); ok {
				for _, el := range ie.Elts {
					icl, ok := el.(*ast.CompositeLit)
					if !ok {
						continue
					}
					d := idxDef{Table: tname, Name: kvString(icl, "Name"), Pos: icl.Pos()}
					if id, ok := kvExpr(icl, "Unique").(*ast.Ident); ok && id.Name == "true" {
						d.Unique = true
					}
					if cs, ok := kvExpr(icl, "Columns").(*ast.CompositeLit); ok {
						for _, ce := range cs.Elts {
							_, cn := colRef(ce)
							d.Columns = append(d.Columns, cn)
						}
					}
					idx = append(idx, d)
				}
			}
		}
	}
	return fks, idx, len(tables) > 0
}

func kvExpr(cl *ast.CompositeLit, key string) ast.Expr {
	for _, el := range cl.Elts {
		if kv, ok := el.(*ast.KeyValueExpr); ok {
			if id, ok := kv.Key.(*ast.Ident); ok && id.Name == key {
				return kv.Value
			}
		}
	}
	return nil
}

func kvString(cl *ast.CompositeLit, key string) string {
	if bl, ok := kvExpr(cl, key).(*ast.BasicLit); ok && bl.Kind == token.STRING {
		return strings.Trim(bl.Value, "\"`")
	}
	return ""
}

// ---- SQL migrations (data the PostgreSQL deployment is built from)

type sqlFK struct {
	Table, Column, RefTable, OnDelete, File string
}

type sqlUnique struct {
	Table   string
	Columns []string
	File    string
	Name    string
}

var (
	reCreateTable = regexp.MustCompile(`(?is)create\s+table\s+(?:if\s+not\s+exists\s+)?"?(\w+)"?\s*\((.*?)\)\s*;`)
	reFKInline    = regexp.MustCompile(`(?is)foreign\s+key\s*\(\s*"?(\w+)"?\s*\)\s*references\s+"?(\w+)"?\s*(?:\(\s*"?\w+"?\s*\))?([^,]*)`)
	reAlter       = regexp.MustCompile(`(?is)alter\s+table\s+(?:only\s+)?"?(\w+)"?\s+(.*?);`)
	reAddColRef   = regexp.MustCompile(`(?is)add\s+column\s+(?:if\s+not\s+exists\s+)?"?(\w+)"?\s+\w+[^,]*?references\s+"?(\w+)"?\s*(?:\(\s*"?\w+"?\s*\))?([^,]*)`)
	reAddFK       = regexp.MustCompile(`(?is)add\s+constraint\s+"?(\w+)"?\s+foreign\s+key\s*\(\s*"?(\w+)"?\s*\)\s*references\s+"?(\w+)"?\s*(?:\(\s*"?\w+"?\s*\))?([^,]*)`)
	reOnDelete    = regexp.MustCompile(`(?is)on\s+delete\s+(set\s+null|cascade|restrict|no\s+action|set\s+default)`)
	reUniqueIdx   = regexp.MustCompile(`(?is)create\s+unique\s+index\s+(?:concurrently\s+)?(?:if\s+not\s+exists\s+)?"?(\w+)"?\s+on\s+"?(\w+)"?\s*(?:using\s+\w+\s*)?\(([^)]*)\)`)
	reColRefInTbl = regexp.MustCompile(`(?is)^\s*"?(\w+)"?\s+\w+[^,]*?references\s+"?(\w+)"?\s*(?:\(\s*"?\w+"?\s*\))?(.*)$`)
	reUniqueCol   = regexp.MustCompile(`(?is)^\s*"?(\w+)"?\s+\w+.*\bunique\b`)
	reUniqueCons  = regexp.MustCompile(`(?is)unique\s*\(([^)]*)\)`)
	reDropIndex   = regexp.MustCompile(`(?is)drop\s+index\s+(?:concurrently\s+)?(?:if\s+exists\s+)?"?(\w+)"?`)
	reSQLComment  = regexp.MustCompile(`(?m)--.*$`)
)

func onDeleteOf(s string) string {
	m := reOnDelete.FindStringSubmatch(s)
	if m == nil {
		return "NoAction"
	}
	switch strings.ToLower(strings.Join(strings.Fields(m[1]), " ")) {
	case "set null":
		return "SetNull"
	case "cascade":
		return "Cascade"
	case "restrict":
		return "Restrict"
	case "set default":
		return "SetDefault"
	}
	return "NoAction"
}

// sqlSchema replays the up-migrations in order; later definitions of the same (table, column) FK win.
func (c *Ctx) sqlSchema() (map[string]sqlFK, []sqlUnique, int) {
	dir := filepath.Join(c.RepoDir, "migrations", "message-bus")
	files, _ := filepath.Glob(filepath.Join(dir, "*.up.sql"))
	sort.Strings(files)
	fks := map[string]sqlFK{}
	var uniq []sqlUnique
	for _, f := range files {
		var b []byte
		if ov, ok := c.Overlay[f]; ok {
			b = ov
		} else {
			b, _ = os.ReadFile(f)
		}
		src := reSQLComment.ReplaceAllString(string(b), "")
		base := filepath.Base(f)
		for _, m := range reCreateTable.FindAllStringSubmatch(src, -1) {
			tbl := m[1]
			for _, part := range splitTop(m[2]) {
				if fm := reFKInline.FindStringSubmatch(part); fm != nil {
					fks[tbl+"."+fm[1]] = sqlFK{tbl, fm[1], fm[2], onDeleteOf(fm[3]), base}
				} else if cm := reColRefInTbl.FindStringSubmatch(part); cm != nil {
					fks[tbl+"."+cm[1]] = sqlFK{tbl, cm[1], cm[2], onDeleteOf(cm[3]), base}
				}
				if um := reUniqueCons.FindStringSubmatch(part); um != nil && !strings.Contains(strings.ToLower(part), "foreign key") {
					uniq = append(uniq, sqlUnique{Table: tbl, Columns: splitCols(um[1]), File: base})
				} else if um := reUniqueCol.FindStringSubmatch(part); um != nil {
					uniq = append(uniq, sqlUnique{Table: tbl, Columns: []string{um[1]}, File: base})
				}
			}
		}
		for _, m := range reAlter.FindAllStringSubmatch(src, -1) {
			tbl := m[1]
			for _, fm := range reAddFK.FindAllStringSubmatch(m[2], -1) {
				fks[tbl+"."+fm[2]] = sqlFK{tbl, fm[2], fm[3], onDeleteOf(fm[4]), base}
			}
			for _, fm := range reAddColRef.FindAllStringSubmatch(m[2], -1) {
				fks[tbl+"."+fm[1]] = sqlFK{tbl, fm[1], fm[2], onDeleteOf(fm[3]), base}
			}
		}
		for _, m := range reDropIndex.FindAllStringSubmatch(src, -1) {
			var keep []sqlUnique
			for _, u := range uniq {
				if u.Name != m[1] {
					keep = append(keep, u)
				}
			}
			uniq = keep
		}
		for _, m := range reUniqueIdx.FindAllStringSubmatch(src, -1) {
			uniq = append(uniq, sqlUnique{Table: m[2], Columns: splitCols(m[3]), File: base, Name: m[1]})
		}
	}
	return fks, uniq, len(files)
}

func splitCols(s string) []string {
	var out []string
	for _, p := range strings.Split(s, ",") {
		p = strings.Trim(strings.TrimSpace(p), "\"")
		if f := strings.Fields(p); len(f) > 0 {
			out = append(out, strings.Trim(f[0], "\""))
		}
	}
	return out
}

// splitTop splits on commas that are not inside parentheses.
func splitTop(s string) []string {
	var out []string
	depth, start := 0, 0
	for i, ch := range s {
		switch ch {
		case '(':
			depth++
		case ')':
			depth--
		case ',':
			if depth == 0 {
				out = append(out, s[start:i])
				start = i + 1
			}
		}
	}
	out = append(out, s[start:])
	return out
}

// ---------------------------------------------------------------------------

func ruleC05_5(c *Ctx, r *Rep) {
	fks, _, ok := c.entSchema()
	if !ok {
		r.Fail("C05.5", "C05.5:ent-schema", token.NoPos, "ent/migrate/schema.go tables not found")
		return
	}
	found := false
	for _, f := range fks {
		if f.Table == "deliveries" && f.Column == "not_before_id" {
			found = true
			r.Check("C05.5", "C05.5:ent:deliveries.not_before_id", f.Pos, f.OnDelete == "SetNull" && f.RefTable == "deliveries",
				"ON DELETE SET NULL", "deliveries.not_before_id is ON DELETE "+f.OnDelete+" in the ent schema: deleting a predecessor would block (NO ACTION) or delete (CASCADE) its successor")
		}
	}
	if !found {
		r.Fail("C05.5", "C05.5:ent:deliveries.not_before_id", token.NoPos, "no foreign key on deliveries.not_before_id in the ent schema")
	}
	sq, _, n := c.sqlSchema()
	if n == 0 {
		r.Fail("C05.5", "C05.5:sql", token.NoPos, "no SQL migrations found")
		return
	}
	f, has := sq["deliveries.not_before_id"]
	r.Check("C05.5", "C05.5:sql:deliveries.not_before_id", token.NoPos, has && f.OnDelete == "SetNull" && f.RefTable == "deliveries",
		"ON DELETE SET NULL (last definition in "+f.File+")", "the SQL migrations leave deliveries.not_before_id as ON DELETE "+f.OnDelete+" (last definition: "+f.File+")")
}

// astInspectCompositeLits calls cb for every element literal of a top-level `var X = []T{ {..}, {..} }`.
func astInspectCompositeLits(f *ast.File, cb func(varName string, fields map[string]string)) {
	for _, d := range f.Decls {
		gd, ok := d.(*ast.GenDecl)
		if !ok || gd.Tok != token.VAR {
			continue
		}
		for _, sp := range gd.Specs {
			vs := sp.(*ast.ValueSpec)
			for i, n := range vs.Names {
				if i >= len(vs.Values) {
					continue
				}
				cl, ok := vs.Values[i].(*ast.CompositeLit)
				if !ok {
					continue
				}
				for _, el := range cl.Elts {
					ecl, ok := el.(*ast.CompositeLit)
					if !ok {
						continue
					}
					fields := map[string]string{}
					for _, e := range ecl.Elts {
						kv, ok := e.(*ast.KeyValueExpr)
						if !ok {
							continue
						}
						k, _ := kv.Key.(*ast.Ident)
						if k == nil {
							continue
						}
						switch v := kv.Value.(type) {
						case *ast.BasicLit:
							fields[k.Name] = strings.Trim(v.Value, "\"`")
						case *ast.Ident:
							fields[k.Name] = v.Name
						}
					}
					cb(n.Name, fields)
				}
			}
		}
	}
}

package main

import (
	"regexp"
	"encoding/json"
	"fmt"
	"go/token"
	"go/types"
	"os"
	"path/filepath"
	"sort"
	"strings"
	"time"

	"golang.org/x/tools/go/packages"
	"golang.org/x/tools/go/ssa"
	"golang.org/x/tools/go/ssa/ssautil"
)

const modPath = "go.6river.tech/mmmbbb"

// Ctx is one loaded, type-checked and SSA-built view of /repo's working tree.
type Ctx struct {
	RepoDir   string
	Fset      *token.FileSet
	Pkgs      []*packages.Package
	PkgByPath map[string]*packages.Package
	Prog      *ssa.Program
	SSAPkg    map[string]*ssa.Package
	Funcs     []*ssa.Function // every function of the module (incl. anonymous, instantiations)
	opCache   map[*ssa.Function][]*ssa.Function
	implCache map[string][]*ssa.Function
	FuncByKey map[string]*ssa.Function // "actions.(*AckDeliveries).Execute", "actions.notifyPublish$1$1"
	Overlay   map[string][]byte
	Controls  map[string]bool // overlay files holding positive controls
	LoadNotes []string
	BuildEnv  []string
	es        *entShape
}

// evidenceDir: /verif/evidence unless redirected (selftest and seeded-change runs must not overwrite real evidence).
func evidenceDir() string {
	if d := os.Getenv("MB_EVIDENCE_DIR"); d != "" {
		return d
	}
	return "/verif/evidence"
}

func repoDir() string {
	if d := os.Getenv("MB_REPO"); d != "" {
		return d
	}
	return "/repo"
}

// versionOverlay supplies the go:generate output that is absent at the pin.
func versionOverlay(dir string) (string, []byte) {
	return filepath.Join(dir, "version", "zz_verif_version.go"),
		[]byte("package version\n\nconst SemrelVersion = \"0.0.0-verif\"\n")
}

// Load type-checks ./... of the repo with the given overlay and extra env.
func Load(overlay map[string][]byte, env []string, controls map[string]bool) (*Ctx, error) {
	dir := repoDir()
	ov := map[string][]byte{}
	if _, err := os.Stat(filepath.Join(dir, "version", "version.go")); err != nil {
		p, b := versionOverlay(dir)
		ov[p] = b
	}
	for k, v := range overlay {
		ov[k] = v
	}
	cfg := &packages.Config{
		Mode:    packages.LoadSyntax,
		Dir:     dir,
		Overlay: ov,
		Env:     append(os.Environ(), env...),
	}
	pkgs, err := packages.Load(cfg, "./...")
	if err != nil {
		return nil, fmt.Errorf("load: %w", err)
	}
	if len(pkgs) == 0 {
		return nil, fmt.Errorf("load: zero packages")
	}
	c := &Ctx{RepoDir: dir, Pkgs: pkgs, PkgByPath: map[string]*packages.Package{}, SSAPkg: map[string]*ssa.Package{},
		FuncByKey: map[string]*ssa.Function{}, Overlay: ov, Controls: controls, BuildEnv: env}
	var errs []string
	for _, p := range pkgs {
		c.PkgByPath[p.PkgPath] = p
		for _, e := range p.Errors {
			errs = append(errs, e.Error())
		}
		if c.Fset == nil {
			c.Fset = p.Fset
		}
	}
	if len(errs) > 0 {
		return nil, fmt.Errorf("type errors in the tree (the checker needs a tree that compiles): %s", strings.Join(errs, "; "))
	}
	prog, spkgs := ssautil.Packages(pkgs, ssa.InstantiateGenerics)
	prog.Build()
	c.Prog = prog
	for i, sp := range spkgs {
		if sp != nil {
			c.SSAPkg[pkgs[i].PkgPath] = sp
		}
	}
	for fn := range ssautil.AllFunctions(prog) {
		if !c.inModule(fn) {
			continue
		}
		c.Funcs = append(c.Funcs, fn)
	}
	sort.Slice(c.Funcs, func(i, j int) bool { return c.Key(c.Funcs[i]) < c.Key(c.Funcs[j]) })
	lastCtx = c
	for _, fn := range c.Funcs {
		k := c.Key(fn)
		if _, dup := c.FuncByKey[k]; !dup {
			c.FuncByKey[k] = fn
		}
	}
	return c, nil
}

// lastCtx: the most recently loaded program (helpers without a Ctx parameter use it to enumerate functions).
var lastCtx *Ctx

func (c *Ctx) inModule(fn *ssa.Function) bool {
	if fn.Synthetic != "" && fn.Origin() == nil && fn.Parent() == nil {
		// wrappers, bound methods, thunks: analysed through their targets
		if !strings.HasPrefix(fn.Synthetic, "instance") {
			return false
		}
	}
	p := fn.Pkg
	if p == nil && fn.Origin() != nil {
		p = fn.Origin().Pkg
	}
	for f := fn; p == nil && f != nil; f = f.Parent() {
		if f.Pkg != nil {
			p = f.Pkg
		} else if f.Origin() != nil {
			p = f.Origin().Pkg
		}
	}
	if p == nil || p.Pkg == nil {
		return false
	}
	return p.Pkg.Path() == modPath || strings.HasPrefix(p.Pkg.Path(), modPath+"/")
}

// Key is the stable, position-free name of a function used in obligations.
func (c *Ctx) Key(fn *ssa.Function) string {
	s := fn.RelString(nil)
	s = strings.ReplaceAll(s, modPath+"/", "")
	return s
}

func (c *Ctx) PkgOf(fn *ssa.Function) string {
	for f := fn; f != nil; f = f.Parent() {
		if f.Pkg != nil {
			return strings.TrimPrefix(f.Pkg.Pkg.Path(), modPath+"/")
		}
		if o := f.Origin(); o != nil && o.Pkg != nil {
			return strings.TrimPrefix(o.Pkg.Pkg.Path(), modPath+"/")
		}
	}
	return ""
}

// Fn resolves an anchor; a missing anchor is reported by the caller as a violation.
func (c *Ctx) Fn(key string) *ssa.Function { return c.FuncByKey[key] }

func (c *Ctx) Pos(p token.Pos) string {
	if !p.IsValid() {
		return "-"
	}
	pp := c.Fset.Position(p)
	f := pp.Filename
	if rel, err := filepath.Rel(c.RepoDir, f); err == nil && !strings.HasPrefix(rel, "..") {
		f = rel
	}
	return fmt.Sprintf("%s:%d", f, pp.Line)
}

func (c *Ctx) InControl(p token.Pos) bool {
	if !p.IsValid() {
		return false
	}
	return c.Controls[c.Fset.Position(p).Filename]
}

func (c *Ctx) FnInControl(fn *ssa.Function) bool {
	for f := fn; f != nil; f = f.Parent() {
		if f.Pos().IsValid() {
			return c.InControl(f.Pos())
		}
	}
	return false
}

// IsTestFile: the loader runs with Tests=false, so this is only a guard.
func (c *Ctx) isTest(p token.Pos) bool {
	return strings.HasSuffix(c.Fset.Position(p).Filename, "_test.go")
}

// ---------------------------------------------------------------------------
// obligations and reporting

type Ob struct {
	Rule   string `json:"rule"`
	Key    string `json:"construct"`
	Pos    string `json:"pos"`
	Status string `json:"status"` // ok | violation | undecided | known | control
	Msg    string `json:"detail,omitempty"`
	pos    token.Pos
}

type Rep struct {
	c        *Ctx
	Prop     string
	Obs      []*Ob
	floors   map[string][2]int
	ctrlWant map[string]string // rule -> key substring expected from positive controls
	ctrlHit  map[string]bool
}

func newRep(c *Ctx, prop string) *Rep {
	return &Rep{c: c, Prop: prop, floors: map[string][2]int{}, ctrlWant: map[string]string{}, ctrlHit: map[string]bool{}}
}

func (r *Rep) add(rule, key string, pos token.Pos, status, msg string) *Ob {
	o := &Ob{Rule: rule, Key: key, Pos: r.c.Pos(pos), Status: status, Msg: msg, pos: pos}
	if status != "ok" && r.c.InControl(pos) {
		o.Status = "control"
		r.ctrlHit[rule] = true
	} else if r.c.InControl(pos) {
		// obligations discharged inside a control file are not evidence about /repo
		return o
	}
	r.Obs = append(r.Obs, o)
	return o
}

func (r *Rep) OK(rule, key string, pos token.Pos, msg string) { r.add(rule, key, pos, "ok", msg) }
func (r *Rep) Fail(rule, key string, pos token.Pos, msg string) {
	r.add(rule, key, pos, "violation", msg)
}
func (r *Rep) Undecided(rule, key string, pos token.Pos, msg string) {
	r.add(rule, key, pos, "undecided", msg)
}

// Check records one obligation: discharged when cond holds.
func (r *Rep) Check(rule, key string, pos token.Pos, cond bool, okMsg, failMsg string) bool {
	if cond {
		r.OK(rule, key, pos, okMsg)
	} else {
		r.Fail(rule, key, pos, failMsg)
	}
	return cond
}

// Anchor resolves a named function or fails the rule (no vacuous pass).
func (r *Rep) Anchor(rule, key string) *ssa.Function {
	fn := r.c.Fn(key)
	if fn == nil {
		r.Fail(rule, "anchor:"+key, token.NoPos, "anchor function not found in the tree (renamed or removed): the rule cannot be evaluated")
	}
	return fn
}

// Floor: the number of instances a rule bound to must not fall below what was confirmed by hand.
func (r *Rep) Floor(rule string, got, min int) {
	r.floors[rule] = [2]int{got, min}
	if got < min {
		r.Fail("floor", rule, token.NoPos, fmt.Sprintf("rule %s bound to %d instances, fewer than the %d confirmed on the reference tree", rule, got, min))
	} else {
		r.OK("floor", rule, token.NoPos, fmt.Sprintf("%d instances (floor %d)", got, min))
	}
}

// ExpectControl declares that the positive-control overlay must make rule fire.
func (r *Rep) ExpectControl(rule string) { r.ctrlWant[rule] = "" }

// ---------------------------------------------------------------------------
// known findings

type knownFile struct {
	Findings []struct {
		Property  string `json:"property"`
		Rule      string `json:"rule"`
		Construct string `json:"construct"`
		What      string `json:"what"`
	} `json:"findings"`
	Fixed []string `json:"fixed"`
}

func loadKnown() knownFile {
	var k knownFile
	b, err := os.ReadFile("/verif/known-findings.json")
	if err == nil {
		_ = json.Unmarshal(b, &k)
	}
	return k
}

// ---------------------------------------------------------------------------
// evidence

type evidence struct {
	PropertyID  string         `json:"property_id"`
	Tier        string         `json:"tier"`
	Seed        int            `json:"seed"`
	Level       string         `json:"level"`
	Coverage    map[string]any `json:"coverage"`
	Assumptions []string       `json:"assumptions"`
	WallS       float64        `json:"wall_s"`
	Violations  int            `json:"violations"`
}

type propInfo struct {
	ID          string
	Explanation string
	Assumptions []string
	Rules       []ruleFn
}

type ruleFn struct {
	ID   string
	Doc  string
	Run  func(c *Ctx, r *Rep)
	Ctrl bool // a positive control exists for this rule
	// Only, when set, restricts a shared rule to the instances (obligation keys) that bear on this property:
	// the other instances of the rule are decided under the property that owns it.
	Only string
}

// run applies the rule, keeping only the instances selected by Only.
func (rule ruleFn) run(c *Ctx, r *Rep) {
	n0 := len(r.Obs)
	rule.Run(c, r)
	if rule.Only == "" {
		return
	}
	re := regexp.MustCompile(rule.Only)
	kept := r.Obs[:n0:n0]
	for _, o := range r.Obs[n0:] {
		if o.Rule == "floor" || o.Rule == "panic" || re.MatchString(o.Key) {
			kept = append(kept, o)
		}
	}
	r.Obs = kept
}

func finish(c *Ctx, r *Rep, p *propInfo, tier string, start time.Time, extra map[string]any, controlsLoaded bool) int {
	known := loadKnown()
	nviol := 0
	discharged := 0
	distinct := map[string]bool{}
	var samples []any
	vdir := filepath.Join(evidenceDir(), "violations")
	os.MkdirAll(vdir, 0o755)
	// remove stale violation files of this property
	if old, _ := filepath.Glob(filepath.Join(vdir, p.ID+"-*.json")); old != nil {
		for _, f := range old {
			os.Remove(f)
		}
	}
	// positive controls must have fired
	ctrlFired := 0
	if controlsLoaded {
		for rule := range r.ctrlWant {
			if r.ctrlHit[rule] {
				ctrlFired++
			} else {
				r.Obs = append(r.Obs, &Ob{Rule: "control", Key: rule, Pos: "-", Status: "violation",
					Msg: "positive control for rule " + rule + " type-checked but was not reported: the checker is broken for this rule"})
			}
		}
	}
	sort.SliceStable(r.Obs, func(i, j int) bool {
		if r.Obs[i].Rule != r.Obs[j].Rule {
			return r.Obs[i].Rule < r.Obs[j].Rule
		}
		return r.Obs[i].Key < r.Obs[j].Key
	})
	total := 0
	for _, o := range r.Obs {
		if o.Status == "control" {
			continue
		}
		total++
		distinct[o.Rule+"|"+o.Key] = true
		if o.Status == "violation" || o.Status == "undecided" {
			// known finding?
			isKnown := false
			for _, k := range known.Findings {
				if k.Property == p.ID && k.Rule == o.Rule && k.Construct == o.Key {
					isKnown = true
					fmt.Printf("KNOWN-FINDING: property=%s %s\n", p.ID, k.What)
				}
			}
			if isKnown {
				o.Status = "known"
			} else {
				nviol++
				path := filepath.Join(vdir, fmt.Sprintf("%s-%d.json", p.ID, nviol))
				b, _ := json.MarshalIndent(map[string]any{"property": p.ID, "rule": o.Rule, "construct": o.Key, "pos": o.Pos, "status": o.Status, "detail": o.Msg,
					"how_to_read": "rule ids refer to DESIGN.md §4; construct is the position-free key of the code the rule bound to"}, "", " ")
				os.WriteFile(path, b, 0o644)
				fmt.Printf("%s %s [%s] %s: %s\n", strings.ToUpper(o.Status), o.Pos, o.Rule, o.Key, o.Msg)
				fmt.Printf("VIOLATION property=%s replay=%s\n", p.ID, path)
			}
		}
		if o.Status == "ok" || o.Status == "known" {
			discharged++
		}
		samples = append(samples, map[string]string{"rule": o.Rule, "construct": o.Key, "pos": o.Pos, "status": o.Status, "detail": o.Msg})
	}
	cov := map[string]any{
		"explanation":             p.Explanation,
		"obligations":             total,
		"discharged":              discharged,
		"evaluations":             total,
		"distinct_nontrivial":     len(distinct),
		"rule":                    "one obligation per (rule id, construct the rule bound to in the resolved program); distinct = distinct (rule, construct) keys; obligations bound to overlay positive controls are not counted",
		"samples":                 samples,
		"packages":                len(c.Pkgs),
		"functions":               len(c.Funcs),
		"positive_controls_fired": ctrlFired,
		"positive_controls":       len(r.ctrlWant),
		"controls_loaded":         controlsLoaded,
		"load_notes":              c.LoadNotes,
		"exhaustive":              false,
	}
	if c.es != nil {
		cov["statements"] = len(c.es.Stmts)
	}
	for k, v := range extra {
		cov[k] = v
	}
	ev := evidence{PropertyID: p.ID, Tier: tier, Seed: 0, Level: "other", Coverage: cov, Assumptions: p.Assumptions,
		WallS: time.Since(start).Seconds(), Violations: nviol}
	os.MkdirAll(evidenceDir(), 0o755)
	b, _ := json.MarshalIndent(ev, "", " ")
	os.WriteFile(filepath.Join(evidenceDir(), p.ID+".json"), b, 0o644)
	fmt.Printf("%s tier=%s packages=%d functions=%d obligations=%d discharged=%d violations=%d controls=%d/%d wall=%.1fs\n",
		p.ID, tier, len(c.Pkgs), len(c.Funcs), total, discharged, nviol, ctrlFired, len(r.ctrlWant), time.Since(start).Seconds())
	return nviol
}

// ---------------------------------------------------------------------------
// small helpers over types

func namedOf(t types.Type) *types.Named {
	for {
		switch x := t.(type) {
		case *types.Pointer:
			t = x.Elem()
		case *types.Named:
			return x
		case *types.Alias:
			t = types.Unalias(x)
		default:
			return nil
		}
	}
}

// typeIs reports whether t (through pointers) is pkgSuffix.Name.
func typeIs(t types.Type, pkgPath, name string) bool {
	n := namedOf(t)
	if n == nil || n.Obj().Pkg() == nil {
		return false
	}
	return n.Obj().Name() == name && n.Obj().Pkg().Path() == pkgPath
}

func calleeOf(ci ssa.CallInstruction) *ssa.Function {
	if ci == nil {
		return nil
	}
	return ci.Common().StaticCallee()
}

func fnPkgPath(fn *ssa.Function) string {
	if fn == nil {
		return ""
	}
	if fn.Pkg != nil {
		return fn.Pkg.Pkg.Path()
	}
	if o := fn.Origin(); o != nil && o.Pkg != nil {
		return o.Pkg.Pkg.Path()
	}
	if fn.Object() != nil && fn.Object().Pkg() != nil {
		return fn.Object().Pkg().Path()
	}
	return ""
}

// fnIs: function identity by package path + (receiver-qualified) name, resolved through types.
func fnIs(fn *ssa.Function, pkgPath, name string) bool {
	if fn == nil {
		return false
	}
	if o := fn.Origin(); o != nil {
		fn = o
	}
	if fnPkgPath(fn) != pkgPath {
		return false
	}
	n := fn.Name()
	if fn.Signature.Recv() != nil {
		if nm := namedOf(fn.Signature.Recv().Type()); nm != nil {
			n = nm.Obj().Name() + "." + n
		}
	}
	return n == name
}

// testSupportPkgs: packages that exist only to support tests. The exemption is
// honoured only while no non-test package of the module imports them (checked
// on the loaded import graph on every run).
var testSupportPkgs = map[string]string{
	modPath + "/ent/enttest": "test database bootstrap (ResetTables truncates every table); imported by *_test.go files only",
}

func (c *Ctx) testSupport(fn *ssa.Function) bool {
	p := modPath + "/" + c.PkgOf(fn)
	if _, ok := testSupportPkgs[p]; !ok {
		return false
	}
	for _, q := range c.Pkgs {
		if _, imp := q.Imports[p]; imp {
			return false
		}
	}
	return true
}

package main

import (
	"fmt"
	"go/token"
	"go/types"
	"regexp"
	"sort"
	"strings"

	"golang.org/x/tools/go/ssa"
)

const hCreateSub = "(*services.subscriberServer).CreateSubscription"
const hUpdateSub = "(*services.subscriberServer).UpdateSubscription"
const hUpdateTopic = "(*services.publisherServer).UpdateTopic"

func anySrc(v ssa.Value, keys ...string) bool {
	src := sources(v)
	for _, k := range keys {
		if src[k] {
			return true
		}
		// the generated protobuf getter reads the same field
		if strings.HasPrefix(k, "field:") && src["call:Get"+strings.TrimPrefix(k, "field:")] {
			return true
		}
	}
	return false
}

// C17.1 request -> parameters -> row -> response mapping is complete
func ruleC17_1(c *Ctx, r *Rep) {
	if h := r.Anchor("C17.1", hCreateSub); h != nil {
		st := fieldStores(h, modPath+"/actions", "CreateSubscriptionParams")
		want := map[string][]string{
			"Labels": {"field:Labels"}, "TTL": {"field:ExpirationPolicy", "call:GetTtl"}, "MessageTTL": {"field:MessageRetentionDuration"},
			"OrderedDelivery": {"field:EnableMessageOrdering"}, "Filter": {"field:Filter"}, "MinBackoff": {"field:MinimumBackoff"},
			"MaxBackoff": {"field:MaximumBackoff"}, "MaxDeliveryAttempts": {"field:MaxDeliveryAttempts"}, "DeadLetterTopic": {"field:DeadLetterTopic"},
			"PushEndpoint": {"field:PushEndpoint"}, "Name": {"field:Name"}, "TopicName": {"field:Topic"},
		}
		var fs []string
		for f := range want {
			fs = append(fs, f)
		}
		sort.Strings(fs)
		for _, f := range fs {
			ok := false
			for _, s := range st[f] {
				if anySrc(s.Val, want[f]...) {
					ok = true
				}
			}
			pos := h.Pos()
			if len(st[f]) > 0 {
				pos = st[f][0].Pos()
			}
			r.Check("C17.1", "C17.1:request→params."+f, pos, ok, "", "CreateSubscription does not take "+f+" from the request ("+strings.Join(want[f], "|")+"): the configured value is dropped")
		}
	}
	if fn := r.Anchor("C17.1", fnCreateSub); fn != nil {
		cr := c.findStmts(fnCreateSub, "subscriptions", "create")
		if len(cr) == 1 {
			want := map[string]string{"labels": "params.Labels", "ttl": "params.TTL", "message_ttl": "params.MessageTTL", "ordered_delivery": "params.OrderedDelivery",
				"filter": "params.Filter", "min_backoff": "params.MinBackoff", "max_backoff": "params.MaxBackoff", "max_delivery_attempts": "params.MaxDeliveryAttempts",
				"dead_letter_topic_id": "params.DeadLetterTopic", "push_endpoint": "params.PushEndpoint", "name": "params.Name"}
			var cols []string
			for k := range want {
				cols = append(cols, k)
			}
			sort.Strings(cols)
			for _, col := range cols {
				ms := cr[0].Mut(col)
				ok := len(ms) > 0
				for _, m := range ms {
					has := false
					for k := range sources(m.Arg) {
						if strings.HasPrefix(k, "path:") && strings.HasSuffix(k, want[col]) {
							has = true
						}
					}
					ok = ok && has
				}
				r.Check("C17.1", "C17.1:params→subscriptions."+col, cr[0].Pos, ok, "", "subscriptions."+col+" is not stored from "+want[col])
			}
			// expires_at = now + TTL
			ex := cr[0].Mut("expires_at", "set")
			okE := len(ex) == 1 && anySrc(ex[0].Arg, "call:Now")
			if okE {
				okE = false
				for k := range sources(ex[0].Arg) {
					if strings.HasPrefix(k, "path:") && strings.HasSuffix(k, "params.TTL") {
						okE = true
					}
				}
			}
			r.Check("C17.1", "C17.1:params→subscriptions.expires_at", cr[0].Pos, okE, "", "the new subscription's expiry is not now + TTL")
		} else {
			r.Fail("C17.1", "C17.1:create(subscriptions)", fn.Pos(), fmt.Sprintf("expected one create, found %d", len(cr)))
		}
	}
	// the other create operations: topic and snapshot
	for _, sp := range []struct {
		handler, params, action, table string
		req                            map[string]string
		cols                           map[string]string
	}{
		{"(*services.publisherServer).CreateTopic", "CreateTopicParams", "(*actions.CreateTopic).Execute", "topics",
			map[string]string{"Name": "field:Name", "Labels": "field:Labels"}, map[string]string{"name": "params.Name", "labels": "params.Labels"}},
		{"(*services.subscriberServer).CreateSnapshot", "CreateSnapshotParams", "(*actions.CreateSnapshot).Execute", "snapshots",
			map[string]string{"Name": "field:Name", "Labels": "field:Labels", "SubscriptionName": "field:Subscription"}, map[string]string{"name": "params.Name", "labels": "params.Labels"}},
	} {
		short := sp.handler[strings.LastIndex(sp.handler, ".")+1:]
		if h := r.Anchor("C17.1", sp.handler); h != nil {
			st := fieldStores(h, modPath+"/actions", sp.params)
			var fs []string
			for f := range sp.req {
				fs = append(fs, f)
			}
			sort.Strings(fs)
			for _, f := range fs {
				ok := false
				for _, s := range st[f] {
					if anySrc(s.Val, sp.req[f]) {
						ok = true
					}
				}
				pos := h.Pos()
				if len(st[f]) > 0 {
					pos = st[f][0].Pos()
				}
				r.Check("C17.1", "C17.1:request→"+sp.params+"."+f, pos, ok, "", short+" does not take "+f+" from the request ("+sp.req[f]+"): the configured value is dropped — the create reply echoes it, a later Get / List does not show it")
			}
		}
		if fn := r.Anchor("C17.1", sp.action); fn != nil {
			cr := c.findStmts(sp.action, sp.table, "create")
			if len(cr) != 1 {
				r.Fail("C17.1", "C17.1:create("+sp.table+")", fn.Pos(), fmt.Sprintf("expected one create, found %d", len(cr)))
				continue
			}
			var cols []string
			for k := range sp.cols {
				cols = append(cols, k)
			}
			sort.Strings(cols)
			for _, col := range cols {
				ms := cr[0].Mut(col)
				// (a second write may supply the empty default when the parameter is absent)
				ok := false
				for _, m := range ms {
					ok = ok || hasPathSuffix(sources(m.Arg), sp.cols[col])
				}
				r.Check("C17.1", "C17.1:params→"+sp.table+"."+col, cr[0].Pos, ok, "", sp.table+"."+col+" is not stored from "+sp.cols[col])
			}
		}
	}
	if fn := r.Anchor("C17.1", "services.entSubscriptionToGrpc"); fn != nil {
		sub := fieldStores(fn, pbPkg, "Subscription")
		checkDeps(c, r, "C17.1", "entSubscriptionToGrpc", fn, sub, []depSpec{
			{"Labels", []string{"field:Labels"}, nil},
			{"MessageRetentionDuration", []string{"field:MessageTTL"}, []string{"field:TTL"}},
			{"EnableMessageOrdering", []string{"field:OrderedDelivery"}, nil},
			{"Filter", []string{"field:MessageFilter"}, nil},
			{"Name", []string{"field:Name"}, nil},
		})
		for _, sp := range []struct{ typ, field, src string }{
			{"ExpirationPolicy", "Ttl", "field:TTL"}, {"PushConfig", "PushEndpoint", "field:PushEndpoint"},
			{"DeadLetterPolicy", "MaxDeliveryAttempts", "field:MaxDeliveryAttempts"},
			{"RetryPolicy", "MinimumBackoff", "field:MinBackoff"}, {"RetryPolicy", "MaximumBackoff", "field:MaxBackoff"},
		} {
			st := fieldStores(fn, pbPkg, sp.typ)
			checkDeps(c, r, "C17.1", "entSubscriptionToGrpc", fn, st, []depSpec{{sp.field, []string{sp.src}, nil}})
		}
	}
	if fn := r.Anchor("C17.1", "services.entTopicToGrpc"); fn != nil {
		checkDeps(c, r, "C17.1", "entTopicToGrpc", fn, fieldStores(fn, pbPkg, "Topic"), []depSpec{{"Labels", []string{"field:Labels"}, nil}, {"Name", []string{"field:Name"}, nil}})
	}
}

var maskTable = map[string][]string{
	"labels":                     {"labels"},
	"expiration_policy":          {"expires_at", "ttl"},
	"message_retention_duration": {"message_ttl"},
	"enable_message_ordering":    {"ordered_delivery"},
	"retry_policy":               {"max_backoff", "min_backoff"},
	"push_config":                {"push_endpoint"},
	"filter":                     {"filter"},
	"dead_letter_policy":         {"dead_letter_topic_id", "max_delivery_attempts"},
}

// maskPathOf: the update-mask path under which an instruction executes (`p == "path"` true edge over GetPaths).
func maskPathOf(cs []Cond) (string, bool) {
	for _, cd := range cs {
		bo, ok := cd.V.(*ssa.BinOp)
		if !ok || bo.Op != token.EQL || !cd.Pol {
			continue
		}
		if s, isS := constString(bo.Y); isS && sources(bo.X)["call:GetPaths"] {
			return s, true
		}
	}
	return "", false
}

func ruleC17_2(c *Ctx, r *Rep) {
	for _, sp := range []struct {
		h, table string
		want     map[string][]string
	}{{hUpdateSub, "subscriptions", maskTable}, {hUpdateTopic, "topics", map[string][]string{"labels": {"labels"}}}} {
		h := r.Anchor("C17.2", sp.h)
		if h == nil {
			continue
		}
		var u *Stmt
		for _, s := range c.findStmts(sp.h, sp.table, "update") {
			u = s
		}
		if u == nil || len(u.Terms) != 1 {
			r.Fail("C17.2", "C17.2:update@"+sp.h, h.Pos(), "update statement not found")
			continue
		}
		got := map[string]map[string]bool{}
		for _, m := range u.Muts {
			// mutators applied in helpers carry the conditions of the helper; use the conditions of the call site chain
			cs := m.Conds
			p, ok := maskPathOf(cs)
			if !ok && m.Call != nil && m.Call.Parent() != u.Terms[0].Call.Parent() {
				// a mutator applied in a private method / helper of the handler: the conditions of its call site(s)
				for _, site := range c.callersOf(top(m.Call.Parent())) {
					if pp, ok2 := maskPathOf(edgeConds(site.Block())); ok2 {
						p, ok = pp, true
					}
				}
				// look at the call sites crossed while following the builder (applyPushConfig)
				for _, f := range u.Frames {
					if ok {
						break
					}
					if pp, ok2 := maskPathOf(edgeConds(f.Block())); ok2 {
						p, ok = pp, true
					}
				}
				if !ok && u.entered != nil {
					for _, site := range u.entered {
						if pp, ok2 := maskPathOf(edgeConds(site.Block())); ok2 {
							p, ok = pp, true
						}
					}
				}

			}
			if !ok {
				r.Fail("C17.2", "C17.2:unmasked:"+m.Col+"@"+sp.h, m.Pos, "column "+m.Col+" is modified independently of the update mask: an update changes a field that its mask does not name")
				continue
			}
			if got[p] == nil {
				got[p] = map[string]bool{}
			}
			got[p][m.Col] = true
		}
		var paths []string
		for p := range sp.want {
			paths = append(paths, p)
		}
		for p := range got {
			if _, ok := sp.want[p]; !ok {
				paths = append(paths, p)
			}
		}
		sort.Strings(paths)
		for _, p := range paths {
			var cols []string
			for cc := range got[p] {
				cols = append(cols, cc)
			}
			sort.Strings(cols)
			want := append([]string{}, sp.want[p]...)
			sort.Strings(want)
			r.Check("C17.2", "C17.2:mask:"+p+"@"+sp.h, u.Pos, strings.Join(cols, ",") == strings.Join(want, ","), "mask path "+p+" → {"+strings.Join(want, ",")+"}",
				"update-mask path `"+p+"` modifies {"+strings.Join(cols, ",")+"} but names {"+strings.Join(want, ",")+"}: the update changes a field its mask does not name, or misses one it does")
		}
		// every column a mask path names is written (set or cleared) on EVERY path through that path's case:
		// a member that is only written when present keeps its stale value when it is absent from the request
		cl0 := u.Terms[0].Call.Parent()
		es := c.EntShape()
		mutCol := func(in ssa.Instruction, col string) bool {
			call, ok := in.(*ssa.Call)
			if !ok {
				return false
			}
			cal := call.Call.StaticCallee()
			if cal == nil {
				return false
			}
			if cal.Signature.Recv() != nil && fnPkgPath(cal) == entPkg {
				if ent, _, isB := builderType(cal.Signature.Recv().Type()); isB {
					if cc, _, ok2 := es.columnOfSetter(ent, cal.Name()); ok2 && cc == col {
						return true
					}
				}
			}
			return false
		}
		var allPaths func(f *ssa.Function, start *ssa.BasicBlock, stop map[*ssa.BasicBlock]bool, col string, depth int) bool
		isMutOrHelper := func(in ssa.Instruction, col string, depth int) bool {
			if mutCol(in, col) {
				return true
			}
			if call, ok := in.(*ssa.Call); ok && depth < 2 {
				if cal := call.Call.StaticCallee(); cal != nil && c.inModule(cal) && len(cal.Blocks) > 0 && !es.isGenerated(cal) {
					// a helper that writes the column on all of its paths
					return allPaths(cal, cal.Blocks[0], nil, col, depth+1)
				}
			}
			return false
		}
		allPaths = func(f *ssa.Function, start *ssa.BasicBlock, stop map[*ssa.BasicBlock]bool, col string, depth int) bool {
			seen := map[*ssa.BasicBlock]bool{}
			ok := true
			var walk func(b *ssa.BasicBlock)
			walk = func(b *ssa.BasicBlock) {
				if seen[b] || !ok {
					return
				}
				seen[b] = true
				for _, in := range b.Instrs {
					if isMutOrHelper(in, col, depth) {
						return
					}
					if ret, isRet := in.(*ssa.Return); isRet {
						if len(ret.Results) > 0 && isErrorType(ret.Results[len(ret.Results)-1].Type()) && !returnsNilError(ret) {
							return // rejected request
						}
						ok = false
						return
					}
				}
				if stop[b] {
					ok = false
					return
				}
				for _, s2 := range b.Succs {
					if stop[s2] {
						ok = false
						return
					}
					walk(s2)
				}
			}
			walk(start)
			return ok
		}
		for p, cols := range sp.want {
			// entry of the case: true successor of `p == "<path>"`
			var entry *ssa.BasicBlock
			var hdr *ssa.BasicBlock
			for _, b := range cl0.Blocks {
				if len(b.Instrs) == 0 {
					continue
				}
				iff, isIf := b.Instrs[len(b.Instrs)-1].(*ssa.If)
				if !isIf {
					continue
				}
				if bo, isB := iff.Cond.(*ssa.BinOp); isB && bo.Op == token.EQL && sources(bo.X)["call:GetPaths"] {
					if s2, isS := constString(bo.Y); isS && s2 == p {
						entry = b.Succs[0]
						if l := innermostLoop(loopsOf(cl0), b); l != nil {
							hdr = l.Header
						}
					}
				}
			}
			if entry == nil || hdr == nil {
				continue // reported by the table comparison above
			}
			for _, col := range cols {
				r.Check("C17.2", "C17.2:writes-on-every-path:"+p+"."+col+"@"+sp.h, entry.Instrs[0].Pos(), allPaths(cl0, entry, map[*ssa.BasicBlock]bool{hdr: true}, col, 0),
					"mask path "+p+" writes "+col+" on every path", "under mask path `"+p+"` the column "+col+" is not written (set or cleared) on every path: when that member is absent from the request its old value survives, although the mask names it")
			}
		}
		// the no-op shortcut may skip the save only when nothing was set, cleared or added
		kinds := map[string]bool{}
		for _, m := range u.Muts {
			switch m.Op {
			case "set":
				kinds["Fields"] = true
			case "clear":
				kinds["ClearedFields"] = true
			case "add":
				kinds["AddedFields"] = true
			}
		}
		cl := u.Terms[0].Call.Parent()
		okSkip := true
		why := ""
		for _, ret := range returnsOf(cl) {
			if !returnsNilError(ret) || instrDominates(u.Terms[0].Call, ret) {
				continue
			}
			// a successful return that bypasses the save
			seen := map[string]bool{}
			for _, cd := range edgeConds(ret.Block()) {
				bo, ok := cd.V.(*ssa.BinOp)
				if !ok {
					continue
				}
				if z, isZ := constInt(bo.Y); isZ && z == 0 && bo.Op == token.EQL && cd.Pol {
					for k := range sources(bo.X) {
						if k == "call:Fields" || k == "call:ClearedFields" || k == "call:AddedFields" {
							seen[strings.TrimPrefix(k, "call:")] = true
						}
					}
				}
			}
			for k := range kinds {
				if !seen[k] {
					okSkip, why = false, "the save is skipped as a no-op without checking "+k+"(): an update whose mask paths only "+map[string]string{"Fields": "set", "ClearedFields": "clear", "AddedFields": "add to"}[k]+" fields is silently dropped"
				}
			}
		}
		r.Check("C17.2", "C17.2:noop-shortcut@"+sp.h, u.Pos, okSkip, "the no-op shortcut covers set, cleared and added fields", why)
		// unknown paths are rejected
		okDef := false
		var defRets []*ssa.Return
		var collect func(f *ssa.Function)
		collect = func(f *ssa.Function) {
			defRets = append(defRets, returnsOf(f)...)
			for _, a := range f.AnonFuncs {
				collect(a)
			}
		}
		for _, f := range c.opFuncs(h) {
			collect(f)
		}
		for _, ret := range defRets {
			if returnsNilError(ret) || len(ret.Results) == 0 || !isErrorType(ret.Results[len(ret.Results)-1].Type()) {
				continue
			}
			if _, isPath := maskPathOf(edgeConds(ret.Block())); isPath {
				continue
			}
			// the default of the switch: every known path compared false
			nFalse := 0
			for _, cd := range edgeConds(ret.Block()) {
				if bo, ok := cd.V.(*ssa.BinOp); ok && bo.Op == token.EQL && !cd.Pol && sources(bo.X)["call:GetPaths"] {
					if _, isS := constString(bo.Y); isS {
						nFalse++
					}
				}
			}
			if nFalse >= len(sp.want) {
				okDef = true
			}
		}
		r.Check("C17.2", "C17.2:unknown-path-rejected@"+sp.h, h.Pos(), okDef, "", "an unknown update-mask path is not rejected with an error")
	}
}

// C17.3: in the stored-duration codec, a floating-point value computed from the parsed digits is never
// truncated to an integer (decimal fractions are not exact in binary floating point, so truncation loses a
// nanosecond for some inputs). Floats that depend only on lengths (math.Pow10(len(..))) are exact and allowed.
func ruleC17_3(c *Ctx, r *Rep) {
	n := 0
	for _, f := range c.Funcs {
		if c.PkgOf(f) != "internal/sqltypes" {
			continue
		}
		for _, b := range f.Blocks {
			for _, in := range b.Instrs {
				cv, ok := in.(*ssa.Convert)
				if !ok {
					continue
				}
				from, to := kindOfBasic(cv.X.Type()), kindOfBasic(cv.Type())
				if from != "float" || to != "int" {
					continue
				}
				n++
				src := sources(cv.X)
				digits := src["call:ParseFloat"] || src["call:Atoi"] || src["call:ParseInt"] || src["call:ParseUint"]
				rounded := false
				if call, isC := cv.X.(*ssa.Call); isC {
					if cal := call.Call.StaticCallee(); cal != nil && fnPkgPath(cal) == "math" && (cal.Name() == "Round" || cal.Name() == "RoundToEven") {
						rounded = true
					}
				}
				r.Check("C17.3", fmt.Sprintf("C17.3:float→int#%d@%s", n, c.Key(f)), cv.Pos(), !digits || rounded, "the float depends on a length only (exact) or is rounded first",
					"the interval codec truncates a floating-point value computed from the parsed digits to an integer: decimal fractions are not exact in binary floating point, so some stored durations come back one nanosecond short")
			}
		}
	}
	// the codec never represents a duration as a floating-point number (53 bits of mantissa < 63 bits of nanoseconds)
	nf := 0
	for _, f := range c.Funcs {
		if c.PkgOf(f) != "internal/sqltypes" {
			continue
		}
		for _, ci := range callsIn(f, false, func(cal *ssa.Function, _ ssa.CallInstruction) bool {
			p, nm := fnPkgPath(cal), cal.Name()
			if p == "strconv" && (nm == "FormatFloat" || nm == "ParseFloat" || nm == "AppendFloat") {
				return true
			}
			if p == "time" && cal.Signature.Recv() != nil && (nm == "Seconds" || nm == "Minutes" || nm == "Hours") {
				return true
			}
			return false
		}) {
			nf++
			r.Fail("C17.3", fmt.Sprintf("C17.3:float-duration#%d@%s", nf, c.Key(f)), ci.Pos(), "the stored-duration codec represents a duration (or its digits) as a float64 ("+ci.Common().StaticCallee().Name()+"): float64 has 53 bits of mantissa, so long durations with nanosecond detail do not survive storage exactly")
		}
	}
	for _, f := range c.Funcs {
		if c.PkgOf(f) != "internal/sqltypes" {
			continue
		}
		for _, b := range f.Blocks {
			for _, in := range b.Instrs {
				cv, ok := in.(*ssa.Convert)
				if !ok || kindOfBasic(cv.Type()) != "float" {
					continue
				}
				if bt, isB := cv.X.Type().Underlying().(*types.Basic); isB && (bt.Kind() == types.Int64 || bt.Kind() == types.Uint64) {
					nf++
					r.Fail("C17.3", fmt.Sprintf("C17.3:float-duration#%d@%s", nf, c.Key(f)), cv.Pos(), "the stored-duration codec converts a 64-bit count (a duration) to float64: float64 has 53 bits of mantissa, so long durations with nanosecond detail do not survive storage exactly")
				}
			}
		}
	}
	// a hand-written writer: a decimal fraction printed without a fixed zero-padded width loses its leading zeros
	// (1.005 s written as "01.5")
	fracRe := regexp.MustCompile(`\.%(d|v|s)`)
	for _, f := range c.Funcs {
		if c.PkgOf(f) != "internal/sqltypes" {
			continue
		}
		for _, ci := range callsIn(f, false, func(cal *ssa.Function, _ ssa.CallInstruction) bool {
			return fnPkgPath(cal) == "fmt" && (strings.HasPrefix(cal.Name(), "Sprint") || strings.HasPrefix(cal.Name(), "Fprint") || strings.HasPrefix(cal.Name(), "Append"))
		}) {
			for _, a := range ci.Common().Args {
				if format, isS := constString(a); isS && fracRe.MatchString(format) {
					nf++
					r.Fail("C17.3", fmt.Sprintf("C17.3:fraction-width#%d@%s", nf, c.Key(f)), ci.Pos(), "the stored-duration writer prints a fractional part with a variable-width verb (format "+fmt.Sprintf("%q", format)+"): leading zeros of the fraction are lost, so 1.005s is stored as 1.5s")
				}
			}
		}
	}
	r.OK("C17.3", "C17.3:no-float-representation", 0, "no Duration.Seconds/Minutes/Hours, FormatFloat or ParseFloat in the codec")
	if c.Fn("internal/sqltypes.ParsePostgreSQLInterval") == nil {
		r.Fail("C17.3", "anchor:internal/sqltypes.ParsePostgreSQLInterval", 0, "codec entry point not found")
	}
}

func kindOfBasic(t types.Type) string {
	b, ok := t.Underlying().(*types.Basic)
	if !ok {
		return ""
	}
	switch {
	case b.Info()&types.IsFloat != 0:
		return "float"
	case b.Info()&types.IsInteger != 0:
		return "int"
	}
	return ""
}

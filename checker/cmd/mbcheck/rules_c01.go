package main

import (
	"fmt"
	"go/token"
	"strings"

	"golang.org/x/tools/go/ssa"
)

// function keys (anchors) used by several rules
const (
	fnAck        = "(*actions.AckDeliveries).Execute"
	fnNack       = "(*actions.NackDeliveries).Execute"
	fnDelay      = "(*actions.DelayDeliveries).Execute"
	fnDLSweep    = "(*actions.DeadLetterDeliveries).Execute"
	fnSeekTime   = "(*actions.SeekSubscriptionToTime).Execute"
	fnSeekSnap   = "(*actions.SeekSubscriptionToSnapshot).Execute"
	fnPublish    = "(*actions.PublishMessage).Execute"
	fnDeliver    = "actions.deliverToSubscription"
	fnDeadLetter = "actions.deadLetterDelivery"
	fnPullExec   = "(*actions.GetSubscriptionMessages).execute"
	fnPullQuery  = "(*actions.GetSubscriptionMessages).queryAndLockDeliveriesOnce"
	fnPullBuild  = "(*actions.GetSubscriptionMessages).buildDeliveryQuery"
	fnPullNext   = "(*actions.GetSubscriptionMessages).nextAttempt"
	fnPullApply  = "(*actions.GetSubscriptionMessages).applyResults"
	fnPullVerify = "(*actions.GetSubscriptionMessages).verifySub"
	fnPruneCD    = "(*actions.PruneCompletedDeliveries).Execute"
	fnPruneED    = "(*actions.PruneExpiredDeliveries).Execute"
	fnPruneDSD   = "(*actions.PruneDeletedSubscriptionDeliveries).Execute"
	fnPruneCM    = "(*actions.PruneCompletedMessages).Execute"
	fnPruneDS    = "(*actions.PruneDeletedSubscriptions).Execute"
	fnPruneDT    = "(*actions.PruneDeletedTopics).Execute"
	fnExpireSubs = "(*actions.DeleteExpiredSubscriptions).Execute"
	fnCreateSnap = "(*actions.CreateSnapshot).Execute"
	fnCreateSub  = "(*actions.CreateSubscription).Execute"
	fnCreateTop  = "(*actions.CreateTopic).Execute"
	fnDelSub     = "(*actions.DeleteSubscription).Execute"
	fnDelTopic   = "(*actions.DeleteTopic).Execute"
)

func in(s string, set ...string) bool {
	for _, x := range set {
		if s == x {
			return true
		}
	}
	return false
}

// ---------------------------------------------------------------------------
// C01.1 retirement ownership: who may complete / delete / re-key delivery rows.

func ruleC01_1(c *Ctx, r *Rep) {
	es := c.EntShape()
	keys := c.stmtKeys()
	n := 0
	retire := []string{fnAck, fnDeadLetter, fnSeekTime, fnSeekSnap}
	prunes := []string{fnPruneCD, fnPruneED, fnPruneDSD}
	seeks := []string{fnSeekTime, fnSeekSnap}
	for _, s := range es.Stmts {
		if s.Table != "deliveries" || (s.Kind != "update" && s.Kind != "delete") {
			continue
		}
		n++
		k := "C01.1:" + keys[s]
		owner := c.Owner(s)
		if len(s.Unknown) > 0 {
			r.Undecided("C01.1", k, s.Pos, "statement on deliveries has operations the engine cannot interpret: "+strings.Join(s.Unknown, "; "))
			continue
		}
		if s.Kind == "delete" {
			r.Check("C01.1", k, s.Pos, c.ownedBy(s, prunes...), "delete of delivery rows by a retention/prune job",
				"delivery rows are deleted by "+owner+", which is not one of the three prune jobs (completed / expired / deleted-subscription): an outstanding message can disappear")
			continue
		}
		bad := ""
		for _, m := range s.Muts {
			switch {
			case m.Col == "completed_at" && m.Op == "set" && !c.ownedBy(s, retire...):
				bad = "sets deliveries.completed_at (retires the message) outside ack / dead-letter / seek"
			case m.Col == "expires_at" && !c.ownedBy(s, seeks...):
				bad = "rewrites deliveries.expires_at of existing rows outside seek"
			case m.Col == "message_id" || m.Col == "subscription_id":
				bad = "re-keys an existing delivery (" + m.Col + ")"
			}
		}
		r.Check("C01.1", k, s.Pos, bad == "", "mutates only columns its cause justifies: "+mutCols(s), owner+" "+bad)
	}
	r.Floor("C01.1", n, 9)
	// raw SQL outside the ORM would bypass every [who] table
	raw := c.rawSQLCalls()
	for _, ci := range raw {
		fn := ci.Parent()
		pk := c.PkgOf(fn)
		okPkg := pk == "migrate" || pk == "db" || pk == "db/postgres" || (pk == "services" && strings.HasPrefix(c.Key(top(fn)), "(*services.pgNotifier)")) || pk == "" || strings.HasPrefix(pk, "internal/") || pk == "migrations"
		r.Check("C01.1", "C01.1:rawsql@"+c.Key(top(fn)), ci.Pos(), okPkg, "raw SQL in infrastructure code (migrations / LISTEN-NOTIFY)",
			"raw SQL execution in "+c.Key(fn)+": statements outside the ORM builders are invisible to the ownership tables")
	}
}

func mutCols(s *Stmt) string {
	var cs []string
	for _, m := range s.Muts {
		cs = append(cs, m.Col+":"+m.Op)
	}
	return strings.Join(cs, ",")
}

// ---------------------------------------------------------------------------
// C01.2 each retirer selects only what its cause justifies.

type pruneSpec struct {
	fn    string
	table string
	need  []ap
	allow []ap
	inner []ap // required atoms inside the edge predicate (if any)
	what  string
}

var pruneSpecs = []pruneSpec{
	{fn: fnPruneCD, table: "deliveries", need: []ap{{col: "completed_at", ops: []string{"lte", "lt"}}}, what: "completed deliveries older than the age threshold"},
	{fn: fnPruneED, table: "deliveries", need: []ap{{col: "expires_at", ops: []string{"lt", "lte"}}}, what: "deliveries past their retention"},
	{fn: fnPruneDSD, table: "deliveries", need: []ap{{kind: "edge", tbl: "subscriptions"}}, inner: []ap{{col: "deleted_at", ops: []string{"lte", "lt"}}}, what: "deliveries of subscriptions deleted longer than the age threshold"},
}

// checkPruneJob: select S with exactly `need`; delete D with exactly id IN result(S).
func checkPruneJob(c *Ctx, r *Rep, rule string, sp pruneSpec) {
	fn := r.Anchor(rule, sp.fn)
	if fn == nil {
		return
	}
	key := rule + ":" + sp.fn
	dels := c.findStmts(sp.fn, sp.table, "delete")
	if len(dels) != 1 {
		r.Fail(rule, key, fn.Pos(), fmt.Sprintf("expected exactly one delete on %s, found %d", sp.table, len(dels)))
		return
	}
	d := dels[0]
	if len(d.Unknown) > 0 {
		r.Undecided(rule, key, d.Pos, "uninterpreted builder operations: "+strings.Join(d.Unknown, "; "))
		return
	}
	miss, extra, m := c.matchAtoms(d.Where, []ap{{col: "id", ops: []string{"in"}}}, nil)
	if len(miss) > 0 || len(extra) > 0 {
		r.Fail(rule, key, d.Pos, "the delete must be exactly `id IN <selected ids>`; got: "+c.predsString(d.Where))
		return
	}
	idArg := m[(ap{col: "id", ops: []string{"in"}}).String()].Arg
	// the id list must be (derived from) the result of the justified select
	var sel *Stmt
	for _, s := range c.findStmts(sp.fn, sp.table, "select") {
		for _, t := range s.Terms {
			if dependsOnCall(idArg, t.Call) {
				sel = s
			}
		}
	}
	if sel == nil {
		r.Fail(rule, key, d.Pos, "the deleted id list is not the result of a select in this job")
		return
	}
	if unk, note := sel.HasUnknownPred(); unk || len(sel.Unknown) > 0 {
		r.Undecided(rule, key, sel.Pos, "selection not interpretable: "+note+strings.Join(sel.Unknown, ";"))
		return
	}
	miss, extra, m = c.matchAtoms(sel.Where, sp.need, sp.allow)
	if len(miss) > 0 {
		r.Fail(rule, key, sel.Pos, "selection for `"+sp.what+"` lacks the justifying atom "+strings.Join(miss, ", ")+"; got: "+c.predsString(sel.Where))
		return
	}
	if len(extra) > 0 {
		r.Fail(rule, key, extra[0].Pos, "selection has a further restricting atom ("+c.predString(extra[0])+"): rows that are dead by `"+sp.what+"` would never be reclaimed")
		return
	}
	for _, a := range sel.Atoms() {
		if !sel.Unconditional(a) && restricting(a) {
			// a conditional justification atom means some path selects without it
			r.Fail(rule, key, a.Pos, "justifying atom "+c.predString(a)+" is only added conditionally")
			return
		}
	}
	if len(sp.inner) > 0 {
		e := m[sp.need[0].String()]
		im, ie, _ := c.matchAtoms(e.Kids, sp.inner, nil)
		if len(im) > 0 || len(ie) > 0 {
			r.Fail(rule, key, e.Pos, "edge predicate must be exactly "+sp.inner[0].String()+"; got "+c.predString(e))
			return
		}
	}
	r.OK(rule, key, sel.Pos, "select{"+c.predsString(sel.Where)+"} → delete{id IN result}")
}

// dependsOnCall: v is data-dependent on the result of call (through extracts, loops building id slices, phis).
func dependsOnCall(v ssa.Value, call *ssa.Call) bool {
	seen := map[ssa.Value]bool{}
	var walk func(v ssa.Value, d int) bool
	walk = func(v ssa.Value, d int) bool {
		if v == nil || seen[v] || d > 60 {
			return false
		}
		seen[v] = true
		if v == ssa.Value(call) {
			return true
		}
		switch x := v.(type) {
		case *ssa.Parameter:
			if b, ok := curBind[x]; ok {
				return walk(b, d+1)
			}
			if a := uniqueCallerArg(x); a != nil {
				return walk(a, d+1)
			}
			return false
		case *ssa.Alloc:
			for _, st := range allocStores(x) {
				if walk(st.Val, d+1) {
					return true
				}
			}
			// a cell filled by the call through its address: Scan(ctx, &ids)
			if refs := x.Referrers(); refs != nil {
				for _, in := range *refs {
					var handed ssa.Value
					switch y := in.(type) {
					case *ssa.MakeInterface:
						handed = y
					case *ssa.Call:
						if y == call {
							return true
						}
					}
					if handed != nil {
						for _, a := range call.Call.Args {
							if a == handed {
								return true
							}
						}
					}
				}
			}
			// element stores into a make([]T)/array
			if refs := x.Referrers(); refs != nil {
				for _, in := range *refs {
					if ia, ok := in.(*ssa.IndexAddr); ok {
						if r2 := ia.Referrers(); r2 != nil {
							for _, in2 := range *r2 {
								if st, ok := in2.(*ssa.Store); ok && st.Addr == ia && walk(st.Val, d+1) {
									return true
								}
							}
						}
					}
				}
			}
			return false
		case *ssa.MakeSlice:
			// ids := make([]T, n); ids[i] = x.ID
			if refs := x.Referrers(); refs != nil {
				for _, in := range *refs {
					if ia, ok := in.(*ssa.IndexAddr); ok {
						if r2 := ia.Referrers(); r2 != nil {
							for _, in2 := range *r2 {
								if st, ok := in2.(*ssa.Store); ok && st.Addr == ia && walk(st.Val, d+1) {
									return true
								}
							}
						}
					}
				}
			}
		case *ssa.FreeVar:
			if b := freeVarBinding(x); b != nil {
				return walk(b, d+1)
			}
			return false
		case *ssa.Call:
			// the result of a module helper depends on what the helper returns
			if cal := x.Call.StaticCallee(); cal != nil && call.Parent() != nil && (call.Parent() == cal || hasAncestor(call.Parent(), cal)) {
				for _, ret := range returnsOf(cal) {
					for i := range ret.Results {
						if walk(retResult(ret, i), d+1) {
							return true
						}
					}
				}
			}
		}
		if in, ok := v.(ssa.Instruction); ok {
			for _, op := range in.Operands(nil) {
				if *op != nil && walk(*op, d+1) {
					return true
				}
			}
		}
		return false
	}
	return walk(v, 0)
}

func ruleC01_2(c *Ctx, r *Rep) {
	for _, sp := range pruneSpecs {
		checkPruneJob(c, r, "C01.2", sp)
	}
	// ack addresses exactly the requested ids
	if fn := r.Anchor("C01.2", fnAck); fn != nil {
		ups := c.findStmts(fnAck, "deliveries", "update")
		if len(ups) != 1 {
			r.Fail("C01.2", "C01.2:"+fnAck, fn.Pos(), fmt.Sprintf("expected one update in ack, found %d", len(ups)))
		} else {
			u := ups[0]
			miss, extra, m := c.matchAtoms(u.Where, []ap{{col: "id", ops: []string{"in"}}}, []ap{{col: "completed_at", ops: []string{"isnull"}}})
			ok := len(miss) == 0 && len(extra) == 0
			if ok {
				a := m[(ap{col: "id", ops: []string{"in"}}).String()]
				ok = a.Arg != nil && strings.Contains(valKey(a.Arg), "params.ids") && u.Unconditional(a)
			}
			r.Check("C01.2", "C01.2:"+fnAck, u.Pos, ok, "ack completes exactly `id IN <requested ids>`", "ack's update must be addressed by `id IN <requested ids>` only; got: "+c.predsString(u.Where))
		}
	}
}

// ---------------------------------------------------------------------------
// C01.3 publish fan-out

func ruleC01_3(c *Ctx, r *Rep) {
	pub := r.Anchor("C01.3", fnPublish)
	del := r.Anchor("C01.3", fnDeliver)
	if pub == nil || del == nil {
		return
	}
	// (a) the fan-out set = live subscriptions of the topic, nothing narrower
	var tsel *Stmt
	for _, s := range c.findStmts(fnPublish, "topics", "select") {
		for _, w := range s.Withs {
			if w.Edge == "Subscriptions" {
				tsel = s
			}
		}
	}
	if tsel == nil {
		r.Fail("C01.3", "C01.3:fanout-load@"+fnPublish, pub.Pos(), "publish does not eager-load the topic's subscriptions")
	} else {
		for _, w := range tsel.Withs {
			if w.Edge != "Subscriptions" {
				continue
			}
			ok := len(w.Nested) == 1
			msg := ""
			if ok {
				miss, extra, _ := c.matchAtoms(w.Nested[0].Where, []ap{{col: "deleted_at", ops: []string{"isnull"}}}, nil)
				if len(miss) > 0 {
					ok, msg = false, "deleted subscriptions are not excluded"
				}
				if len(extra) > 0 {
					ok, msg = false, "live subscriptions are additionally restricted by "+c.predString(extra[0])+": a live subscription attached to the topic would not get the message"
				}
				if len(w.Nested[0].Unknown) > 0 || w.Nested[0].HasLimit {
					ok, msg = false, "uninterpreted/limiting operations on the subscription load"
				}
				if len(w.Nested[0].SelCols) > 0 {
					ok, msg = false, "the subscriptions are loaded with a column subset ("+strings.Join(w.Nested[0].SelCols, ",")+"): fields the fan-out relies on (retention, delivery delay, filter, ordering flag) read as zero"
				}
			} else {
				msg = "subscription load without the live filter"
			}
			r.Check("C01.3", "C01.3:fanout-load@"+fnPublish, w.Pos, ok, "fan-out over exactly the live subscriptions (deleted_at IS NULL)", msg)
		}
		miss, extra, _ := c.matchAtoms(tsel.Where, []ap{{col: "deleted_at", ops: []string{"isnull"}}}, []ap{{col: "id", ops: []string{"eq"}}, {col: "name", ops: []string{"eq"}}})
		r.Check("C01.3", "C01.3:topic-lookup@"+fnPublish, tsel.Pos, len(miss) == 0 && len(extra) == 0, "topic resolved by id/name among live topics", "topic lookup atoms unexpected: "+c.predsString(tsel.Where))
	}
	// (b) the loop over subscriptions delivers to every element
	checkDeliverLoop(c, r, "C01.3", pub, del)
	// (c) every created builder is saved through CreateBulk on a tx
	n := 0
	for _, s := range c.EntShape().Stmts {
		if s.Table == "deliveries" && s.Kind == "create" && c.Owner(s) == fnDeliver {
			n++
			via := ""
			if len(s.Frames) > 0 {
				via = c.Key(top(s.Frames[len(s.Frames)-1].Parent()))
			}
			k := "C01.3:create-saved@" + via
			ok := s.Escapes == "bulk" && s.BulkCall != nil && s.OnTx
			if ok {
				ok = false
				for _, b := range c.EntShape().Stmts {
					if b.RootCall == ssa.Value(s.BulkCall) && b.OnTx && len(b.Terms) > 0 {
						ok = true
					}
				}
			}
			r.Check("C01.3", k, s.Pos, ok && len(s.Unknown) == 0, "delivery builder flows into CreateBulk(...).Save on the transaction", "a created delivery builder is not saved through CreateBulk on the transaction (escapes="+s.Escapes+" "+strings.Join(s.Unknown, ";")+")")
		}
	}
	r.Floor("C01.3:create", n, 1)
	// (d) skips only for filtered subscriptions
	nskip := 0
	for _, ret := range returnsOf(del) {
		if len(ret.Results) == 2 && isNilConst(retResult(ret, 0)) && isNilConst(retResult(ret, 1)) {
			nskip++
			// every path to this skip (looking into private predicate helpers) has established `filter present`
			ok, np := true, 0
			pathsTo(del, ret.Block(), func(cs []Cond) {
				np++
				has := false
				for _, cd := range cs {
					nc := normCond(cd.V, cd.Pol)
					if nc.Pol && cmpOn(nc.V, []token.Token{token.NEQ}, "field:MessageFilter") || !nc.Pol && cmpOn(nc.V, []token.Token{token.EQL}, "field:MessageFilter") {
						has = true
					}
				}
				if !has {
					ok = false
				}
			})
			ok = ok && np > 0
			r.Check("C01.3", fmt.Sprintf("C01.3:skip#%d@%s", nskip, fnDeliver), ret.Pos(), ok, "skip only under `filter present`",
				"deliverToSubscription returns (nil, nil) — no delivery — on a path that is not guarded by the subscription having a filter: unfiltered subscriptions can lose messages")
		}
	}
}

// checkDeliverLoop: in `caller`, the call of deliverToSubscription sits in a loop that (i) has no exit besides the
// range condition and error returns and (ii) reaches the call on every iteration.
func checkDeliverLoop(c *Ctx, r *Rep, rule string, caller, del *ssa.Function) {
	anchor := caller
	caller = c.opFuncWhere(caller, hasCallTo(del))
	_ = anchor
	calls := callsIn(caller, false, func(cal *ssa.Function, _ ssa.CallInstruction) bool { return cal == del })
	key := rule + ":loop@" + c.Key(anchor)
	if len(calls) == 0 {
		// higher-order form: `collect(dst, subs, func(s) (*X, error) { return deliverToSubscription(…, s, …) })` — the
		// loop lives in a private (generic) helper that calls the function value it is handed once per element
		for _, cl := range caller.AnonFuncs {
			inner := callsIn(cl, false, func(cal *ssa.Function, _ ssa.CallInstruction) bool { return cal == del })
			if len(inner) != 1 {
				continue
			}
			mc := makeClosureOf(cl)
			if mc == nil || mc.Referrers() == nil {
				continue
			}
			for _, u := range *mc.Referrers() {
				hc, isCall := u.(*ssa.Call)
				if !isCall {
					continue
				}
				h := hc.Call.StaticCallee()
				if h == nil || !c.inModule(h) || len(h.Blocks) == 0 || h.Object() == nil || h.Object().Exported() {
					continue
				}
				for ai, a := range hc.Call.Args {
					if a != ssa.Value(mc) || ai >= len(h.Params) {
						continue
					}
					for _, b := range h.Blocks {
						for _, in := range b.Instrs {
							if dc, isDC := in.(*ssa.Call); isDC && dc.Call.StaticCallee() == nil && !dc.Call.IsInvoke() && resolve(dc.Call.Value) == ssa.Value(h.Params[ai]) {
								caller = h
								calls = []ssa.CallInstruction{dc}
							}
						}
					}
				}
			}
		}
	}
	if len(calls) != 1 {
		r.Fail(rule, key, caller.Pos(), fmt.Sprintf("expected one call of deliverToSubscription, found %d", len(calls)))
		return
	}
	call := calls[0].(*ssa.Call)
	ls := loopsOf(caller)
	l := innermostLoop(ls, call.Block())
	if l == nil {
		r.Fail(rule, key, call.Pos(), "deliverToSubscription is not called in a loop over the subscriptions")
		return
	}
	for _, e := range l.exitEdges() {
		if e[0] == l.Header {
			continue
		}
		// any other exit must be an error return
		okExit := false
		if len(e[1].Instrs) > 0 {
			for _, in := range e[1].Instrs {
				if ret, ok := in.(*ssa.Return); ok && !returnsNilError(ret) && !mayReturnNilError(ret) {
					okExit = true
				}
			}
		}
		if !okExit {
			r.Fail(rule, key, e[0].Instrs[len(e[0].Instrs)-1].Pos(), "the loop over subscriptions can be left early (break/return without error): later subscriptions get no delivery")
			return
		}
	}
	for b := range l.Blocks {
		for _, s := range b.Succs {
			if s == l.Header && !dominates(call.Block(), b) {
				r.Fail(rule, key, b.Instrs[len(b.Instrs)-1].Pos(), "an iteration can reach the next one without calling deliverToSubscription (continue): that subscription gets no delivery")
				return
			}
		}
	}
	// the appended builder is conditional only on the call's own results
	base := map[Cond]bool{}
	for _, cd := range edgeConds(call.Block()) {
		base[cd] = true
	}
	for b := range l.Blocks {
		for _, in := range b.Instrs {
			ap, ok := in.(*ssa.Call)
			if !ok {
				continue
			}
			if bi, ok := ap.Call.Value.(*ssa.Builtin); !ok || bi.Name() != "append" {
				continue
			}
			for _, cd := range edgeConds(b) {
				if base[cd] {
					continue
				}
				if !onlyFromCall(cd.V, call) {
					r.Fail(rule, key, ap.Pos(), "the created delivery is appended only under an extra condition ("+valKey(cd.V)+")")
					return
				}
			}
		}
	}
	r.OK(rule, key, call.Pos(), "every subscription of the loaded set reaches deliverToSubscription; exits are the range end and error returns")
}

func onlyFromCall(v ssa.Value, call *ssa.Call) bool {
	b, ok := v.(*ssa.BinOp)
	if !ok {
		return false
	}
	from := func(x ssa.Value) bool {
		if isNilConst(x) {
			return true
		}
		if ex, ok := x.(*ssa.Extract); ok && ex.Tuple == ssa.Value(call) {
			return true
		}
		return false
	}
	return from(b.X) && from(b.Y)
}

// ---------------------------------------------------------------------------
// C01.4 pull eligibility is exact (shared with C02.1, C03.2, C04.1, C14.2)

func pullSelect(c *Ctx) *Stmt {
	for _, s := range c.EntShape().Stmts {
		if s.Table == "deliveries" && s.Kind == "select" {
			for _, t := range s.Terms {
				if c.partOf(t.Call.Parent(), fnPullQuery, 0) {
					return s
				}
			}
		}
	}
	return nil
}

var pullNeed = []ap{
	{col: "completed_at", ops: []string{"isnull"}},
	{col: "expires_at", ops: []string{"gt"}},
	{col: "subscription_id", ops: []string{"eq"}},
	{col: "attempt_at", ops: []string{"lte"}},
}

func isOrderedCond(cd Cond) bool {
	return cd.Pol && sources(cd.V)["field:OrderedDelivery"]
}

func ruleC01_4(c *Ctx, r *Rep) {
	if r.Anchor("C01.4", fnPullQuery) == nil {
		return
	}
	s := pullSelect(c)
	key := "C01.4:select(deliveries)@pull"
	if s == nil {
		r.Fail("C01.4", key, token.NoPos, "the pull's selection statement was not found")
		return
	}
	if unk, note := s.HasUnknownPred(); unk || len(s.Unknown) > 0 {
		r.Undecided("C01.4", key, s.Pos, "pull selection not interpretable: "+note+strings.Join(s.Unknown, ";"))
		return
	}
	gate := []ap{{kind: "join"}, {kind: "or"}}
	miss, extra, m := c.matchAtoms(s.Where, pullNeed, gate)
	for _, ms := range miss {
		r.Fail("C01.4", key+":"+ms, s.Pos, "pull selection lacks "+ms)
	}
	for _, e := range extra {
		r.Fail("C01.4", key+":extra", e.Pos, "pull selection has an extra restricting atom "+c.predString(e)+": an outstanding, due message would be hidden from pulls")
	}
	for name, a := range m {
		r.Check("C01.4", key+":"+name, a.Pos, s.Unconditional(a), "present on every path", "atom "+name+" is only added conditionally")
	}
	// gate pieces only under sub.OrderedDelivery
	for _, p := range s.Atoms() {
		if p.Kind == "join" || p.Kind == "or" {
			ok := false
			for _, cd := range p.Conds {
				if isOrderedCond(cd) {
					ok = true
				}
			}
			r.Check("C01.4", key+":gate-"+p.Kind, p.Pos, ok, "ordering gate only for ordered subscriptions", "the ordering gate restricts unordered subscriptions too")
		}
	}
	// the subscription id is the verified row's id
	if a := m[pullNeed[2].String()]; a != nil {
		ok := strings.HasSuffix(valKey(a.Arg), "sub.ID")
		if ok {
			ok = subIsVerified(c)
		}
		r.Check("C01.4", key+":verified-sub", a.Pos, ok, "scoped to the row resolved by verifySub", "subscription_id is not compared with the id of the subscription resolved by verifySub")
	}
}

// subIsVerified: in the pull's querying closure, the `sub` given to queryAndLockDeliveriesOnce is verifySub's result.
func subIsVerified(c *Ctx) bool {
	ex := c.Fn(fnPullExec)
	q := c.Fn(fnPullQuery)
	v := c.Fn(fnPullVerify)
	if ex == nil || q == nil || v == nil {
		return false
	}
	calls := callsIn(ex, true, func(cal *ssa.Function, _ ssa.CallInstruction) bool { return cal == q })
	if len(calls) == 0 {
		return false
	}
	for _, ci := range calls {
		args := ci.Common().Args
		sub := args[len(args)-1]
		ok := false
		for k := range sources(sub) {
			if k == "call:verifySub" {
				ok = true
			}
		}
		if !ok {
			return false
		}
	}
	return true
}

// ---------------------------------------------------------------------------
// C01.5 lease bookkeeping columns have one writer each

func ruleC01_5(c *Ctx, r *Rep) {
	keys := c.stmtKeys()
	n := 0
	for _, s := range c.EntShape().Stmts {
		if s.Table != "deliveries" {
			continue
		}
		for _, m := range s.Muts {
			if m.Col == "attempts" {
				n++
				r.Check("C01.5", "C01.5:attempts@"+keys[s], m.Pos, s.Kind == "update" && c.Owner(s) == fnPullApply, "attempts written by the pull's lease update",
					"deliveries.attempts is written by "+c.Owner(s)+"; only the pull's lease update may count attempts (feeds C04/C06)")
			}
			if m.Col == "not_before_id" {
				n++
				r.Check("C01.5", "C01.5:not_before@"+keys[s], m.Pos, s.Kind == "create" && c.Owner(s) == fnDeliver, "predecessor link set at creation",
					"deliveries.not_before_id is written by "+c.Owner(s)+" after creation")
			}
		}
	}
	r.Floor("C01.5", n, 2)
}

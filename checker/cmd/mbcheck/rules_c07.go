package main

import (
	"fmt"
	"go/constant"
	"go/token"
	"go/types"
	"reflect"
	"sort"
	"strings"

	"golang.org/x/tools/go/ssa"
)

const filterPkg = modPath + "/filter"

func isParseString(cal *ssa.Function) bool {
	if cal == nil {
		return false
	}
	o := cal
	if cal.Origin() != nil {
		o = cal.Origin()
	}
	return strings.HasPrefix(fnPkgPath(o), "github.com/alecthomas/participle") && o.Name() == "ParseString"
}

// validatingParse: call parses a filter string and reports syntax errors: ParseString itself, or a module wrapper
// whose every nil-error return is dominated by the nil-error edge of ParseString on its own string parameter.
func validatingParse(c *Ctx, call *ssa.Call) (str ssa.Value, ok bool) {
	return validatingParseD(c, call, 0)
}

// validatingParseD: call is ParseString, or a module wrapper (possibly nested: Validate → Parse → ParseString) whose
// nil error implies that the wrapped parse of its own string parameter succeeded: every return either hands on the
// inner call's error or returns a constant nil under the inner call's nil-error edge.
func validatingParseD(c *Ctx, call *ssa.Call, depth int) (str ssa.Value, ok bool) {
	cal := call.Call.StaticCallee()
	if isParseString(cal) {
		return call.Call.Args[2], true // (receiver, filename, s, options...)
	}
	if cal == nil || depth > 3 || !c.inModule(cal) || len(cal.Blocks) == 0 {
		return nil, false
	}
	res := cal.Signature.Results()
	if res.Len() == 0 || !isErrorType(res.At(res.Len()-1).Type()) {
		return nil, false
	}
	var inner *ssa.Call
	var innerStr ssa.Value
	for _, ci := range callsIn(cal, false, func(k *ssa.Function, _ ssa.CallInstruction) bool { return true }) {
		ic, isCall := ci.(*ssa.Call)
		if !isCall {
			continue
		}
		if s, ok := validatingParseD(c, ic, depth+1); ok {
			inner, innerStr = ic, s
		}
	}
	if inner == nil {
		return nil, false
	}
	p, isP := resolve(innerStr).(*ssa.Parameter)
	if !isP {
		return nil, false
	}
	for _, ret := range returnsOf(cal) {
		ev := retResult(ret, res.Len()-1)
		if !isNilConst(ev) {
			if dependsOnCall(ev, inner) {
				continue // the inner verdict is handed on
			}
			return nil, false // some other error value: nil does not imply the parse succeeded
		}
		if !condHas(edgeConds(ret.Block()), false, func(v ssa.Value) bool {
			bo, ok := v.(*ssa.BinOp)
			return ok && bo.Op == token.NEQ && isNilConst(bo.Y) && dependsOnCall(bo.X, inner)
		}) && !condHas(edgeConds(ret.Block()), true, func(v ssa.Value) bool {
			bo, ok := v.(*ssa.BinOp)
			return ok && bo.Op == token.EQL && isNilConst(bo.Y) && dependsOnCall(bo.X, inner)
		}) {
			return nil, false
		}
	}
	for i, q := range cal.Params {
		if q == p && i < len(call.Call.Args) {
			return call.Call.Args[i], true
		}
	}
	return nil, false
}

func parseOK(c *Ctx, cs []Cond) (*ssa.Call, bool) {
	for _, cd := range cs {
		bo, ok := cd.V.(*ssa.BinOp)
		if !ok || !isNilConst(bo.Y) {
			continue
		}
		if !((bo.Op == token.NEQ && !cd.Pol) || (bo.Op == token.EQL && cd.Pol)) {
			continue
		}
		var call *ssa.Call
		if ex, ok := bo.X.(*ssa.Extract); ok {
			call, _ = ex.Tuple.(*ssa.Call)
		} else if cc, ok := bo.X.(*ssa.Call); ok {
			call = cc // a validator that returns only the error
		}
		if call != nil {
			if _, isV := validatingParse(c, call); isV {
				return call, true
			}
		}
	}
	return nil, false
}

// pathsTo enumerates acyclic paths from the entry of fn to block target, calling visit with the branch conditions taken.
func pathsTo(fn *ssa.Function, target *ssa.BasicBlock, visit func(cs []Cond)) int {
	return pathsToRaw(fn, target, func(cs []Cond) { expandPredicateCalls(cs, 0, visit) })
}

// expandPredicateCalls: a path condition that is the verdict of a private boolean helper — `if !accepts(s, m) {…}` —
// is replaced by the conditions of the helper's own paths to the returns that give that verdict (one expanded path
// per helper path), with the helper's parameters bound to the call's arguments. Extracting a decision into a
// predicate function therefore leaves the path rules looking at the same conditions.
func expandPredicateCalls(cs []Cond, depth int, visit func(cs []Cond)) {
	if depth < 3 && lastCtx != nil {
		for i, cd := range cs {
			nc := normCond(cd.V, cd.Pol)
			call, ok := nc.V.(*ssa.Call)
			if !ok {
				continue
			}
			g := call.Call.StaticCallee()
			if g == nil || len(g.Blocks) == 0 || !lastCtx.inModule(g) || g.Object() == nil || g.Object().Exported() || lastCtx.EntShape().isGenerated(g) {
				continue
			}
			res := g.Signature.Results()
			if res.Len() != 1 {
				continue
			}
			if bt, isB := res.At(0).Type().Underlying().(*types.Basic); !isB || bt.Kind() != types.Bool {
				continue
			}
			rest := append(append([]Cond{}, cs[:i]...), cs[i+1:]...)
			bind := map[*ssa.Parameter]ssa.Value{}
			for k, p := range g.Params {
				if k < len(call.Call.Args) {
					bind[p] = call.Call.Args[k]
				}
			}
			for _, ret := range returnsOf(g) {
				rv := retResult(ret, 0)
				if k, isK := rv.(*ssa.Const); isK && k.Value != nil && k.Value.Kind() == constant.Bool {
					if constant.BoolVal(k.Value) != nc.Pol {
						continue
					}
					rv = nil
				}
				pathsToRaw(g, ret.Block(), func(inner []Cond) {
					all := append(append([]Cond{}, rest...), inner...)
					if rv != nil {
						all = append(all, Cond{rv, nc.Pol})
					}
					withBindMap(bind, func() { expandPredicateCalls(all, depth+1, visit) })
				})
			}
			return
		}
	}
	visit(cs)
}

func pathsToRaw(fn *ssa.Function, target *ssa.BasicBlock, visit func(cs []Cond)) int {
	n := 0
	onPath := map[*ssa.BasicBlock]bool{}
	var walk func(b *ssa.BasicBlock, cs []Cond)
	walk = func(b *ssa.BasicBlock, cs []Cond) {
		if n > 5000 {
			return
		}
		if b == target {
			n++
			visit(cs)
			return
		}
		if onPath[b] {
			return
		}
		onPath[b] = true
		defer func() { onPath[b] = false }()
		if len(b.Succs) == 2 {
			iff := b.Instrs[len(b.Instrs)-1].(*ssa.If)
			walk(b.Succs[0], append(append([]Cond{}, cs...), Cond{iff.Cond, true}))
			walk(b.Succs[1], append(append([]Cond{}, cs...), Cond{iff.Cond, false}))
			return
		}
		for _, s := range b.Succs {
			walk(s, cs)
		}
	}
	walk(fn.Blocks[0], nil)
	return n
}

// ---------------------------------------------------------------------------
// C07.1 routing gate

func ruleC07_1(c *Ctx, r *Rep) {
	fn := r.Anchor("C07.1", fnDeliver)
	if fn == nil {
		return
	}
	var create *ssa.Call
	for _, s := range c.EntShape().Stmts {
		if s.Table == "deliveries" && s.Kind == "create" && c.Owner(s) == fnDeliver {
			create = s.RootCall.(*ssa.Call)
		}
	}
	if create == nil {
		r.Fail("C07.1", "C07.1:gate@"+fnDeliver, fn.Pos(), "no delivery is created in deliverToSubscription")
		return
	}
	absent, filtered, bad := 0, 0, ""
	var evalCall *ssa.Call
	pathsTo(fn, create.Block(), func(cs []Cond) {
		isAbsent := false
		for _, cd := range cs {
			bo, ok := cd.V.(*ssa.BinOp)
			if !ok || !sources(bo)["field:MessageFilter"] {
				continue
			}
			// `s.MessageFilter == nil` or `*s.MessageFilter == ""` (not a test of a call result)
			if _, isEx := bo.X.(*ssa.Extract); isEx {
				continue
			}
			emptyS, isS := constString(bo.Y)
			if !(isNilConst(bo.Y) || (isS && emptyS == "")) {
				continue
			}
			if bo.Op == token.NEQ && !cd.Pol || bo.Op == token.EQL && cd.Pol {
				isAbsent = true
			}
		}
		if isAbsent {
			absent++
			return
		}
		pcall, pOK := parseOK(c, cs)
		eOK, mOK := false, false
		for _, cd := range cs {
			// evaluate error nil
			if bo, ok := cd.V.(*ssa.BinOp); ok && isNilConst(bo.Y) && ((bo.Op == token.NEQ && !cd.Pol) || (bo.Op == token.EQL && cd.Pol)) {
				if ex, ok := bo.X.(*ssa.Extract); ok {
					if call, ok := ex.Tuple.(*ssa.Call); ok && call.Call.StaticCallee() != nil && call.Call.StaticCallee().Name() == "Evaluate" {
						eOK, evalCall = true, call
					}
				}
			}
			// match true
			v, pol := cd.V, cd.Pol
			if u, ok := v.(*ssa.UnOp); ok && u.Op == token.NOT {
				v, pol = u.X, !pol
			}
			if ex, ok := v.(*ssa.Extract); ok && ex.Index == 0 && pol {
				if call, ok := ex.Tuple.(*ssa.Call); ok && call.Call.StaticCallee() != nil && call.Call.StaticCallee().Name() == "Evaluate" {
					mOK = true
				}
			}
		}
		if pOK && eOK && mOK {
			filtered++
			// the evaluated filter is the parse result of the subscription's own stored filter
			if evalCall != nil {
				recv := evalCall.Call.Args[0]
				if ex, isE := resolve(recv).(*ssa.Extract); !isE || ex.Tuple != ssa.Value(pcall) || ex.Index != 0 {
					bad = "the filter that is evaluated is not the parse result of this call (a cached or global filter object can be stale with respect to the subscription's stored filter)"
				}
				if str, _ := validatingParse(c, pcall); str == nil || !sources(str)["field:MessageFilter"] {
					bad = "the parsed string is not the subscription's stored filter"
				}
				if !sources(evalCall.Call.Args[1])["field:Attributes"] {
					bad = "the filter is not evaluated on the message's attributes"
				}
			}
			return
		}
		bad = fmt.Sprintf("a delivery is created for a filtered subscription without parse-ok ∧ evaluate-ok ∧ match (parse=%v eval=%v match=%v)", pOK, eOK, mOK)
	})
	r.Check("C07.1", "C07.1:gate@"+fnDeliver, create.Pos(), bad == "" && absent > 0 && filtered > 0,
		fmt.Sprintf("a delivery is created iff no filter (%d path) or the stored filter parses, evaluates and matches (%d path)", absent, filtered), bad+fmt.Sprintf(" [absent paths=%d filtered paths=%d]", absent, filtered))
	// C08.5: an unparsable stored filter skips the subscription, it does not fail the publish
	okSkip := false
	for _, ret := range returnsOf(fn) {
		if isNilConst(retResult(ret, 0)) && isNilConst(retResult(ret, 1)) {
			pathsTo(fn, ret.Block(), func(cs []Cond) {
				for _, cd := range cs {
					nc := normCond(cd.V, cd.Pol)
					if bo, ok := nc.V.(*ssa.BinOp); ok && (bo.Op == token.NEQ && nc.Pol || bo.Op == token.EQL && !nc.Pol) && isNilConst(bo.Y) {
						if ex, ok := bo.X.(*ssa.Extract); ok {
							if call, ok := ex.Tuple.(*ssa.Call); ok {
								if _, isV := validatingParse(c, call); isV {
									okSkip = true
								}
							}
						}
					}
				}
			})
		}
	}
	r.Check("C08.5", "C08.5:broken-filter-skips@"+fnDeliver, fn.Pos(), okSkip, "", "a stored filter that does not parse makes the publish fail instead of skipping that subscription")
	// the only reasons to skip a filtered subscription: the filter does not parse, does not evaluate, or says no.
	// Any other path to "no delivery" (a fast path keyed on the message, e.g. "no attributes") drops messages that the
	// filter — read with the documented semantics, NOT included — would match
	okReason, nSkip := true, 0
	for _, ret := range returnsOf(fn) {
		if !(isNilConst(retResult(ret, 0)) && isNilConst(retResult(ret, 1))) {
			continue
		}
		pathsTo(fn, ret.Block(), func(cs []Cond) {
			nSkip++
			reason := false
			for _, cd := range cs {
				nc := normCond(cd.V, cd.Pol)
				// parse / evaluate error
				if bo, ok := nc.V.(*ssa.BinOp); ok && isNilConst(bo.Y) && (bo.Op == token.NEQ) == nc.Pol {
					if ex, ok := bo.X.(*ssa.Extract); ok {
						if call, ok := ex.Tuple.(*ssa.Call); ok {
							if _, isV := validatingParse(c, call); isV {
								reason = true
							}
							if call.Call.StaticCallee() != nil && call.Call.StaticCallee().Name() == "Evaluate" {
								reason = true
							}
						}
					}
				}
				// no match
				if ex, ok := nc.V.(*ssa.Extract); ok && ex.Index == 0 && !nc.Pol {
					if call, ok := ex.Tuple.(*ssa.Call); ok && call.Call.StaticCallee() != nil && call.Call.StaticCallee().Name() == "Evaluate" {
						reason = true
					}
				}
			}
			if !reason {
				okReason = false
			}
		})
	}
	r.Check("C07.1", "C07.1:skip-only-by-verdict@"+fnDeliver, fn.Pos(), okReason && nSkip > 0, "a subscription is skipped only because its filter fails to parse / evaluate or does not match", "deliverToSubscription skips a filtered subscription on a path that did not ask the filter (a fast path keyed on the message): messages the filter accepts — e.g. an attribute-less message under `NOT attributes:x` — are dropped")
}

// ---------------------------------------------------------------------------
// K7 grammar agreement

type gField struct {
	Name     string
	Tag      string
	Captured bool
	Lits     []string // alternatives of an @( … ) group, concatenated literals
}

type gType struct {
	Name   string
	Named  *types.Named
	Fields []gField
}

func grammarTypes(c *Ctx) []gType {
	p := c.PkgByPath[filterPkg]
	if p == nil {
		return nil
	}
	var out []gType
	scope := p.Types.Scope()
	for _, name := range scope.Names() {
		tn, ok := scope.Lookup(name).(*types.TypeName)
		if !ok || tn.IsAlias() {
			continue
		}
		st, ok := tn.Type().Underlying().(*types.Struct)
		if !ok {
			continue
		}
		gt := gType{Name: name, Named: tn.Type().(*types.Named)}
		has := false
		for i := 0; i < st.NumFields(); i++ {
			tag := reflect.StructTag(st.Tag(i)).Get("parser")
			if tag == "" {
				continue
			}
			has = true
			f := gField{Name: st.Field(i).Name(), Tag: tag, Captured: strings.Contains(tag, "@")}
			f.Lits = captureLits(tag)
			gt.Fields = append(gt.Fields, f)
		}
		if has {
			out = append(out, gt)
		}
	}
	return out
}

// captureLits: for a tag with a capturing group @( "a" | "b" "c" ) the literal alternatives {"a","bc"}.
func captureLits(tag string) []string {
	i := strings.Index(tag, "@(")
	if i < 0 {
		return nil
	}
	depth, j := 0, i+1
	inq := false
	for ; j < len(tag); j++ {
		ch := tag[j]
		if ch == '"' && (j == 0 || tag[j-1] != '\\') {
			inq = !inq
		}
		if inq {
			continue
		}
		if ch == '(' {
			depth++
		}
		if ch == ')' {
			depth--
			if depth == 0 {
				break
			}
		}
	}
	if j >= len(tag) {
		return nil
	}
	body := tag[i+2 : j]
	var alts []string
	cur := ""
	inq = false
	lit := ""
	onlyLits := true
	for k := 0; k < len(body); k++ {
		ch := body[k]
		switch {
		case ch == '"' && !inq:
			inq, lit = true, ""
		case ch == '"' && inq:
			inq = false
			cur += lit
		case inq:
			if ch == '\\' && k+1 < len(body) {
				k++
				lit += string(body[k])
			} else {
				lit += string(ch)
			}
		case ch == '|':
			alts = append(alts, cur)
			cur = ""
		case ch == ' ':
		default:
			onlyLits = false // identifiers such as Ident / String
		}
	}
	alts = append(alts, cur)
	if !onlyLits {
		return nil
	}
	return alts
}

// fieldsRead: fields of the receiver type read in method fn (directly).
func fieldsRead(fn *ssa.Function, named *types.Named) map[string]bool {
	out := map[string]bool{}
	var walk func(f *ssa.Function)
	walk = func(f *ssa.Function) {
		for _, b := range f.Blocks {
			for _, in := range b.Instrs {
				fa, ok := in.(*ssa.FieldAddr)
				if !ok {
					continue
				}
				if n := namedOf(fa.X.Type()); n == nil || n.Obj() != named.Obj() {
					continue
				}
				if refs := fa.Referrers(); refs != nil {
					for _, u := range *refs {
						if ld, ok := u.(*ssa.UnOp); ok && ld.Op == token.MUL {
							// the loaded value must be used
							if lr := ld.Referrers(); lr != nil && len(*lr) > 0 {
								out[fieldName(fa.X.Type(), fa.Field)] = true
							}
						}
					}
				}
			}
		}
		for _, a := range f.AnonFuncs {
			walk(a)
		}
	}
	walk(fn)
	return out
}

func ruleGrammarReads(c *Ctx, r *Rep, rule, method string) {
	gts := grammarTypes(c)
	r.Floor(rule+":grammar-types", len(gts), 5)
	nf := 0
	for _, gt := range gts {
		fn := c.Fn("(*filter." + gt.Name + ")." + method)
		if fn == nil {
			r.Fail(rule, rule+":method:"+gt.Name+"."+method, token.NoPos, "grammar type "+gt.Name+" has no "+method+" method: that alternative of the grammar cannot be "+strings.ToLower(method)+"d")
			continue
		}
		rd := fieldsRead(fn, gt.Named)
		// ... or in a private helper of the method (`e.populated()` picks the alternative that is set)
		for _, g := range c.opFuncs(fn) {
			if g == fn {
				continue
			}
			for k, v := range fieldsRead(g, gt.Named) {
				if v {
					rd[k] = true
				}
			}
		}
		for _, f := range gt.Fields {
			if !f.Captured {
				continue
			}
			nf++
			r.Check(rule, rule+":reads:"+gt.Name+"."+f.Name+"@"+method, fn.Pos(), rd[f.Name], "", "the parser captures "+gt.Name+"."+f.Name+" (`"+f.Tag+"`) but "+method+" never reads it: that piece of syntax is silently ignored")
		}
	}
	r.Floor(rule+":captured-fields", nf, 12)
}

func ruleC07_2_3(c *Ctx, r *Rep) { ruleGrammarReads(c, r, "C07.2", "Evaluate") }
func ruleC08_4(c *Ctx, r *Rep)   { ruleGrammarReads(c, r, "C08.4", "AsFilter") }

// constsOfType: string constants of the named type in package filter.
func constsOfType(c *Ctx, typeName string) []string {
	p := c.PkgByPath[filterPkg]
	var out []string
	if p == nil {
		return nil
	}
	for _, name := range p.Types.Scope().Names() {
		if k, ok := p.Types.Scope().Lookup(name).(*types.Const); ok {
			if n, ok := k.Type().(*types.Named); ok && n.Obj().Name() == typeName && k.Val().Kind() == constant.String {
				out = append(out, constant.StringVal(k.Val()))
			}
		}
	}
	sort.Strings(out)
	return out
}

// switchCases: string constants compared (==) with receiver field `field` in fn.
func switchCases(fn *ssa.Function, field string) []string {
	set := map[string]bool{}
	for _, b := range fn.Blocks {
		for _, in := range b.Instrs {
			bo, ok := in.(*ssa.BinOp)
			if !ok || bo.Op != token.EQL {
				continue
			}
			if s, isS := constString(bo.Y); isS && sources(bo.X)["field:"+field] {
				// the comparison must decide a branch
				if refs := bo.Referrers(); refs != nil {
					for _, u := range *refs {
						if _, isIf := u.(*ssa.If); isIf {
							set[s] = true
						}
					}
				}
			}
		}
	}
	var out []string
	for k := range set {
		out = append(out, k)
	}
	sort.Strings(out)
	return out
}

func ruleC07_4(c *Ctx, r *Rep) {
	gts := grammarTypes(c)
	for _, sp := range []struct{ typ, field, constType string }{{"HasAttributeValue", "Op", "AttributeOperator"}, {"HasAttributePredicate", "Predicate", "AttributePredicate"}} {
		var lits []string
		for _, gt := range gts {
			if gt.Name != sp.typ {
				continue
			}
			for _, f := range gt.Fields {
				if f.Name == sp.field {
					lits = append([]string{}, f.Lits...)
				}
			}
		}
		sort.Strings(lits)
		consts := constsOfType(c, sp.constType)
		fn := c.Fn("(*filter." + sp.typ + ").Evaluate")
		var cases []string
		if fn != nil {
			cases = switchCases(fn, sp.field)
		}
		ok := len(lits) > 0 && strings.Join(lits, "\x00") == strings.Join(consts, "\x00") && strings.Join(consts, "\x00") == strings.Join(cases, "\x00")
		r.Check("C07.4", "C07.4:"+sp.typ+"."+sp.field, token.NoPos, ok, fmt.Sprintf("grammar literals = constants = evaluated cases = %q", lits),
			fmt.Sprintf("the operator sets disagree for %s.%s: the grammar accepts %q, the constants are %q, Evaluate handles %q — an accepted operator is evaluated as an error or a declared one can never be parsed", sp.typ, sp.field, lits, consts, cases))
	}
}

// evalClosure: Evaluate methods of the grammar types and the module functions they call.
func evalClosure(c *Ctx) []*ssa.Function {
	seen := map[*ssa.Function]bool{}
	var out []*ssa.Function
	var add func(f *ssa.Function)
	add = func(f *ssa.Function) {
		if f == nil || seen[f] || len(f.Blocks) == 0 {
			return
		}
		seen[f] = true
		out = append(out, f)
		for _, b := range f.Blocks {
			for _, in := range b.Instrs {
				if ci, ok := in.(ssa.CallInstruction); ok {
					if cal := ci.Common().StaticCallee(); cal != nil && c.inModule(cal) {
						add(cal)
					}
					for _, impl := range c.privIfaceImpls(ci) {
						add(impl)
					}
				}
			}
		}
		for _, a := range f.AnonFuncs {
			add(a)
		}
	}
	for _, gt := range grammarTypes(c) {
		add(c.Fn("(*filter." + gt.Name + ").Evaluate"))
	}
	return out
}

func ruleC07_5(c *Ctx, r *Rep) {
	fs := evalClosure(c)
	r.Floor("C07.5:functions", len(fs), 6)
	allowed := map[string]bool{"strings.HasPrefix": true, "errors.New": true, "fmt.Errorf": true}
	for _, f := range fs {
		bad := ""
		for _, b := range f.Blocks {
			for _, in := range b.Instrs {
				switch x := in.(type) {
				case *ssa.Store:
					if _, isG := x.Addr.(*ssa.Global); isG {
						bad = "writes a package variable"
					}
				case *ssa.UnOp:
					if g, isG := x.X.(*ssa.Global); isG && x.Op == token.MUL {
						bad = "reads package variable " + g.Name()
					}
				case *ssa.Range:
					if isMapType(x.X.Type()) {
						bad = "iterates over a map (order is not deterministic)"
					}
				case *ssa.MapUpdate, *ssa.Go, *ssa.Select, *ssa.Send:
					bad = fmt.Sprintf("has a side effect (%T)", x)
				case *ssa.Panic:
					bad = "can panic explicitly"
				case ssa.CallInstruction:
					com := x.Common()
					if cal := com.StaticCallee(); cal != nil && !c.inModule(cal) {
						n := fnPkgPath(cal) + "." + cal.Name()
						if !allowed[n] {
							bad = "calls " + n
						}
					} else if com.IsInvoke() {
						// a private interface of the package dispatches to methods that are judged here themselves
						if len(c.privIfaceImpls(x)) == 0 {
							bad = "calls an interface method (" + com.Method.Name() + ")"
						}
					} else if cal == nil {
						if _, isB := com.Value.(*ssa.Builtin); !isB {
							bad = "calls a function value"
						}
					}
				}
			}
		}
		r.Check("C07.5", "C07.5:pure@"+c.Key(f), f.Pos(), bad == "", "no global state, no map iteration, no side effects", "filter evaluation is not a pure function of (filter, attributes): "+c.Key(f)+" "+bad)
	}
}

// ---------------------------------------------------------------------------
// C07.6 leaf and combinator shapes (idiom-bound)

func ruleC07_6(c *Ctx, r *Rep) {
	// HasAttribute: presence bit
	if fn := r.Anchor("C07.6", "(*filter.HasAttribute).Evaluate"); fn != nil {
		ok := false
		for _, ret := range returnsOf(fn) {
			if ex, isE := retResult(ret, 0).(*ssa.Extract); isE && ex.Index == 1 {
				if lk, isL := ex.Tuple.(*ssa.Lookup); isL && lk.CommaOk && sources(lk.X)["param:attrs"] && sources(lk.Index)["field:Name"] {
					ok = true
				}
			}
		}
		r.Check("C07.6", "C07.6:HasAttribute", fn.Pos(), ok, "attributes:NAME ⇔ NAME present", "`attributes:NAME` is not evaluated as presence of NAME in the message attributes")
	}
	lookupVal := func(v ssa.Value) bool {
		ex, ok := v.(*ssa.Extract)
		if !ok || ex.Index != 0 {
			return false
		}
		lk, ok := ex.Tuple.(*ssa.Lookup)
		return ok && sources(lk.X)["param:attrs"] && sources(lk.Index)["field:Name"]
	}
	fieldVal := func(v ssa.Value, f string) bool { return sources(v)["field:"+f] && !sources(v)["param:attrs"] }
	missingFalse := func(fn *ssa.Function) bool {
		for _, ret := range returnsOf(fn) {
			if cst, ok := retResult(ret, 0).(*ssa.Const); ok && cst.Value != nil && cst.Value.String() == "false" && isNilConst(retResult(ret, 1)) {
				for _, cd := range edgeConds(ret.Block()) {
					if ex, ok := cd.V.(*ssa.Extract); ok && ex.Index == 1 && !cd.Pol {
						if _, ok := ex.Tuple.(*ssa.Lookup); ok {
							return true
						}
					}
				}
			}
		}
		return false
	}
	// every return that can be true requires the attribute to be present
	presenceFirst := func(fn *ssa.Function) bool {
		for _, ret := range returnsOf(fn) {
			if !isNilConst(retResult(ret, 1)) {
				continue // error returns
			}
			if cst, ok := retResult(ret, 0).(*ssa.Const); ok && cst.Value != nil && cst.Value.String() == "false" {
				continue
			}
			if !condHas(edgeConds(ret.Block()), true, func(v ssa.Value) bool {
				ex, ok := v.(*ssa.Extract)
				if !ok || ex.Index != 1 {
					return false
				}
				lk, ok := ex.Tuple.(*ssa.Lookup)
				return ok && lk.CommaOk && sources(lk.X)["param:attrs"] && sources(lk.Index)["field:Name"]
			}) {
				return false
			}
		}
		return true
	}
	if fn := r.Anchor("C07.6", "(*filter.HasAttributeValue).Evaluate"); fn != nil {
		r.Check("C07.6", "C07.6:HasAttributeValue:presence-first", fn.Pos(), presenceFirst(fn), "", "a comparison on attribute NAME can be true although NAME is absent (a result other than false is returned on a path that did not establish presence)")
		okEq, okNe := false, false
		for _, ret := range returnsOf(fn) {
			bo, isB := retResult(ret, 0).(*ssa.BinOp)
			if !isB || !((lookupVal(bo.X) && fieldVal(bo.Y, "Value")) || (lookupVal(bo.Y) && fieldVal(bo.X, "Value"))) {
				continue
			}
			for _, cd := range edgeConds(ret.Block()) {
				cb, isC := cd.V.(*ssa.BinOp)
				if !isC || cb.Op != token.EQL || !cd.Pol || !sources(cb.X)["field:Op"] {
					continue
				}
				s, _ := constString(cb.Y)
				if s == "=" && bo.Op == token.EQL {
					okEq = true
				}
				if s == "!=" && bo.Op == token.NEQ {
					okNe = true
				}
				if s == "=" && bo.Op != token.EQL || s == "!=" && bo.Op != token.NEQ {
					okEq, okNe = false, false
				}
			}
		}
		r.Check("C07.6", "C07.6:HasAttributeValue", fn.Pos(), okEq && okNe && missingFalse(fn), "present ∧ (= ⇒ equal, != ⇒ different)",
			fmt.Sprintf("`attributes.NAME = / != \"v\"` is not evaluated as presence ∧ (in)equality of attrs[NAME] and the value (eq=%v ne=%v missing⇒false=%v)", okEq, okNe, missingFalse(fn)))
	}
	if fn := r.Anchor("C07.6", "(*filter.HasAttributePredicate).Evaluate"); fn != nil {
		r.Check("C07.6", "C07.6:HasAttributePredicate:presence-first", fn.Pos(), presenceFirst(fn), "", "hasPrefix can be true although the attribute is absent (a result other than false is returned on a path that did not establish presence)")
		ok := false
		for _, ci := range callsIn(fn, false, func(cal *ssa.Function, _ ssa.CallInstruction) bool {
			return fnPkgPath(cal) == "strings" && cal.Name() == "HasPrefix"
		}) {
			a := ci.Common().Args
			if lookupVal(a[0]) && fieldVal(a[1], "Value") {
				// and it is the returned value under Predicate == "hasPrefix"
				for _, ret := range returnsOf(fn) {
					if retResult(ret, 0) == ci.Value() {
						ok = true
					}
				}
			}
		}
		r.Check("C07.6", "C07.6:HasAttributePredicate", fn.Pos(), ok && missingFalse(fn), "present ∧ strings.HasPrefix(attrs[NAME], value)", "hasPrefix is not evaluated as strings.HasPrefix(attribute value, given prefix) on a present attribute (argument order / presence)")
	}
	if fn := r.Anchor("C07.6", "(*filter.Term).Evaluate"); fn != nil {
		ok := false
		// form (a): result != e.Not
		for _, b := range fn.Blocks {
			for _, in := range b.Instrs {
				if bo, isB := in.(*ssa.BinOp); isB && (bo.Op == token.NEQ || bo.Op == token.XOR) && (negationFlag(bo.Y, 0) || negationFlag(bo.X, 0)) && (sources(bo.X)["call:Evaluate"] || sources(bo.Y)["call:Evaluate"]) {
					for _, ret := range returnsOf(fn) {
						if dependsOnValue(retResult(ret, 0), bo) {
							ok = true
						}
					}
				}
			}
		}
		// form (b): if e.Not { result = !result } — the returned value is the negation of the evaluated result
		// exactly on the Not side and the evaluated result itself on the other
		if !ok {
			isNot := func(cs []Cond, pol bool) bool {
				for _, cd := range cs {
					nc := normCond(cd.V, cd.Pol)
					if nc.Pol == pol && sources(nc.V)["field:Not"] {
						if _, isCmp := nc.V.(*ssa.BinOp); !isCmp {
							return true
						}
					}
				}
				return false
			}
			for _, ret := range returnsOf(fn) {
				neg, plain, bad := false, false, false
				for _, alt := range valueAlternatives(retResult(ret, 0)) {
					v := alt.v
					if u, isU := v.(*ssa.UnOp); isU && u.Op == token.NOT && sources(u.X)["call:Evaluate"] {
						if isNot(alt.conds, true) && !isNot(alt.conds, false) {
							neg = true
						} else {
							bad = true
						}
						continue
					}
					if sources(v)["call:Evaluate"] {
						if isNot(alt.conds, false) {
							plain = true
						} else if isNot(alt.conds, true) {
							bad = true
						}
					}
				}
				if neg && plain && !bad {
					ok = true
				}
			}
		}
		r.Check("C07.6", "C07.6:Term-negation", fn.Pos(), ok, "result XOR Not", "NOT / '-' does not negate the term's result")
	}
	// conjunction / disjunction chains: found by what they do (a loop that evaluates each Term of a slice), not by
	// name; which chain a call is follows from the field it is given (Condition.And / Condition.Or), and a chain
	// function shared by both kinds is judged per call site with its parameters bound to that site's arguments
	isTermEval := func(call *ssa.Call) bool {
		cal := call.Call.StaticCallee()
		return cal != nil && cal.Name() == "Evaluate" && cal.Signature.Recv() != nil && typeIs(cal.Signature.Recv().Type(), filterPkg, "Term")
	}
	hasChainLoop := func(f *ssa.Function) bool {
		for _, l := range loopsOf(f) {
			for b := range l.Blocks {
				for _, in := range b.Instrs {
					if call, ok := in.(*ssa.Call); ok && isTermEval(call) {
						return true
					}
				}
			}
		}
		return false
	}
	// locateChain: the function that holds the loop over the terms, reached from f directly or through private
	// callees, with the parameter bindings accumulated along the way
	var locateChain func(f *ssa.Function, env map[*ssa.Parameter]ssa.Value, depth int) (*ssa.Function, map[*ssa.Parameter]ssa.Value)
	locateChain = func(f *ssa.Function, env map[*ssa.Parameter]ssa.Value, depth int) (*ssa.Function, map[*ssa.Parameter]ssa.Value) {
		if hasChainLoop(f) {
			return f, env
		}
		if depth >= 2 {
			return nil, nil
		}
		for _, ci := range callsIn(f, false, func(cal *ssa.Function, _ ssa.CallInstruction) bool {
			return c.inModule(cal) && len(cal.Blocks) > 0 && c.PkgOf(cal) == "filter"
		}) {
			g := ci.Common().StaticCallee()
			ne := map[*ssa.Parameter]ssa.Value{}
			for k, v := range env {
				ne[k] = v
			}
			for i, p := range g.Params {
				if i < len(ci.Common().Args) {
					ne[p] = ci.Common().Args[i]
				}
			}
			if lf, le := locateChain(g, ne, depth+1); lf != nil {
				return lf, le
			}
		}
		return nil, nil
	}
	chainFn := func(f *ssa.Function) bool {
		if f.Name() == "Evaluate" {
			return false // the grammar types' own Evaluate methods are not chain helpers
		}
		lf, _ := locateChain(f, map[*ssa.Parameter]ssa.Value{}, 0)
		return lf != nil
	}
	// decidingExit: in chain function f (parameters bound by env), does some in-loop branch leave the loop exactly when
	// the term just evaluated has the value `want`?
	decidingExit := func(f *ssa.Function, env map[*ssa.Parameter]ssa.Value, want bool) bool {
		ok := false
		withBindMap(env, func() {
			for _, l := range loopsOf(f) {
				for b := range l.Blocks {
					if len(b.Instrs) == 0 {
						continue
					}
					iff, isIf := b.Instrs[len(b.Instrs)-1].(*ssa.If)
					if !isIf {
						continue
					}
					nc := normCond(iff.Cond, true)
					// the value of the term's result on the TRUE edge of the (normalised) condition, if the condition
					// determines it
					var onTrue, known bool
					isResult := func(v ssa.Value) bool {
						v = resolve(v)
						if ex, isE := v.(*ssa.Extract); isE && ex.Index == 0 {
							if call, isC := ex.Tuple.(*ssa.Call); isC && isTermEval(call) {
								return true
							}
						}
						// the named result cell the Evaluate result was stored to
						if u, isU := v.(*ssa.UnOp); isU && u.Op == token.MUL {
							for _, st := range allocStores(u.X) {
								if ex, isE := st.Val.(*ssa.Extract); isE && ex.Index == 0 {
									if call, isC := ex.Tuple.(*ssa.Call); isC && isTermEval(call) {
										return true
									}
								}
							}
						}
						return false
					}
					if isResult(nc.V) {
						onTrue, known = nc.Pol, true
					} else if bo, isB := nc.V.(*ssa.BinOp); isB && (bo.Op == token.EQL || bo.Op == token.NEQ) {
						// result == k / result != k with k a constant, or a parameter bound to one at this call site
						for _, pair := range [][2]ssa.Value{{bo.X, bo.Y}, {bo.Y, bo.X}} {
							if !isResult(pair[0]) {
								continue
							}
							if k, isK := resolve(pair[1]).(*ssa.Const); isK && k.Value != nil && k.Value.Kind() == constant.Bool {
								kv := constant.BoolVal(k.Value)
								// on the true edge of the normalised condition: (result == k) has truth value nc.Pol
								eq := (bo.Op == token.EQL) == nc.Pol
								if eq {
									onTrue, known = kv, true
								} else {
									onTrue, known = !kv, true
								}
							}
						}
					}
					if !known {
						continue
					}
					// the test must be the one a SUCCESSFUL evaluation passes through: a result test that is only
					// reached when the term's evaluation failed (`err != nil && !result`) decides nothing on the normal path
					onErrPath := false
					for _, cd := range edgeConds(b) {
						ec := normCond(cd.V, cd.Pol)
						if bo, isB := ec.V.(*ssa.BinOp); isB && isNilConst(bo.Y) {
							if ex, isE := resolve(bo.X).(*ssa.Extract); isE && ex.Index == 1 {
								if call, isC := ex.Tuple.(*ssa.Call); isC && isTermEval(call) && (bo.Op == token.NEQ) == ec.Pol {
									onErrPath = true
								}
							}
						}
					}
					if onErrPath {
						continue
					}
					for i, sc := range b.Succs {
						if !l.Blocks[sc] {
							taken := onTrue
							if i == 1 {
								taken = !onTrue
							}
							if taken == want {
								ok = true
							}
						}
					}
				}
			}
		})
		return ok
	}
	if fn := r.Anchor("C07.6", "(*filter.Condition).Evaluate"); fn != nil {
		okA, okO := false, false
		okChainA, okChainO := false, false
		nA, nO := 0, 0
		for _, ci := range callsIn(fn, false, func(cal *ssa.Function, _ ssa.CallInstruction) bool { return c.inModule(cal) && chainFn(cal) }) {
			cal := ci.Common().StaticCallee()
			isAnd, isOr := false, false
			for _, a := range ci.Common().Args {
				src := sources(a)
				if src["field:And"] {
					isAnd = true
				}
				if src["field:Or"] {
					isOr = true
				}
			}
			if isAnd == isOr {
				okA, okO = false, false
				nA, nO = -100, -100
				continue
			}
			for _, cd := range edgeConds(ci.Block()) {
				nc := normCond(cd.V, cd.Pol)
				if _, isCmp := nc.V.(*ssa.BinOp); isCmp || !sources(nc.V)["call:Evaluate"] {
					continue
				}
				if isAnd && nc.Pol {
					okA = true
				}
				if isOr && !nc.Pol {
					okO = true
				}
			}
			env := map[*ssa.Parameter]ssa.Value{}
			for i, p := range cal.Params {
				if i < len(ci.Common().Args) {
					env[p] = ci.Common().Args[i]
				}
			}
			loopFn, loopEnv := locateChain(cal, env, 0)
			if loopFn == nil {
				continue
			}
			if isAnd {
				nA++
				okChainA = decidingExit(loopFn, loopEnv, false)
			} else {
				nO++
				okChainO = decidingExit(loopFn, loopEnv, true)
			}
		}
		r.Check("C07.6", "C07.6:AND-chain", fn.Pos(), nA == 1 && okChainA, "AND: the first false term ends the chain with that value",
			"the AND chain does not stop with the deciding value of a term (each term must be able to decide the result; overwriting the accumulated result makes `a AND b AND c` equal to `a AND c`)")
		r.Check("C07.6", "C07.6:OR-chain", fn.Pos(), nO == 1 && okChainO, "OR: the first true term ends the chain with that value",
			"the OR chain does not stop with the deciding value of a term (each term must be able to decide the result; overwriting the accumulated result makes `a OR b OR c` equal to `a OR c`)")
		r.Check("C07.6", "C07.6:Condition", fn.Pos(), okA && okO, "first term, then AND-chain only if true / OR-chain only if false", "Condition.Evaluate does not combine the first term with the AND chain (when true) / OR chain (when false)")
	}
}

type valAlt struct {
	v     ssa.Value
	conds []Cond
}

// valueAlternatives: the values v can take with the conditions under which it takes each — edges of a phi (with
// the branch that leads to it) or the stores into a local cell that v loads.
func valueAlternatives(v ssa.Value) []valAlt {
	var out []valAlt
	seen := map[ssa.Value]bool{}
	var walk func(v ssa.Value, extra []Cond, d int)
	walk = func(v ssa.Value, extra []Cond, d int) {
		if seen[v] || d > 8 {
			return
		}
		seen[v] = true
		switch x := v.(type) {
		case *ssa.Phi:
			for i, e := range x.Edges {
				pred := x.Block().Preds[i]
				cs := append(append([]Cond{}, extra...), edgeConds(pred)...)
				if len(pred.Instrs) > 0 {
					if iff, ok := pred.Instrs[len(pred.Instrs)-1].(*ssa.If); ok && len(pred.Succs) == 2 && pred.Succs[0] != pred.Succs[1] {
						cs = append(cs, normCond(iff.Cond, pred.Succs[0] == x.Block()))
					}
				}
				if _, isPhi := e.(*ssa.Phi); isPhi {
					walk(e, cs, d+1)
				} else {
					out = append(out, valAlt{e, cs})
				}
			}
			return
		case *ssa.UnOp:
			if al, ok := x.X.(*ssa.Alloc); ok && x.Op == token.MUL {
				sts := allocStores(al)
				if len(sts) > 0 {
					for _, st := range sts {
						out = append(out, valAlt{st.Val, append(append([]Cond{}, extra...), edgeConds(st.Block())...)})
					}
					return
				}
			}
		}
		out = append(out, valAlt{v, extra})
	}
	walk(v, nil, 0)
	return out
}

// ---------------------------------------------------------------------------
// C08 filter syntax

func ruleC08_1(c *Ctx, r *Rep) {
	keys := c.stmtKeys()
	n := 0
	for _, s := range c.EntShape().Stmts {
		if s.Table != "subscriptions" {
			continue
		}
		for _, m := range s.Mut("filter", "set") {
			n++
			owner := c.Owner(s)
			key := "C08.1:filter-set@" + keys[s]
			if !in(owner, fnCreateSub, "(*services.subscriberServer).UpdateSubscription") {
				r.Fail("C08.1", key, m.Pos, "subscriptions.filter is written by "+owner+", outside the validated create/update paths")
				continue
			}
			// value sites: the setter call itself for a string argument, the stores of non-nil pointers for a *string
			type site struct {
				b   *ssa.BasicBlock
				str string
			}
			var sites []site
			if kindOf(m.Arg.Type()) == 's' {
				sites = append(sites, site{m.Call.Block(), strings.TrimLeft(valKey(m.Arg), "*")})
			} else {
				var collect func(v ssa.Value, d int)
				seen := map[ssa.Value]bool{}
				collect = func(v ssa.Value, d int) {
					if seen[v] || d > 10 {
						return
					}
					seen[v] = true
					switch x := v.(type) {
					case *ssa.Phi:
						for i, e := range x.Edges {
							if isNilConst(e) {
								continue
							}
							if _, isPhi := e.(*ssa.Phi); isPhi {
								collect(e, d+1)
							} else {
								sites = append(sites, site{x.Block().Preds[i], strings.TrimLeft(valKey(e), "*")})
							}
						}
					case *ssa.UnOp:
						for _, st := range allocStores(x.X) {
							if !isNilConst(st.Val) {
								if _, isAddr := st.Val.(*ssa.FieldAddr); isAddr {
									sites = append(sites, site{st.Block(), strings.TrimLeft(valKey(st.Val), "*")})
								} else if _, isAlloc := st.Val.(*ssa.Alloc); isAlloc {
									sites = append(sites, site{st.Block(), strings.TrimLeft(valKey(st.Val), "*")})
								} else {
									collect(st.Val, d+1)
								}
							}
						}
					case *ssa.Parameter:
						// handed in by the only caller of a private helper
						if a := uniqueCallerArg(x); a != nil {
							collect(a, d+1)
						} else {
							sites = append(sites, site{m.Call.Block(), strings.TrimLeft(valKey(v), "*")})
						}
					case *ssa.Extract:
						// produced by a private helper: its own non-nil results are the value sites
						if call, ok := x.Tuple.(*ssa.Call); ok {
							if h := call.Call.StaticCallee(); h != nil && c.inModule(h) && len(h.Blocks) > 0 && h.Object() != nil && !h.Object().Exported() {
								for _, ret := range returnsOf(h) {
									if x.Index < len(ret.Results) {
										rv := retResult(ret, x.Index)
										if isNilConst(rv) {
											continue
										}
										if _, isPhi := rv.(*ssa.Phi); isPhi {
											collect(rv, d+1)
										} else if u, isU := rv.(*ssa.UnOp); isU && u.Op == token.MUL {
											collect(rv, d+1)
										} else {
											sites = append(sites, site{ret.Block(), strings.TrimLeft(valKey(rv), "*")})
										}
									}
								}
								return
							}
						}
						sites = append(sites, site{m.Call.Block(), strings.TrimLeft(valKey(v), "*")})
					default:
						if !isNilConst(v) {
							sites = append(sites, site{m.Call.Block(), strings.TrimLeft(valKey(v), "*")})
						}
					}
				}
				collect(m.Arg, 0)
			}
			ok := len(sites) > 0
			why := "no value site found"
			for _, st := range sites {
				pcall, pOK := parseOK(c, edgeConds(st.b))
				if !pOK {
					ok, why = false, "a filter string can be stored without having passed the parser (no dominating nil-error edge of ParseString): a string outside the grammar is persisted and silently matches nothing"
					continue
				}
				str, _ := validatingParse(c, pcall)
				if strings.TrimLeft(valKey(str), "*") != st.str {
					ok, why = false, "the string that is validated ("+valKey(str)+") is not the string that is stored ("+st.str+")"
				}
			}
			r.Check("C08.1", key, m.Pos, ok, "stored only after ParseString accepted the same string", why)
		}
	}
	r.Floor("C08.1", n, 2)
}

func ruleC08_2(c *Ctx, r *Rep) {
	n := 0
	for _, gt := range grammarTypes(c) {
		fn := c.Fn("(*filter." + gt.Name + ").AsFilter")
		if fn == nil {
			continue
		}
		for _, b := range fn.Blocks {
			for _, in := range b.Instrs {
				ci, ok := in.(ssa.CallInstruction)
				if !ok {
					continue
				}
				// every consumer of the raw text — the writer's WriteString or a private write helper — counts as
				// the sink; the sanitisers themselves are where the raw field is supposed to go
				if cal := ci.Common().StaticCallee(); cal != nil && (cal.Name() == "formatAttrName" || cal.Name() == "Quote" && fnPkgPath(cal) == "strconv") {
					continue
				}
				if bi, isB := ci.Common().Value.(*ssa.Builtin); isB && bi.Name() == "len" {
					continue
				}
				args := ci.Common().Args
				if !ci.Common().IsInvoke() && ci.Common().Signature().Recv() != nil && len(args) > 0 {
					args = args[1:]
				}
				for _, arg := range args {
					if bt, isBasic := arg.Type().Underlying().(*types.Basic); !isBasic || bt.Info()&types.IsString == 0 {
						continue
					}
					src := sources(arg)
					for _, leaf := range []struct{ field, san string }{{"field:Name", "call:formatAttrName"}, {"field:Value", "call:Quote"}} {
						if src[leaf.field] {
							n++
							r.Check("C08.2", fmt.Sprintf("C08.2:%s.%s@AsFilter", gt.Name, strings.TrimPrefix(leaf.field, "field:")), ci.Pos(), src[leaf.san], "",
								"the printer writes "+gt.Name+"."+strings.TrimPrefix(leaf.field, "field:")+" without "+strings.TrimPrefix(leaf.san, "call:")+": names/values containing quotes, spaces or operators print as text that does not parse back")
						}
					}
				}
			}
		}
	}
	r.Floor("C08.2", n, 4)
}

func ruleC08_3(c *Ctx, r *Rep) {
	fn := r.Anchor("C08.3", "filter.formatAttrName")
	if fn == nil {
		return
	}
	key := "C08.3:unquoted-name-is-identifier"
	// the return of the argument itself
	var ret *ssa.Return
	for _, x := range returnsOf(fn) {
		if p, ok := resolve(retResult(x, 0)).(*ssa.Parameter); ok && p == fn.Params[0] {
			ret = x
		}
	}
	if ret == nil {
		r.OK("C08.3", key, fn.Pos(), "names are always quoted")
		return
	}
	// the decision may have been moved into a private predicate (`if isIdentifier(name) { return name }`): then that
	// predicate is judged, its `return true` exits taking the place of the unquoted return
	targets := []*ssa.BasicBlock{ret.Block()}
	for _, cd := range edgeConds(ret.Block()) {
		call, isCall := cd.V.(*ssa.Call)
		if !isCall || !cd.Pol || len(call.Call.Args) != 1 || resolve(call.Call.Args[0]) != ssa.Value(fn.Params[0]) {
			continue
		}
		h := call.Call.StaticCallee()
		if h == nil || !c.inModule(h) || len(h.Blocks) == 0 || h.Object() == nil || h.Object().Exported() || len(h.Params) != 1 {
			continue
		}
		var ts []*ssa.BasicBlock
		for _, hr := range returnsOf(h) {
			if k, isK := retResult(hr, 0).(*ssa.Const); isK && k.Value != nil && k.Value.String() == "true" {
				ts = append(ts, hr.Block())
			} else if !isK {
				ts = nil
				break
			}
		}
		if len(ts) > 0 {
			fn, targets = h, ts
		}
	}
	// every path to the unquoted return establishes name != "": directly, or through a flag all of whose
	// non-false sources are such a test
	isNonEmptyTest := func(v ssa.Value, pol bool) bool {
		bo, ok := v.(*ssa.BinOp)
		if !ok {
			return false
		}
		if s, isS := constString(bo.Y); isS && s == "" && resolve(bo.X) == ssa.Value(fn.Params[0]) {
			return (bo.Op == token.NEQ && pol) || (bo.Op == token.EQL && !pol)
		}
		if z, isZ := constInt(bo.Y); isZ && z == 0 {
			if call, isC := bo.X.(*ssa.Call); isC {
				if bi, isB := call.Call.Value.(*ssa.Builtin); isB && bi.Name() == "len" && resolve(call.Call.Args[0]) == ssa.Value(fn.Params[0]) {
					return ((bo.Op == token.GTR || bo.Op == token.NEQ) && pol) || (bo.Op == token.EQL && !pol)
				}
			}
		}
		return false
	}
	var flagOK func(v ssa.Value, d int, seen map[ssa.Value]bool) bool
	flagOK = func(v ssa.Value, d int, seen map[ssa.Value]bool) bool {
		if seen[v] || d > 10 {
			return true
		}
		seen[v] = true
		switch x := v.(type) {
		case *ssa.Phi:
			for _, e := range x.Edges {
				if !flagOK(e, d+1, seen) {
					return false
				}
			}
			return true
		case *ssa.Const:
			return x.Value != nil && x.Value.String() == "false"
		case *ssa.BinOp:
			return isNonEmptyTest(x, true)
		}
		return false
	}
	nonEmpty, sawInit := true, false
	npaths := 0
	for _, tgt := range targets {
		npaths += pathsTo(fn, tgt, func(cs []Cond) {
			ok := false
			for _, cd := range cs {
				if isNonEmptyTest(cd.V, cd.Pol) {
					ok = true
				}
				if _, isPhi := cd.V.(*ssa.Phi); isPhi && cd.Pol && flagOK(cd.V, 0, map[ssa.Value]bool{}) {
					ok = true
				}
			}
			if ok {
				sawInit = true
			} else {
				nonEmpty = false
			}
		})
	}
	if npaths == 0 {
		nonEmpty = false
	}
	// the rune loop: every rune must be '_' / letter / digit-not-first, otherwise the flag is cleared
	ls := loopsOf(fn)
	okLoop, okDigit, sawDigit := len(ls) == 1, true, false
	if okLoop {
		l := ls[0]
		for b := range l.Blocks {
			for _, in := range b.Instrs {
				call, ok := in.(*ssa.Call)
				if !ok || call.Call.StaticCallee() == nil || fnPkgPath(call.Call.StaticCallee()) != "unicode" || call.Call.StaticCallee().Name() != "IsDigit" {
					continue
				}
				sawDigit = true
				idxTest := func(v ssa.Value, pol bool) bool {
					bo, ok := v.(*ssa.BinOp)
					if !ok {
						return false
					}
					z, isZ := constInt(bo.Y)
					if !isZ {
						return false
					}
					ex, isE := bo.X.(*ssa.Extract)
					if !isE || ex.Index != 1 {
						return false
					}
					if _, isNext := ex.Tuple.(*ssa.Next); !isNext {
						return false
					}
					return (bo.Op == token.GTR && z == 0 && pol) || (bo.Op == token.NEQ && z == 0 && pol) || (bo.Op == token.GEQ && z == 1 && pol) || (bo.Op == token.EQL && z == 0 && !pol)
				}
				positional := false
				for _, cd := range edgeConds(b) {
					if idxTest(cd.V, cd.Pol) {
						positional = true
					}
				}
				// or the digit's true edge leads to the index test
				if refs := call.Referrers(); refs != nil {
					for _, u := range *refs {
						if iff, isIf := u.(*ssa.If); isIf {
							t := iff.Block().Succs[0]
							if len(t.Instrs) > 0 {
								if i2, isIf2 := t.Instrs[len(t.Instrs)-1].(*ssa.If); isIf2 && (idxTest(i2.Cond, true) || idxTest(i2.Cond, false)) {
									positional = true
								}
							}
						}
					}
				}
				if !positional {
					okDigit = false
				}
			}
		}
	}
	r.Check("C08.3", key, ret.Pos(), nonEmpty && sawInit && okLoop && okDigit && sawDigit, "returned unquoted only if non-empty and every rune is '_' / letter / digit-not-first",
		fmt.Sprintf("a name can be printed unquoted although it is not an identifier the filter lexer accepts (non-empty guard=%v, per-rune loop=%v, digits only after the first rune=%v): the printed filter does not parse back", nonEmpty && sawInit, okLoop, okDigit && sawDigit))
}

// C08.6: a sub-condition is always printed inside parentheses (the grammar admits a Condition as a Term only as "(" … ")").
func ruleC08_6(c *Ctx, r *Rep) {
	fn := r.Anchor("C08.6", "(*filter.Term).AsFilter")
	if fn == nil {
		return
	}
	writes := func(in ssa.Instruction, ch rune) bool {
		ci, ok := in.(ssa.CallInstruction)
		if !ok || !ci.Common().IsInvoke() {
			return false
		}
		switch ci.Common().Method.Name() {
		case "WriteRune":
			v, isC := constInt(ci.Common().Args[0])
			return isC && rune(v) == ch
		case "WriteString":
			s, isS := constString(ci.Common().Args[0])
			return isS && s == string(ch)
		}
		return false
	}
	// every call that prints (part of) the sub-condition: receiver reached through the Sub field — in the method, or
	// in a private helper it hands the sub-condition to (`appendSub(w, e.Sub)`), which is then the function judged
	var subs []*ssa.Call
	anchorFn := fn
	for _, g := range c.opFuncs(anchorFn) {
		var found []*ssa.Call
		for _, ci := range callsIn(g, false, func(cal *ssa.Function, _ ssa.CallInstruction) bool { return cal.Name() == "AsFilter" }) {
			call := ci.(*ssa.Call)
			if len(call.Call.Args) > 0 && sources(call.Call.Args[0])["field:Sub"] {
				found = append(found, call)
			}
		}
		if len(found) > 0 {
			subs, fn = found, g
			break
		}
	}
	if len(subs) == 0 {
		r.Fail("C08.6", "C08.6:sub-condition-parenthesised", fn.Pos(), "Term.AsFilter does not print its sub-condition")
		return
	}
	open, closed := true, true
	sub := subs[0]
	for _, sc := range subs {
		o := false
		for _, b := range fn.Blocks {
			for _, in := range b.Instrs {
				if writes(in, '(') && instrDominates(in, sc) {
					o = true
				}
			}
		}
		if !o {
			open, sub = false, sc
		}
		closeBlocks := map[*ssa.BasicBlock]bool{}
		for _, b := range fn.Blocks {
			for _, in := range b.Instrs {
				if writes(in, ')') {
					closeBlocks[b] = true
				}
			}
		}
		if len(closeBlocks) == 0 {
			closed = false
		}
		for b := range reachableFrom([]*ssa.BasicBlock{sc.Block()}, closeBlocks) {
			if b == sc.Block() {
				// a return in the same block right after the call
				after := false
				for _, in := range b.Instrs {
					if in == ssa.Instruction(sc) {
						after = true
					}
					if ret, ok := in.(*ssa.Return); ok && after && !returnsNilErrorOrPropagates(ret, sc) {
						closed, sub = false, sc
					}
				}
				continue
			}
			for _, in := range b.Instrs {
				if ret, ok := in.(*ssa.Return); ok && !returnsNilErrorOrPropagates(ret, sc) {
					closed, sub = false, sc
				}
			}
		}
	}
	// a negated term is printed with its negation: on every path on which e.Not holds, a successful return is
	// preceded by the write of "NOT " (or "-"). Folding the negation into the printed comparison instead
	// (`NOT a = "v"` as `a != "v"`) changes the meaning: both comparisons are false when the attribute is absent.
	var negWrites []ssa.Instruction
	for _, b := range anchorFn.Blocks {
		for _, in := range b.Instrs {
			ci, ok := in.(ssa.CallInstruction)
			if !ok || !ci.Common().IsInvoke() {
				continue
			}
			switch ci.Common().Method.Name() {
			case "WriteString":
				if sv, isS := constString(ci.Common().Args[0]); isS && (strings.TrimSpace(sv) == "NOT" || strings.TrimSpace(sv) == "-") {
					negWrites = append(negWrites, in)
				}
			case "WriteRune":
				if v, isC := constInt(ci.Common().Args[0]); isC && rune(v) == '-' {
					negWrites = append(negWrites, in)
				}
			}
		}
	}
	negOK := len(negWrites) > 0
	var negPos token.Pos = anchorFn.Pos()
	for _, ret := range returnsOf(anchorFn) {
		if !mayReturnNilError(ret) {
			continue
		}
		underNot := false
		for _, cd := range edgeConds(ret.Block()) {
			nc := normCond(cd.V, cd.Pol)
			if _, isCmp := nc.V.(*ssa.BinOp); !isCmp && nc.Pol && sources(nc.V)["field:Not"] {
				underNot = true
			}
		}
		if !underNot {
			continue
		}
		dom := false
		for _, w := range negWrites {
			if instrDominates(w, ret) {
				dom = true
			}
		}
		if !dom {
			negOK, negPos = false, ret.Pos()
		}
	}
	r.Check("C08.6", "C08.6:negation-printed", negPos, negOK, "a negated term is printed with its NOT", "a negated term can be printed without \"NOT \" (the negation folded into the comparison or dropped): `NOT attributes.x = \"v\"` and `attributes.x != \"v\"` differ when the attribute is absent, so the printed filter is not equivalent")
	r.Check("C08.6", "C08.6:sub-condition-parenthesised", sub.Pos(), open && closed, "\"(\" precedes and \")\" follows every printed sub-condition",
		"a sub-condition can be printed without its parentheses: e.g. NOT (NOT a) prints as `NOT NOT a`, which the grammar (one NOT per term) rejects — the printed filter does not parse back")
}

// returnsNilErrorOrPropagates: true for returns that are NOT a successful end of printing: a non-nil error that
// is not simply the sub-printer's own result handed back. A `return e.Sub.Term.AsFilter(w)` IS a successful end.
func returnsNilErrorOrPropagates(ret *ssa.Return, sub *ssa.Call) bool {
	v := retLast(ret)
	if isNilConst(v) {
		return false // successful return without having closed the parenthesis
	}
	if v == ssa.Value(sub) {
		// `if err := sub.AsFilter(w); err != nil { return err }` is an error return;
		// `return sub.AsFilter(w)` hands the sub-printer's result back and succeeds when that succeeds
		return condHas(edgeConds(ret.Block()), true, func(c ssa.Value) bool {
			bo, ok := c.(*ssa.BinOp)
			return ok && bo.Op == token.NEQ && bo.X == ssa.Value(sub) && isNilConst(bo.Y)
		})
	}
	return true // an error return
}

// negationFlag: v is the Not field of a Term, or a parity of such fields (x != y, phi of flags, also loop-carried) —
// not a disjunction or another boolean combination of them (`not || inner.Not` turns NOT (NOT p) into NOT p).
func negationFlag(v ssa.Value, depth int) bool {
	return negationFlagV(v, map[ssa.Value]bool{})
}

func negationFlagV(v ssa.Value, visiting map[ssa.Value]bool) bool {
	v = resolve(v)
	if visiting[v] {
		return true // a loop-carried flag: judged by its other edges
	}
	if len(visiting) > 64 {
		return false
	}
	visiting[v] = true
	switch x := v.(type) {
	case *ssa.UnOp:
		if x.Op == token.MUL {
			if fa, ok := x.X.(*ssa.FieldAddr); ok {
				return fieldName(fa.X.Type(), fa.Field) == "Not"
			}
		}
	case *ssa.Phi:
		for _, e := range x.Edges {
			if !negationFlagV(e, visiting) {
				return false
			}
		}
		return len(x.Edges) > 0
	case *ssa.BinOp:
		if x.Op == token.NEQ || x.Op == token.XOR {
			return negationFlagV(x.X, visiting) && negationFlagV(x.Y, visiting)
		}
	}
	return false
}

package main

import (
	"fmt"
	"os"
	"strings"
	"sync"
	"time"

	"golang.org/x/tools/go/ssa"
)

// hasPanic: fn (or a module-local callee up to depth 3) contains an explicit panic.
func (c *Ctx) hasPanic(fn *ssa.Function, depth int, memo map[*ssa.Function]bool) bool {
	if v, ok := memo[fn]; ok {
		return v
	}
	memo[fn] = false
	for _, b := range fn.Blocks {
		for _, in := range b.Instrs {
			if _, ok := in.(*ssa.Panic); ok {
				memo[fn] = true
				return true
			}
			if depth < 3 {
				if call, ok := in.(*ssa.Call); ok {
					if cal := call.Call.StaticCallee(); cal != nil && c.inModule(cal) && len(cal.Blocks) > 0 && !c.EntShape().isGenerated(cal) {
						if c.hasPanic(cal, depth+1, memo) {
							memo[fn] = true
							return true
						}
					}
				}
			}
		}
	}
	return false
}

func ruleC16(c *Ctx, r *Rep) {
	hs := handlerFuncs(c)
	r.Floor("C16:handlers", len(hs), 16)
	nCtor := 0
	c.EntShape()
	type res struct {
		ai      *AI
		failure string
	}
	results := make([]res, len(hs))
	var wg sync.WaitGroup
	sem := make(chan struct{}, 12)
	for i, h := range hs {
		wg.Add(1)
		go func(i int, h *ssa.Function) {
			defer wg.Done()
			sem <- struct{}{}
			defer func() { <-sem }()
			t0 := time.Now()
			results[i] = analyseHandler(c, h)
			if os.Getenv("MB_DEBUG_AI") != "" {
				fmt.Fprintf(os.Stderr, "handler %s %.1fs budget-left %d\n", c.Key(h), time.Since(t0).Seconds(), results[i].ai.budget)
			}
		}(i, h)
	}
	wg.Wait()
	memo := map[*ssa.Function]bool{}
	for i, h := range hs {
		ai := results[i].ai
		if results[i].failure != "" {
			r.Fail("C16.1", "C16:analysis@"+c.Key(h), h.Pos(), results[i].failure)
		}
		if ai.budget <= 0 {
			r.Undecided("C16.1", "C16:budget@"+c.Key(h), h.Pos(), "analysis budget exhausted")
		}
		seen := map[string]bool{}
		for _, f := range ai.Findings {
			rule := "C16.1"
			if f.Kind == "nilderef" {
				rule = "C16.2"
			}
			key := fmt.Sprintf("%s:%s@%s:in:%s", rule, f.Kind, c.Key(h), c.Key(f.Fn))
			if seen[key] {
				continue
			}
			seen[key] = true
			msg := f.Msg + " — reachable from handler " + c.Key(h) + " via " + strings.Join(f.Chain, " → ") +
				" for some request field values; the server has no recovery interceptor, so the process terminates"
			r.Fail(rule, key, f.Pos, msg)
		}
		if len(ai.Findings) == 0 {
			r.OK("C16.1", "C16.1:no-reachable-panic@"+c.Key(h), h.Pos(), "no explicit panic is reachable for any request field values (sign/emptiness/nilness/zero-time domains)")
			r.OK("C16.2", "C16.2:no-nil-deref@"+c.Key(h), h.Pos(), "every dereference of a request sub-message is dominated by a nil test (or goes through a nil-safe getter)")
		}
		// count the constructor call sites that were examined
		var walk func(f *ssa.Function)
		walk = func(f *ssa.Function) {
			for _, ci := range callsIn(f, false, func(cal *ssa.Function, _ ssa.CallInstruction) bool {
				return c.PkgOf(cal) == "actions" && strings.HasPrefix(cal.Name(), "New") && c.hasPanic(cal, 0, memo)
			}) {
				_ = ci
				nCtor++
			}
			for _, a := range f.AnonFuncs {
				walk(a)
			}
		}
		walk(h)
	}
	r.Floor("C16.1:constructor-sites", nCtor, 5)
	// the interceptor chain has no recovery (otherwise a panic would not terminate the server; the rule stays valid either way)
}

func structTainted(a *AV) bool {
	if a == nil {
		return false
	}
	if a.Taint {
		return true
	}
	for _, f := range a.F {
		if structTainted(f) {
			return true
		}
	}
	return false
}

func analyseHandler(c *Ctx, h *ssa.Function) (out struct {
	ai      *AI
	failure string
}) {
	memo := map[*ssa.Function]bool{}
	ai := newAI(c)
	failure := ""
	{
		ai.Inline = func(cal *ssa.Function, call *ssa.Call, args []*AV) bool {
			if c.EntShape().isGenerated(cal) {
				return false
			}
			if cal.Parent() != nil {
				return true // closures run with the caller's facts
			}
			anyTaint := false
			for _, a := range args {
				if a != nil && (a.Taint || structTainted(a)) {
					anyTaint = true
				}
			}
			if anyTaint && c.hasPanic(cal, 0, memo) {
				return true
			}
			// a private validation helper: its verdict must stay tied to what it established about the request values
			if anyTaint && cal.Object() != nil && !cal.Object().Exported() && verdictLike(cal) && len(cal.Blocks) <= 40 {
				return true
			}
			for _, a := range args {
				if a != nil && a.K == 'p' && a.Taint && a.Nil != tNo {
					return true
				}
			}
			// the verdict a panicking constructor acts on: `if err := params.validate(); err != nil { panic(err) }` —
			// the receiver is a pointer to the constructor's own (request-derived) parameter struct
			if cal.Object() != nil && !cal.Object().Exported() && verdictLike(cal) && len(cal.Blocks) <= 40 && call != nil && c.hasPanic(call.Parent(), 0, memo) {
				return true
			}
			return false
		}
		entry := &aiState{vals: map[ssa.Value]*AV{}, mem: map[string]*AV{}}
		roots := map[string]bool{}
		for _, p := range h.Params {
			tn := p.Type().String()
			if strings.Contains(tn, "pubsubpb.") || strings.Contains(tn, "grpc_health_v1.") {
				if strings.Contains(tn, "Server") {
					// stream: messages arrive through Recv
					entry.vals[p] = &AV{K: 'p', Nil: tNo}
					continue
				}
				entry.vals[p] = &AV{K: 'p', Nil: tNo, Taint: true}
				roots["P:"+h.Name()+"."+p.Name()] = true
			}
		}
		ai.setTaintRoots(roots)
		// closures handed to transaction runners (and other synchronous helpers) execute with the facts of the call site
		ai.OnInstr = func(in ssa.Instruction, s *aiState) {
			call, ok := in.(*ssa.Call)
			if !ok {
				return
			}
			if call.Call.IsInvoke() && call.Call.Method.Name() == "Recv" {
				return
			}
			for _, a := range call.Call.Args {
				if mc, ok := a.(*ssa.MakeClosure); ok {
					f := mc.Fn.(*ssa.Function)
					if c.inModule(f) && ai.depth < 4 {
						ai.depth++
						st := s.clone()
						st.pred = nil
						for _, p := range f.Params {
							st.vals[p] = topOf(p.Type(), false)
							if st.vals[p].K == 'p' {
								st.vals[p].Nil = tNo
							}
						}
						ai.Run(f, st)
						ai.depth--
					}
				}
			}
		}
		func() {
			defer func() {
				if e := recover(); e != nil {
					failure = fmt.Sprintf("abstract interpretation failed: %v", e)
				}
			}()
			ai.Run(h, entry)
		}()
	}
	out.ai, out.failure = ai, failure
	return
}

package main

import "sort"

var k1Assumption = "K1 trusts ent's generated API mapping: builder setters write the column named by the generated Field*/…Column constants, and generated predicates mean what the sql.Field* call in their body says"

func allProps() []*propInfo {
	ps := allPropsUnsorted()
	sort.Slice(ps, func(i, j int) bool { return ps[i].ID < ps[j].ID })
	return ps
}

func allPropsUnsorted() []*propInfo {
	return []*propInfo{
		{
			ID: "C01",
			Explanation: "Static necessary conditions of at-least-once delivery, decided on the resolved SSA program of /repo's working tree: " +
				"C01.1 who may retire (complete/delete/re-key) delivery rows — only ack, dead-letter, seek and the three delivery prune jobs, and no raw SQL outside infrastructure; " +
				"C01.2 each prune job deletes exactly `id IN result` of a select whose atoms are exactly its justification (completed/expired/deleted-subscription older than the threshold); ack addresses exactly the requested ids; " +
				"C01.3 publish fans out over exactly the live subscriptions, the loop reaches deliverToSubscription for every element and has no early exit, every created builder is saved through CreateBulk on the transaction, and a delivery is skipped only for filtered subscriptions; " +
				"C01.4 the pull selection has exactly {completed_at IS NULL, expires_at > now, subscription_id = verified sub, attempt_at <= now} (+ the ordering gate only for ordered subscriptions); " +
				"C01.5 attempts / not_before_id have a single writer; C02.2 (shared) every update/delete of delivery rows is addressed by delivery id or scoped to the subscription resolved in the same operation. " +
				"C04.9 (shared) no two predicate lists are appended to one spare-capacity base slice when both appends can run; C13.3 (shared) the snapshot watermark is the looked-up delivery's published_at itself. " +
				"C07.6 (shared) AND / OR chains evaluate every term with the right short-circuit value. C14.3 / C14.6 (shared) the subscription's own expiry clock is restarted with its TTL (a subscription swept early takes its outstanding messages with it). C01.6 (shared) completed_at is always the current time; C14.1 / C15.1 (shared) a delivery's retention is the message retention and the expiry prune compares with the clock itself. C04.10 (shared) a request field counted in seconds is scaled by time.Second; C17.5 (shared, retention instances) an unset retention is stored as the default, not as zero. NOT decided: clock arithmetic (that attempt_at/expires_at values make a message due again), database semantics, the history-level claim itself.",
			Assumptions: []string{k1Assumption, "database executes the statements as ent renders them"},
			Rules: []ruleFn{
				{ID: "C04.10", Doc: "(shared: a modify-deadline in the wrong unit withholds the message far past its lease — past its retention) [dep] seconds fields are scaled by time.Second", Run: ruleC04_10},
				{ID: "C17.5", Doc: "(shared, retention instances: an unset retention is stored as the default, not as zero — deliveries created with zero retention are expired at once and never offered) [dom] zero durations select the documented defaults", Run: ruleC17_5, Only: `retention`},
				{ID: "C15.1", Doc: "(shared: the expiry prune removes only deliveries whose retention has lapsed) [atoms] exact selection per job; threshold", Run: ruleC15_1},
				{ID: "C14.1", Doc: "(shared: retention of a delivery is the message retention) [dep] creation timestamps", Run: ruleC14_1},
				{ID: "C01.6", Doc: "[dep] completed_at is always set to the current time, never to a request value", Run: ruleC01_6},
				{ID: "C15.2", Doc: "[who] (option) the schema is created with its foreign keys (no WithForeignKeys(false))", Run: ruleC15_2fkOption},
				{ID: "C14.3", Doc: "(shared: a subscription swept before its TTL takes its outstanding messages with it) [dom] every pull restarts the subscription clock", Run: ruleC14_3},
				{ID: "C14.6", Doc: "(shared: a subscription swept before its TTL takes its outstanding messages with it) [dep] every write of a subscription's expires_at is now + its expiration TTL (never the message retention)", Run: ruleC14_6},
				{ID: "C07.6", Doc: "(shared) leaf and combinator shapes (idiom-bound)", Run: ruleC07_6},
				{ID: "C04.9", Doc: "[alias] (shared) no predicate list is built by appending twice to one base slice with spare capacity", Run: ruleC04_9},
				{ID: "C13.3", Doc: "[atoms][dep] (shared) the snapshot watermark is the oldest outstanding delivery's published_at itself: a seek to a fresh snapshot loses nothing that was outstanding", Run: ruleC13_3},
				{ID: "C15.2", Doc: "[tab] (shared) foreign keys never cascade a delete into deliveries or messages: pruning a predecessor / parent cannot remove an outstanding delivery", Run: ruleC15_2},
				{ID: "C01.1", Doc: "[who] retirement ownership of delivery rows", Run: ruleC01_1, Ctrl: true},
				{ID: "C01.2", Doc: "[atoms] prune/ack selections are exactly their justification", Run: ruleC01_2},
				{ID: "C01.3", Doc: "[dom] publish fan-out reaches every live subscription", Run: ruleC01_3},
				{ID: "C01.4", Doc: "[atoms] pull eligibility is exact", Run: ruleC01_4},
				{ID: "C01.5", Doc: "[who] lease bookkeeping columns have one writer", Run: ruleC01_5},
				{ID: "C02.2", Doc: "[atoms] (shared) no delivery mutation reaches another subscription's rows: other subscriptions' acks/seeks cannot make a message disappear", Run: ruleC02_2},
				{ID: "C07.1", Doc: "[dom] (shared) a matching message gets its delivery: the routing decision uses the subscription's stored filter, parsed by this call", Run: ruleC07_1},
				{ID: "C09.1", Doc: "[K5] (shared) a Publish that reports success has stored its message: no storage or commit error is swallowed", Run: ruleC09_1},
				{ID: "C09.2", Doc: "[dom] (shared) the transaction helper commits iff the operation succeeded and reports commit errors", Run: ruleC09_2},
			},
		},
		{
			ID: "C02",
			Explanation: "Static necessary conditions of 'only rightful, intact messages; subscriptions independent': " +
				"C02.1 the pull selection is scoped to the verified subscription's outstanding due rows and the response is bounded by the requested maximum (LIMIT from MaxMessages or loop exit at MaxMessages); " +
				"C02.2 every update/delete of delivery rows in the module is addressed by delivery id or scoped by subscription_id = <subscription resolved in the same operation> on every path; " +
				"C02.3 message rows are immutable (no generated setter for content columns, no update statement on messages, created only by publish, deleted only by the completed-messages prune job); " +
				"C02.4 content provenance (K9 data dependence): request field -> action parameter -> column -> pull result -> gRPC field, each depending on its own source field and on no other content field; MessageIds[i] is the id of the i-th stored message. " +
				"C13.3 (shared) a snapshot records only its own subscription's deliveries; C02.4 also requires the stored payload and attributes to be the request's values unchanged. " +
				"C07.6 (shared) chain evaluation; C02.4 also: payload / attributes handed to the client are the stored field itself on every path (no special-cased or recomputed value). C02.4 also: every content field of the publish parameters is written on every path to the publish of each message. C12.8 (shared) a resource is addressed by its whole name (no prefix match outside the List scopes); C17.1 / C17.2 (shared, dead-letter instances) the dead-letter topic stored is the request's, and an update that clears the policy is saved. NOT decided: JSON value equality through jsonb/text storage, duplicates within one response (primary-key fact), histories.",
			Assumptions: []string{k1Assumption, "protobuf/ent field names correspond one-to-one as in the generated code"},
			Rules: []ruleFn{
				{ID: "C12.8", Doc: "(shared: deleting or changing one subscription never reaches another whose name merely starts the same) [atoms] a resource is addressed by its whole name", Run: ruleC12_8},
				{ID: "C17.1", Doc: "(shared, dead-letter instances: the dead-letter topic stored at creation is the one the request names, not the source topic) [dep] create mapping", Run: ruleC17_1, Only: `DeadLetter|MaxDeliveryAttempts`},
				{ID: "C17.2", Doc: "(shared, dead-letter instances: an update that clears the dead-letter policy really removes it — forwarding that is no longer configured does not happen) [atoms] update-mask locality", Run: ruleC17_2, Only: `noop-shortcut|dead_letter_policy`},
				{ID: "C07.6", Doc: "(shared) leaf and combinator shapes (idiom-bound)", Run: ruleC07_6},
				{ID: "C13.3", Doc: "[atoms] (shared) a snapshot records the ack state of ITS subscription only", Run: ruleC13_3},
				{ID: "C02.1", Doc: "[atoms] pull scoping and response bound", Run: ruleC02_1},
				{ID: "C02.2", Doc: "[atoms] no unscoped delivery mutation", Run: ruleC02_2, Ctrl: true},
				{ID: "C02.3", Doc: "[who] messages are immutable", Run: ruleC02_3},
				{ID: "C02.4", Doc: "[dep] content provenance", Run: ruleC02_4},
				{ID: "C06.4", Doc: "[dom][who] (shared) dead-letter forwarding loads the original message whole, so the target subscriptions' filters see its attributes", Run: ruleC06_4},
				{ID: "C07.1", Doc: "[dom] (shared) a delivery is created only if the subscription's stored filter, parsed by this call, matches the message", Run: ruleC07_1},
			},
		},
		{
			ID: "C03",
			Explanation: "Static necessary conditions of 'ack is final and idempotent': " +
				"C03.1 deliveries.completed_at is cleared only by the two seek actions; C03.2 the pull selection excludes completed rows on every path; " +
				"C03.3 delivery rows are created only by deliverToSubscription, called only from publish and dead-letter forwarding (no path re-enqueues an acked message); " +
				"C03.4 ack/nack/modify-deadline return only errors that originate from storage/helper calls (no self-made error for unknown, stale or foreign ids) and their bulk statements are addressed by id IN <ids>. " +
				"C06.5 (shared) a nack selects only outstanding rows, so a late nack of an acked id neither forwards it to the dead-letter topic nor rewrites it. Deliberately not demanded: the completed_at IS NULL guard in modify-deadline (dropping it does not resurrect an acked message: the pull excludes completed rows). C01.2 (shared) ack statements are keyed by exactly the request's ids; C03.5 ack ids are converted completely and in place or the request fails; C04.9 (shared) no aliased predicate appends; C09.2 / C09.3 (shared) commit errors are reported. C03.6 every StreamingPull frame, the opening one included, reaches the streamer through adaptIn. C06.1 (shared) only pull, nack and the sweep dead-letter. C02.2 (shared) every delivery mutation is scoped to the resolved subscription. C17.6 (shared, stream adapter) an ack list of any length >= 1 reaches the ack action; C09.8 (shared) no error becomes status OK; C06.2 (shared, sweep selection) the dead-letter sweep takes outstanding rows only. NOT decided: the history-level claim.",
			Assumptions: []string{k1Assumption},
			Rules: []ruleFn{
				{ID: "C17.6", Doc: "(shared, stream adapter instances: an ack list of any length ≥ 1 on a StreamingPull frame reaches the ack action) [dom] presence guards", Run: ruleC17_6, Only: `adaptIn`},
				{ID: "C06.2", Doc: "(shared, sweep selection: the dead-letter sweep never takes an acknowledged delivery and forwards it) [atoms] sweep selection", Run: ruleC06_2, Only: `sweep-select`},
				{ID: "C09.8", Doc: "(shared: an Acknowledge whose transaction failed is not reported as OK) [tab] no error is converted to a gRPC status with code OK", Run: ruleC09_8},
				{ID: "C02.2", Doc: "(shared: a mutation that is not scoped to the resolved subscription un-acks or acks other subscriptions' deliveries) [atoms] (shared) no delivery mutation reaches another subscription's rows: other subscriptions' acks/seeks cannot make a message disappear", Run: ruleC02_2},
				{ID: "C06.1", Doc: "(shared: only pull, nack and the sweep may dead-letter: a modify-deadline that does so forwards deliveries a late nack must not touch) [who] callers of deadLetterDelivery", Run: ruleC06_1, Ctrl: true},
				{ID: "C03.6", Doc: "[dep] every StreamingPull frame (the opening one included) reaches the streamer through adaptIn", Run: ruleC03_6},
				{ID: "C04.9", Doc: "[alias] (shared) no predicate list is built by appending twice to one base slice with spare capacity", Run: ruleC04_9},
				{ID: "C01.2", Doc: "[atoms] (shared) the ack addresses exactly the requested ids (every one of them): `id IN ids ∧ completed_at IS NULL`, nothing narrower", Run: ruleC01_2},
				{ID: "C03.1", Doc: "[who] completion is undone only by seek", Run: ruleC03_1, Ctrl: true},
				{ID: "C03.2", Doc: "[atoms] pull excludes completed rows", Run: ruleC03_2},
				{ID: "C03.3", Doc: "[who] delivery rows are created only on publish/dead-letter", Run: ruleC03_3, Ctrl: true},
				{ID: "C03.4", Doc: "[K5] idempotent ack/nack/modify-deadline", Run: ruleC03_4},
				{ID: "C03.5", Doc: "[K5][dep] the request's ack ids reach the action complete and in place, or the request fails", Run: ruleC03_5},
				{ID: "C06.5", Doc: "[atoms] (shared) a nack's candidates are outstanding: a late nack of an acked id has no side effect (no dead-letter forward, no reschedule)", Run: ruleC06_5},
				{ID: "C09.6", Doc: "[dep] (shared) Execute is re-executable: a retried Acknowledge acks the same ids", Run: ruleC09_6},
				{ID: "C09.2", Doc: "[dom] (shared) a successful Acknowledge is a committed one: the transaction runner reports a failed commit", Run: ruleC09_2},
				{ID: "C09.3", Doc: "[K4] (shared) ...and so do the commit hooks the ack registers (they pass the Commit error on)", Run: ruleC09_3},
			},
		},
		{
			ID: "C04",
			Explanation: "Static necessary conditions of the redelivery lease: " +
				"C04.1 the pull selection requires attempt_at <= now on every path and the next-attempt lookup does not; " +
				"C04.2 the selection takes FOR UPDATE SKIP LOCKED on deliveries whenever the dialect is not SQLite (no other condition); " +
				"C04.3 selection and lease update run on the same tx of one closure; each delivered element adds exactly 1 to attempts and sets attempt_at from the SAME element's deadline, which is now + NextDelayFor(sub, attempts+1) (+jitter); the update loop covers every delivered element; " +
				"C04.4 modify-deadline carries `attempt_at < X` over the same X it sets, skipped only when Delay <= 0; C04.5 nack reschedules each delivery by now + the delay NextDelayFor(sub, d.Attempts) returned for that same delivery; C04.6 reported attempt = attempts + 1. " +
				"C04.7 shape of NextDelayFor; C04.8 the stream adapter folds per-id deadlines with max; C04.9 no two predicate lists are appended to one base slice with spare capacity when both appends can run in one execution (the later append overwrites the earlier guard). " +
				"C04.8 also: modify-deadline ids of a stream request go to the delay action, never to the nack queue. C04.1 also: the wake-up lookup takes the earliest attempt_at; C04.10 seconds fields are scaled by time.Second; C17.2 (shared, retry-policy instances). NOT decided: the numeric backoff formula, jitter bound and saturation; PostgreSQL row-lock semantics; 'handed out again once the deadline has passed'.",
			Assumptions: []string{k1Assumption, "FOR UPDATE SKIP LOCKED / SQLite immediate transactions give exclusivity (database semantics)"},
			Rules: []ruleFn{
				{ID: "C04.10", Doc: "[dep] a request field counted in seconds becomes a duration by multiplication with time.Second", Run: ruleC04_10},
				{ID: "C17.2", Doc: "(shared, retry_policy instances: an update of the retry policy stores the minimum and maximum the request gives, and clears the absent one) [atoms] update-mask locality", Run: ruleC17_2, Only: `retry_policy|noop-shortcut`},
				{ID: "C04.9", Doc: "[alias] (shared) no predicate list is built by appending twice to one base slice with spare capacity", Run: ruleC04_9},
				{ID: "C04.1", Doc: "[atoms] due-only selection; lookup unrestricted", Run: ruleC04_1},
				{ID: "C04.2", Doc: "[atoms] row lock on every non-SQLite path", Run: ruleC04_2},
				{ID: "C04.3", Doc: "[dom][dep] lease taken in the selecting transaction, per element", Run: ruleC04_3},
				{ID: "C04.4", Doc: "[atoms] postpone-only modify-deadline", Run: ruleC04_4},
				{ID: "C04.5", Doc: "[dep] nack reschedules by the backoff", Run: ruleC04_5},
				{ID: "C04.6", Doc: "[dep] reported attempt number", Run: ruleC04_6},
				{ID: "C09.2", Doc: "[dom] (shared) a pull that reports success has committed its leases (attempt count and deadline): the transaction runner reports a failed commit", Run: ruleC09_2},
				{ID: "C04.8", Doc: "[dom] the stream adapter folds per-id modify-deadline values with max (a positive value only postpones)", Run: ruleC04_8},
				{ID: "C04.7", Doc: "[dep][tab] shape of the backoff: depends on attempt and policy, factor 1.1, defaults 10 s / 10 min, capped, jitter < 1 s", Run: ruleC04_7},
			},
		},
		{
			ID: "C05",
			Explanation: "Static necessary conditions of ordered delivery: " +
				"C05.1 the predecessor chosen at publish time belongs to the same ordering key (join messages, order_key = m.OrderKey); C05.2 the lookup is exactly 'latest non-expired delivery of this subscription' (no further restricting atom, ORDER BY published_at DESC, First); " +
				"C05.3 the link is set whenever ordered ∧ keyed ∧ found and lookup errors other than not-found are returned; " +
				"C05.4 every pull-side query carries the gate LEFT JOIN predecessor ∧ (no predecessor ∨ predecessor completed ∨ predecessor expired) under sub.OrderedDelivery and nothing else; " +
				"C05.5 deliveries.not_before_id is ON DELETE SET NULL in the ent migrate schema and in the last SQL definition of the constraint. " +
				"C01.5 (shared) re-opening mutators keep not_before; C05.6 a fresh clock reading per published message. " +
				"C13.1 (shared) a time seek re-opens only unexpired deliveries; C15.2 (shared) the schema is created with its foreign keys. C02.4 (shared, ordering-key instances) each message of a batch is stored with its own ordering key; C17.2 (shared, ordering instances) only an update naming enable_message_ordering changes ordered delivery. NOT decided: ties of published_at inside one batch, interplay with seek-to-snapshot, the history-level order itself.",
			Assumptions: []string{k1Assumption},
			Rules: []ruleFn{
				{ID: "C02.4", Doc: "(shared, ordering-key instances: each message of a batch is stored with its own ordering key) [dep] content provenance", Run: ruleC02_4, Only: `OrderKey|OrderingKey|order_key`},
				{ID: "C17.2", Doc: "(shared, ordering instances: only an update naming enable_message_ordering changes ordered delivery) [atoms] update-mask locality", Run: ruleC17_2, Only: `enable_message_ordering|ordered_delivery`},
				{ID: "C13.1", Doc: "(shared: a backward seek re-opens only unexpired deliveries: an expired predecessor would be revived behind its successor) [atoms] seek-to-time is a partition", Run: ruleC13_1},
				{ID: "C15.2", Doc: "[who] (option) the schema is created with its foreign keys (no WithForeignKeys(false))", Run: ruleC15_2fkOption},
				{ID: "C01.5", Doc: "[who] (shared) the predecessor link and the attempt counter of a delivery are written by nobody but the creator / the pull", Run: ruleC01_5},
				{ID: "C05.1", Doc: "[atoms] predecessor of the same key; exact lookup shape (C05.2)", Run: ruleC05_1_2},
				{ID: "C05.3", Doc: "[dom] link set when found; errors returned", Run: ruleC05_3},
				{ID: "C05.4", Doc: "[atoms] the eligibility gate", Run: ruleC05_4},
				{ID: "C05.5", Doc: "[tab] predecessor FK is SET NULL", Run: ruleC05_5},
				{ID: "C05.6", Doc: "[dep] every published message gets its own clock reading (no ties in the predecessor lookup)", Run: ruleC05_6},
			},
		},
		{
			ID: "C06",
			Explanation: "Static necessary conditions of dead-lettering: " +
				"C06.1 deadLetterDelivery is called only from pull, nack and the sweep; C06.2 the pull and nack call sites are dominated by HasFullDeadLetterConfig() ∧ attempts >= *MaxDeliveryAttempts, HasFullDeadLetterConfig requires max attempts set and > 0 and a topic, the sweep selects outstanding due rows past the limit of live subscriptions with a full policy; " +
				"C06.3 after a successful dead-letter call the same iteration neither appends the delivery to the pull result nor reschedules it; " +
				"C06.4 the source delivery (data.DeliveryID) is completed on the same tx on every successful path, the forward set is the live subscriptions of the live dead-letter topic, every one reaches deliverToSubscription, the forwarded message is the original row loaded whole by id; " +
				"C06.5 a nack's candidates are outstanding (id IN ids, completed_at IS NULL, expires_at > now, in the query) and its dead-letter / reschedule loop walks the selected rows (each candidate once), not the request's id list. " +
				"C17.4 (shared) a dead-letter topic is attached only as the entity a lookup returned for this request. C06.4 also: the retiring update is addressed by the delivery id and nothing else. C06.7 the attempt limit an update stores is the request's value if non-zero, else the default. C06.2 also: the trigger compares the stored attempt count and limit themselves (no arithmetic); C17.6 (shared, dead-letter instances) a policy of one attempt is stored. NOT decided: 'exactly once' under concurrent PostgreSQL transactions, counting N over histories, topology effects.",
			Assumptions: []string{k1Assumption},
			Rules: []ruleFn{
				{ID: "C17.6", Doc: "(shared, dead-letter instances: a policy of one attempt is stored as a policy) [dom] presence guards", Run: ruleC17_6, Only: `MaxDeliveryAttempts|DeadLetter`},
				{ID: "C06.7", Doc: "[dom] the attempt limit stored by an update is the request's value if non-zero, else the default", Run: ruleC06_7},
				{ID: "C17.4", Doc: "[dep] (shared) a dead-letter topic is attached only from a lookup made for the request (live row), never from a cached edge", Run: ruleC17_4},
				{ID: "C06.1", Doc: "[who] callers of deadLetterDelivery", Run: ruleC06_1, Ctrl: true},
				{ID: "C06.2", Doc: "[dom][atoms] trigger condition", Run: ruleC06_2},
				{ID: "C06.3", Doc: "[dom] dead-lettered xor delivered/rescheduled", Run: ruleC06_3},
				{ID: "C06.4", Doc: "[dom][who] forward and retire in one step", Run: ruleC06_4},
				{ID: "C06.5", Doc: "[atoms] nack candidates are outstanding", Run: ruleC06_5},
				{ID: "C06.6", Doc: "[dep][tab] the record handed to the dead-letter routine describes this delivery (field mapping, scan tags)", Run: ruleC06_6},
				{ID: "C09.1", Doc: "[K5] (shared) a storage error inside forwarding/retiring aborts the transaction: the two stay one step", Run: ruleC09_1},
			},
		},
		{
			ID: "C12",
			Explanation: "Static necessary conditions of 'one live resource per name; Get/List show exactly the live set': " +
				"C12.1 every lookup of a topic/subscription by name also requires deleted_at IS NULL (module-wide); C12.2 create checks for a live row of the name (→ ErrExists), maps a unique violation on save to ErrExists, the handlers answer AlreadyExists for it, and no re-wrap of a possibly-storage error on that path cuts the error chain (fmt.Errorf without %w); " +
				"C12.3 soft delete is {deleted_at:set, live:clear} together, by the three soft-deleters only; nobody clears deleted_at or re-sets live; hard deletes only by the prune jobs; " +
				"C12.4 unique (name, live) on topics and subscriptions and unique name on snapshots in the ent schema and in the SQL migrations; " +
				"C12.5 each List handler's prefix kind equals its entity's name-validator kind, keyset pagination is consistent (ORDER BY id ASC, id > token only when a token is given, LIMIT pageSize, next token = last SCANNED row iff a full page was scanned); " +
				"C12.6 project scoping is case-exact (every listed row passes strings.HasPrefix(row.Name, prefix) over the same prefix, or the SQL atom is case-exact). " +
				"C12.2 also: nothing classifies the save error before the duplicate-key test in a way a unique violation can satisfy; the classifier answers yes exactly for SQLSTATE 23505 of a *pgconn.PgError or the SQLite sibling's verdict. " +
				"C12.5 also: the scanned rows are not sorted or overwritten before the page token is taken; C17.4 (shared). C12.7 every lookup of snapshots selects by name / id / prefix only (the siblings agree on which snapshots exist). C15.5 (shared) a topic's snapshots, and only they, are removed with it. C12.8 a statement narrowed by the name column compares it for equality (List scopes by separator-terminated prefix excepted). NOT decided: races under PostgreSQL isolation levels, histories, 'inherits no backlog' beyond C12.3.",
			Assumptions: []string{k1Assumption, "SQLite evaluates LIKE case-insensitively, PostgreSQL case-sensitively (documented behaviour)"},
			Rules: []ruleFn{
				{ID: "C12.8", Doc: "[atoms] a resource is addressed by its whole name: every lookup narrowed by the name column compares it for equality", Run: ruleC12_8, Ctrl: true},
				{ID: "C15.5", Doc: "(shared: a topic's snapshots are removed with it, and only they) [atoms] child tables of topics that no job prunes are emptied, unconditionally, when the topic is deleted", Run: ruleC15_5},
				{ID: "C12.7", Doc: "[atoms] every lookup of snapshots selects by name / id / prefix only: the siblings agree on which snapshots exist", Run: ruleC12_7},
				{ID: "C17.4", Doc: "[dep] (shared) a dead-letter topic is attached only from a lookup made for the request (live row), never from a cached edge", Run: ruleC17_4},
				{ID: "C12.1", Doc: "[atoms] live-only name resolution", Run: ruleC12_1, Ctrl: true},
				{ID: "C12.2", Doc: "[dom] create: exists check, duplicate-key mapping, AlreadyExists", Run: ruleC12_2},
				{ID: "C12.2", Doc: "[K5] error chain preserved (with %w) between the driver and the duplicate-key test", Run: ruleC12_2chain},
				{ID: "C12.2", Doc: "[dom] the duplicate-key classifier says yes exactly for SQLSTATE 23505 / the SQLite sibling", Run: ruleC12_2classifier},
				{ID: "C12.3", Doc: "[atoms][who] soft delete discipline", Run: ruleC12_3},
				{ID: "C12.4", Doc: "[tab] unique indexes", Run: ruleC12_4},
				{ID: "C12.5", Doc: "[tab][atoms] List siblings agree; keyset pagination; case-exact scoping (C12.6)", Run: ruleC12_5_6},
			},
		},
		{
			ID: "C13",
			Explanation: "Static necessary conditions of 'seek restores exactly the requested backlog': " +
				"C13.1 seek-to-time = ack{published_at <= T} / re-open{published_at > T ∧ completed} over the same T = the requested time, both scoped to the resolved subscription, no further restricting atom, re-open sets {completed_at:clear, expires_at:=now+MessageTTL, attempt_at:=now}; " +
				"C13.2 seek-to-snapshot = ack{< B} ∪ ack{IN L} / re-open{>= B ∧ NOT IN L ∧ completed} over the resolved snapshot's watermark B and id list L, every update scoped to the resolved subscription, same re-open mutators; " +
				"C13.3 snapshot contents: B = published_at of the oldest outstanding delivery of the subscription, L = messages of the subscription's topic at/after B whose delivery on THIS subscription is completed (or absent). " +
				"C13.3 also: the stored watermark is the published_at field of the looked-up delivery itself (no rounding, no other column). " +
				"C13.1 also: the acknowledging half of a seek rewrites completed_at only. C01.6 (shared) completed_at is the current time; C13.1 also: the re-opening half of a time seek is restricted to unexpired deliveries. NOT decided: the set equality over histories; join semantics of the id-list query.",
			Assumptions: []string{k1Assumption},
			Rules: []ruleFn{
				{ID: "C01.6", Doc: "[dep] completed_at is always set to the current time, never to a request value", Run: ruleC01_6},
				{ID: "C13.1", Doc: "[atoms] seek-to-time is a partition", Run: ruleC13_1},
				{ID: "C13.2", Doc: "[atoms] seek-to-snapshot", Run: ruleC13_2},
				{ID: "C13.3", Doc: "[dep] snapshot contents agree", Run: ruleC13_3},
			},
		},
		{
			ID: "C14",
			Explanation: "Static necessary conditions of 'retention, expiry and delay follow the configured durations': " +
				"C14.1 a delivery is created with expires_at = now + s.MessageTTL, attempt_at = now + s.DeliveryDelay, published_at = now (idiom-bound: time.Time.Add of a conversion of the field); C14.2 the pull requires expires_at > now; " +
				"C14.3 every pull restarts the subscription clock: a refresh (expires_at = now + ttl) in its own committed transaction precedes the wait loop, and applyResults refreshes on every successful path; " +
				"C14.4 the expiry sweep selects exactly expires_at < now (live) rows and soft-deletes exactly those; C14.5 the delay injector rejects negative delays before storing. " +
				"Revived messages get fresh retention: C13.1/C13.2 re-open mutators (evaluated under C13). C14.6 every write of a subscription's expires_at is now + its expiration TTL and derives from nothing that is the message retention. C14.6 also: where a statement stores a new ttl the deadline is computed from that value; C17.5 (shared) zero durations select the defaults. C14.4 also: the sweep selects live rows only (deleted_at IS NULL is required). C15.3 (shared) the expiry sweep's service runs the expiry action; C17.2 (shared, expiration-policy instances) a TTL update restarts expires_at. NOT decided: exactness of durations, timing around deadlines, the interval codec.",
			Assumptions: []string{k1Assumption},
			Rules: []ruleFn{
				{ID: "C17.2", Doc: "(shared, expiration_policy instances: an update of the TTL restarts the expiry clock with the new TTL) [atoms] update-mask locality", Run: ruleC17_2, Only: `expiration_policy`},
				{ID: "C15.3", Doc: "(shared, expiry sweep: the service registered for subscription expiry runs the expiry action) [tab] registry", Run: ruleC15_3, Only: `NewDeleteExpiredSubscriptions`},
				{ID: "C17.5", Doc: "[dom] (shared) zero durations select the documented defaults", Run: ruleC17_5},
				{ID: "C14.1", Doc: "[dep] creation timestamps", Run: ruleC14_1},
				{ID: "C14.2", Doc: "[atoms] not delivered after retention", Run: ruleC14_2},
				{ID: "C14.3", Doc: "[dom] every pull restarts the subscription clock", Run: ruleC14_3},
				{ID: "C14.4", Doc: "[atoms] expiry sweep", Run: ruleC14_4},
				{ID: "C14.5", Doc: "[K6] negative delay rejected", Run: ruleC14_5},
				{ID: "C14.6", Doc: "[dep] every write of a subscription's expires_at is now + its expiration TTL (never the message retention)", Run: ruleC14_6},
				{ID: "C01.3", Doc: "[dom] (shared) the fan-out loads whole subscription rows: retention and delivery delay are not read as zero", Run: ruleC01_3},
				{ID: "C13.1", Doc: "[atoms] (shared) seek-to-time re-open gives fresh retention", Run: ruleC13_1},
				{ID: "C13.2", Doc: "[atoms] (shared) seek-to-snapshot re-open gives fresh retention", Run: ruleC13_2},
			},
		},
		{
			ID: "C15",
			Explanation: "Static necessary conditions of 'pruning is invisible and converges': " +
				"C15.1 each of the six prune jobs deletes exactly `id IN result` of a select whose atoms are exactly its justification (completed / expired / deleted-subscription deliveries; parentless messages, subscriptions, topics with NOT EXISTS children), with the age threshold computed as time.Now() − MinAge inside Execute; " +
				"C15.2 referential actions: every foreign key is NO ACTION except not_before_id and dead_letter_topic_id (SET NULL), no CASCADE, in the ent schema and the SQL migrations; " +
				"C15.3 every maintenance action constructor is registered as a background service, and the dead-letter sweep is registered; C15.4 the service loops wait on a ticker (or re-arm their timer on every path); C01.1 / C02.3 (shared) nothing else deletes delivery or message rows. " +
				"C15.5 every child table of topics with a NO ACTION foreign key that no prune job deletes from (snapshots) is emptied by DeleteTopic with exactly `fk IN (ids)`. " +
				"C15.1 also: the expiry prune compares expires_at with the clock itself; C15.2 also: no WithForeignKeys(false); C14.4 / C01.6 (shared). C09.2 (shared, runOnce) a failed prune round is rolled back. NOT decided: metamorphic equality of traces, convergence at the fixpoint.",
			Assumptions: []string{k1Assumption},
			Rules: []ruleFn{
				{ID: "C09.2", Doc: "(shared, prune rounds: a failed round is rolled back, so no job keeps the write lock and stays stuck) [dom] runOnce commits or rolls back", Run: ruleC09_2, Only: `runOnce`},
				{ID: "C14.4", Doc: "(shared: a sweep that re-selects deleted subscriptions re-stamps them: they never age past the prune threshold) [atoms] expiry sweep", Run: ruleC14_4},
				{ID: "C01.6", Doc: "[dep] completed_at is always set to the current time, never to a request value", Run: ruleC01_6},
				{ID: "C15.2", Doc: "[who] (option) the schema is created with its foreign keys (no WithForeignKeys(false))", Run: ruleC15_2fkOption},
				{ID: "C15.1", Doc: "[atoms] exact selection per job; threshold", Run: ruleC15_1},
				{ID: "C15.2", Doc: "[tab] referential actions", Run: ruleC15_2},
				{ID: "C15.3", Doc: "[tab] registry", Run: ruleC15_3},
				{ID: "C15.4", Doc: "[dom] maintenance loops keep waking", Run: ruleC15_4},
				{ID: "C15.5", Doc: "[atoms] child tables of topics that no job prunes are emptied, unconditionally, when the topic is deleted", Run: ruleC15_5},
				{ID: "C01.1", Doc: "[who] (shared) delivery rows are removed only by the three delivery prune jobs, each with its justification", Run: ruleC01_1},
				{ID: "C02.3", Doc: "[who] (shared) message rows are removed only by the completed-messages job", Run: ruleC02_3},
			},
		},
		{
			ID: "C09",
			Explanation: "Static necessary conditions of 'all-or-nothing under storage failure': " +
				"C09.1 (K5 error flow) in every function of package actions and of the services files that implement the listed operations, the error of every storage/transaction call is propagated: on every path where it is non-nil the function returns a non-nil error, unless the path passed an enumerated classification test on that error (not-found, duplicate-key, errors.Is/As, retry predicate); " +
				"C09.2 DoTx marks success only when inner returned nil, commits iff success and rolls back otherwise, and a Commit/Rollback error reaches the result unless the result already is a context error; pruneService.runOnce commits only on success and rolls back on every other exit; " +
				"C09.3 (K4) every wake-up call in package actions sits in an ent.CommitFunc registered through tx.OnCommit and is dominated by the nil edge of the wrapped Commit; outside actions only the LISTEN/NOTIFY receiver may wake; " +
				"C09.4 a Publish batch shares one transaction, a stream request's acks and nacks share one, no unary handler opens a transaction inside a loop, a mutation outside a transaction is the single statement of its operation; " +
				"C09.5 no unary handler returns an error on a path where its transaction already committed; C09.6 no action Execute updates one of its own parameters from that parameter's previous value (the retrying runner re-executes the same operation). " +
				"C09.9 the ids woken after a commit are the transaction's own values, never package-level state shared between transactions. C09.1 also: an error carried round a loop is examined inside the loop; C09.8 follows code-picking helpers and named results that may hold their zero value. NOT decided: driver/database atomicity, cancellation timing, 'retry has the same effect', the pull's first (expiry-refresh) transaction committing before a later one fails.",
			Assumptions: []string{k1Assumption, "the SQL driver makes a transaction atomic; Rollback undoes every statement of it"},
			Rules: []ruleFn{
				{ID: "C10.8", Doc: "[dep] (C09.9 clause) the ids woken after a commit are the transaction's own values, never package-level state shared between transactions", Run: ruleC10_8},
				{ID: "C09.1", Doc: "[K5] no storage error is dropped inside a transaction", Run: ruleC09_1, Ctrl: true},
				{ID: "C09.2", Doc: "[dom] transaction helpers commit iff success", Run: ruleC09_2},
				{ID: "C09.3", Doc: "[K4][who] wake-ups only after a successful commit", Run: ruleC09_3, Ctrl: true},
				{ID: "C09.4", Doc: "[dom] one operation, one transaction", Run: ruleC09_4},
				{ID: "C09.5", Doc: "[dom] no error after commit in unary handlers", Run: ruleC09_5},
				{ID: "C09.6", Doc: "[dep] Execute is re-executable (retry has the same effect)", Run: ruleC09_6},
				{ID: "C09.7", Doc: "[dom] the retrying runner returns its last run's result and re-runs only accepted failures", Run: ruleC09_7},
				{ID: "C09.8", Doc: "[tab] no error is converted to a gRPC status with code OK", Run: ruleC09_8},
			},
		},
		{
			ID: "C10",
			Explanation: "Static, schedule-independent necessary conditions of 'no lost wake-up': " +
				"C10.1 in the pull loop and in the streamer's sender and refresh goroutines, a PublishAwaiter registration precedes every delivery query on every path from the function entry and from every wake edge of the (single-use) notifier case of the blocking select; C10.2 the select waits on a channel that only ever holds registration results; " +
				"C10.3 the broadcast loops of WakePublishListeners, wakeModifyListeners, WakeAllInternal and of the commit hooks have no exit other than their range condition; " +
				"C10.4 every writer that can make a message deliverable (create delivery, zero/negative modify-deadline, seeks, ack, dead-letter, prune-expired) notifies the affected subscription on every successful path, skipping only when the mutation's own result is empty; " +
				"C10.5 = C09.3 (wake after the commit, so the re-query sees the change); C10.6 the waiter/hook maps are accessed only with nmu held (K3 lockset); C10.7 each closed waiter channel is removed from its set under the same lock. " +
				"C10.1 follows the wait into a private helper (every way out of the call is a possible wake edge); C10.4 the dead-letter step wakes the source subscription. " +
				"C10.8 originating wake-ups are announced to the notifier hooks (onlyInternal=false); true only on the receiving side or next to a WakeSubscriptionListeners(false) for the same id. C10.2 also: no hand-made nil edge in the waited channel. NOT decided: latency ('promptly'), the PostgreSQL LISTEN/NOTIFY path, schedules as such.",
			Assumptions: []string{k1Assumption, "Go channel close wakes every receiver; sync.Mutex semantics"},
			Rules: []ruleFn{
				{ID: "C10.8", Doc: "[tab] originating wake-ups are announced to the notifier hooks (onlyInternal = false); true only on the receiving side", Run: ruleC10_8},
				{ID: "C10.1", Doc: "[dom] register before query in every epoch; waited channel is the registered one (C10.2)", Run: ruleC10_1_2},
				{ID: "C10.3", Doc: "[K2] broadcasts reach every target", Run: ruleC10_3},
				{ID: "C10.4", Doc: "[dom][who] committing writers notify", Run: ruleC10_4},
				{ID: "C09.3", Doc: "[K4] (shared, = C10.5) wake-ups only after a successful commit", Run: ruleC09_3, Ctrl: true},
				{ID: "C10.6", Doc: "[lock] notifier maps under nmu", Run: ruleC10_6, Ctrl: true},
				{ID: "C10.7", Doc: "[dom] closed channels are removed", Run: ruleC10_7},
			},
		},
		{
			ID: "C16",
			Explanation: "Static necessary conditions of 'no request can crash the server': a flow-sensitive abstract interpretation (K6: integer intervals, nilness, string emptiness, zero-time, booleans; bounded disjunctive states; request taint) of every implemented RPC method of publisherServer / subscriberServer / healthServer, inlining module-local callees that contain an explicit panic or receive a possibly-absent request sub-message, and the closures handed to the transaction runners. " +
				"C16.1 no explicit panic (today: the precondition panics of the actions.New* constructors) is reachable for any request field values; C16.2 no request sub-message that may be absent is dereferenced (field access or non-nil-safe method) without a dominating nil test. " +
				"C16.3 (rejected requests change nothing) = C09.1/C09.4/C09.5 evaluated under C09. " +
				"C16.4 (K9b path-sensitive provenance through the transaction closure and clamping helpers) the effective page size of every List handler is >= 1 on every path. " +
				"C06.2 (shared) the dead-letter trigger and HasFullDeadLetterConfig, which guard the *DeadLetterTopicID dereference in deadLetterDataFromEntities. C16.5 an eager-loaded edge loaded with a filter is dereferenced only under a nil test; C16.6 every value added to a Prometheus counter is the conversion of an integer count. C16.7 constant indexes into request-derived slices in package services are under a length test; C16.8 the pull's deferred clean-up dereferences params.ID only under a nil test; C09.2 (shared) the runner commits only on success. C16.9 a pointer-like result that comes with an error is dereferenced only where the error was found nil or the result tested. NOT decided: index/slice bounds in general, resource exhaustion, hangs, panics inside third-party code, requests arriving on a stream after the first (their fields are treated as unconstrained but their sub-messages are only checked when dereferenced in the handler itself).",
			Assumptions: []string{
				"gRPC never passes a nil request; elements of repeated message fields are non-nil (protobuf decoding)",
				"protobuf-generated Get* accessors, (*durationpb.Duration).AsDuration, (*timestamppb.Timestamp).AsTime, CheckValid/IsValid are nil-safe",
				"isValid{Topic,Subscription,Snapshot}Name(s) == true implies s != \"\" (four non-empty segments; confirmed from their bodies)",
				"only (time.Time).IsZero tests establish that a time is non-zero (CheckValid does not)",
			},
			Rules: []ruleFn{
				{ID: "C16.9", Doc: "[dom] a pointer-like result that comes with an error is dereferenced only where the error was found nil (or the result tested)", Run: ruleC16_9, Ctrl: true},
				{ID: "C09.2", Doc: "(shared: a request answered with an error changes nothing: the runner commits only on success) [dom] (shared) the transaction helper commits iff the operation succeeded and reports commit errors", Run: ruleC09_2},
				{ID: "C16.7", Doc: "[dom] constant indexes into request-derived slices in package services are under a length test", Run: ruleC16_7},
				{ID: "C16.8", Doc: "[dom] the pull's deferred clean-up dereferences params.ID only under a nil test", Run: ruleC16_8},
				{ID: "C06.2", Doc: "(shared: the guard of the *DeadLetterTopicID dereference in deadLetterDataFromEntities) [dom][atoms] trigger condition", Run: ruleC06_2},
				{ID: "C16.1", Doc: "[K6][K10] panic preconditions refuted at every request-tainted call site; nil dereference of absent sub-messages (C16.2)", Run: ruleC16},
				{ID: "C16.4", Doc: "[K9b] the effective page size is ≥ 1 on every path (no index panic on an empty page)", Run: ruleC16_4},
				{ID: "C16.5", Doc: "[dom] an eager-loaded edge that was loaded with a filter is dereferenced only under a nil test", Run: ruleC16_5},
				{ID: "C16.6", Doc: "[dom] every value added to a Prometheus counter is the conversion of an integer count (Counter.Add panics on a negative value)", Run: ruleC16_6},
				{ID: "C09.4", Doc: "[dom] (shared, C16.3) one operation, one transaction", Run: ruleC09_4},
				{ID: "C09.5", Doc: "[dom] (shared, C16.3) no error after commit", Run: ruleC09_5},
			},
		},
		{
			ID: "C11",
			Explanation: "Static necessary conditions of 'streaming pull honours flow control and keeps flowing': " +
				"C11.1 (K3 lockset) in the streamer's goroutines `pending` and `fc` are accessed only with mu held; C11.2 every fetched delivery is recorded in pending (loop without early exit, keyed by delivery id) before any Send/SendBatch; " +
				"C11.3 the fetch limits are the client limits minus a complete walk over pending (−1 message, −size bytes each, strict-bytes iff anything pending); C11.4 every removal from pending is followed by a wake-up of the sender before the goroutine blocks again (a monotone flag is followed by constant propagation); " +
				"C11.5 (K6 intervals) effectiveFlowControl returns limits >= 1 for every int64 input on amd64 (and 386 in the thorough tier), initial limits are positive constants; C11.6 an over-budget message is skipped without ending the scan and is never appended; the byte counter accumulates; " +
				"C11.7 ids acked or nacked on the stream leave pending, and the refresh goroutine removes exactly the ids of its under-lock snapshot that the database no longer reports as outstanding, asking exactly `id IN snapshot ∧ completed_at IS NULL ∧ not expired`. " +
				"C11.8 the client's limits reach FlowControl un-swapped; C11.9 the pull's result cell is written only by applyResults and never reset (a pull that found candidates answers instead of parking with a stale budget). " +
				"C10.3 (shared, ack instances) an ack spanning several subscriptions wakes each. NOT decided: the numeric invariant over interleavings, promptness.",
			Assumptions: []string{k1Assumption, "sync.Mutex semantics; channel send on a buffered channel never blocks the waker"},
			Rules: []ruleFn{
				{ID: "C10.3", Doc: "(shared, ack instances: an ack spanning several subscriptions wakes the blocked stream of each, so each rebuilds its pending set) [K2] broadcasts reach every target", Run: ruleC10_3, Only: `AckDeliveries`},
				{ID: "C10.1", Doc: "[dom] (shared) the stream's refresher and sender re-arm their notifier before they query: an external ack landing during a refresh is not missed (the stream does not stall with capacity free)", Run: ruleC10_1_2},
				{ID: "C11.1", Doc: "[lock] pending/fc under mu", Run: ruleC11_1},
				{ID: "C11.2", Doc: "[dom] pending before send; fetch limits minus pending (C11.3)", Run: ruleC11_2_3},
				{ID: "C11.4", Doc: "[dom] wake after release; settled ids leave the window (C11.7)", Run: ruleC11_4_7},
				{ID: "C11.5", Doc: "[K6 interval] effective flow control >= 1", Run: ruleC11_5},
				{ID: "C11.6", Doc: "[dom] byte budget", Run: ruleC11_6},
				{ID: "C11.8", Doc: "[dep] the client's limits reach the streamer un-swapped and unaltered", Run: ruleC11_8},
				{ID: "C11.9", Doc: "[who] a pull that found candidates answers: its result cell is written only by applyResults and never reset", Run: ruleC11_9},
			},
		},
		{
			ID: "C18",
			Explanation: "Static necessary conditions of 'an injected fault fires exactly its count, only on matching calls': " +
				"C18.1 the shared remaining count is accessed only through sync/atomic (plain reads only on by-value copies); C18.2 in Set.Check, with r the result of atomic.AddInt64(&d.Count,-1), the fault fires for r > 0 and r = 0 and, for r < 0, neither fires nor returns without re-matching (each sign decided separately on the CFG); " +
				"C18.3 (K3 lockset) Set.faults is read under mu.RLock/Lock and written under mu.Lock; C18.4 Description.match returns true only with count > 0, equal operation, and every injected parameter present and equal; C18.5 prune/Current separate live from exhausted descriptions by count > 0; " +
				"C18.6 the pooled parameter map of the gRPC interceptor is emptied unconditionally before the request's fields are written (also before a closure that writes it is handed out). " +
				"C18.3 fresh-write: what is written to the fault table under the exclusive lock is computed inside that critical section (not from a shared-lock read or a helper that takes the mutex itself); C18.7 interceptor discipline. " +
				"C18.4 also: match says no only under an exhausted count, another operation, or a missing / different injected parameter (judged per path). C18.8 the request-to-parameter extraction reads no package-level state besides the pool. C18.9 the lookup loop of (*Set).match leaves early only by returning the description that matched. NOT decided: the exact count min(N, matches) over schedules (C18.1/2 are its memory-ordering and re-check conditions), request-to-parameter extraction for all messages.",
			Assumptions: []string{"sync/atomic and sync.RWMutex semantics"},
			Rules: []ruleFn{
				{ID: "C18.9", Doc: "[dom] the lookup considers every description of the operation: it leaves early only by returning the one that matched", Run: ruleC18_9},
				{ID: "C18.8", Doc: "[who] the request-to-parameter extraction reads no package-level state besides the pool", Run: ruleC18_8},
				{ID: "C18.1", Doc: "atomic discipline on Description.Count", Run: ruleC18_1, Ctrl: true},
				{ID: "C18.2", Doc: "[K6 sign] fire exactly for a non-negative remainder; re-match on a lost race", Run: ruleC18_2},
				{ID: "C18.3", Doc: "[lock] fault table under Set.mu", Run: ruleC18_3, Ctrl: true},
				{ID: "C18.4", Doc: "[dom] subset match", Run: ruleC18_4},
				{ID: "C18.5", Doc: "[dom] prune / listing thresholds", Run: ruleC18_5},
				{ID: "C18.6", Doc: "[dom] pooled parameter map is emptied", Run: ruleC18_6},
				{ID: "C18.7", Doc: "[dom][K5] interceptor discipline: one check per call, verdict returned, operation only after a nil verdict, no use of the pooled map after Put", Run: ruleC18_7},
			},
		},
		{
			ID: "C19",
			Explanation: "Static necessary conditions of the HTTP push contract: " +
				"C19.1 the status switch acknowledges exactly for {102,200,201,202,204} (read from the comparisons of resp.StatusCode whose true edge reaches the outcome queue with an ack queue only) transport errors and every other status reach the nack queue, and every non-panicking exit of the response goroutine passes the report to one of the queues; " +
				"C19.2 (K9) envelope fields derive from their delivery fields only (Data = base64(payload), Attributes, MessageId, OrderingKey, PublishTime, Subscription, DeliveryAttempt); " +
				"C19.3 (K6 intervals) inductive invariant of the adaptive window: assuming maxMessages ∈ [1,1000] on entry of Receive every store keeps it there, initial value is a constant in range; " +
				"C19.4 (K3) window state is accessed only under c.mu (the test-only reader CurrentFlowControl is the named exception); C19.5 Receive reports ids from the ack queues as Ack and ids from the nack queue as Nack. " +
				"C11.4 / C11.7 (shared) the pusher's pending set is rebuilt completely from one query. " +
				"C19.2 also: the rendered publish time carries its zone (zone verb or UTC conversion). C19.2 also: the payload is encoded with base64.StdEncoding. C19.6 the push service forgets a pusher whose monitor is done (delete under the loop's own key), so a re-enabled subscription gets a new one. NOT decided: 'never pushed again / pushed again after the backoff' (C03/C04 behaviour), concurrency <= window as a runtime count, out-of-order endpoints.",
			Assumptions: []string{"net/http reports transport failures as a non-nil error from Client.Do"},
			Rules: []ruleFn{
				{ID: "C19.6", Doc: "[dom] a pusher that has ended is removed from the service's map, so the subscription gets a new one", Run: ruleC19_6},
				{ID: "C19.2", Doc: "[who] the pushed payload is standard base64", Run: ruleC19_2base64},
				{ID: "C19.2", Doc: "[tab] the rendered publish time carries its zone (zone verb or UTC conversion)", Run: ruleC19_2format},
				{ID: "C11.4", Doc: "[dom] (shared) the pusher's stream keeps its pending set exact (what is in flight counts against the window until the database says it is settled)", Run: ruleC11_4_7},
				{ID: "C19.1", Doc: "[tab][dom] status mapping", Run: ruleC19_1},
				{ID: "C19.2", Doc: "[dep] envelope", Run: ruleC19_2},
				{ID: "C19.3", Doc: "[K6 interval] window stays in [1,1000]", Run: ruleC19_3},
				{ID: "C19.4", Doc: "[lock] window state under c.mu", Run: ruleC19_4},
				{ID: "C19.5", Doc: "[dep] ack/nack queues feed Ack/Nack", Run: ruleC19_5},
			},
		},
		{
			ID: "C07",
			Explanation: "Static necessary conditions of 'filters mean what the filter language says': " +
				"C07.1 on every path of deliverToSubscription a delivery is created iff the subscription has no filter, or its stored filter string was parsed by this call, evaluated on the message's attributes without error and matched (no cached/global filter object); " +
				"C07.2/3 (K7) every grammar type has an Evaluate method that reads every field the parser captures (no captured syntax is ignored); C07.4 the literals of the Op / Predicate grammar tags = the declared constants = the cases the evaluator handles; " +
				"C07.5 the call closure of Evaluate is pure (no package variables, no map iteration, no side effects, only strings.HasPrefix / errors.New / fmt.Errorf outside the module); " +
				"C07.6 (idiom-bound) leaf shapes: presence bit; presence ∧ ==/!= under the matching operator; presence ∧ strings.HasPrefix(attribute, prefix); XOR with Not; AND/OR chains end with the first deciding term; Condition combines the first term with the matching chain. " +
				"C07.1 skip-only-by-verdict: deliverToSubscription skips a subscription only on the filter's verdict or the absence of a filter; C08.6 (shared) the printer keeps grouping parentheses. " +
				"C08.8 (shared) the filter parser is built with exactly UseLookahead and Unquote(String); C07.6 Term negation is a parity of Not flags. C08.1 (shared) the stored filter text is the validated text. C08.9 (shared) the leaf forms capture the same kinds of attribute name. C17.2 (shared, filter instances) a filter cleared by an update is no longer in force. NOT decided: agreement with the documented Pub/Sub semantics over the infinite input space, boolean laws, precedence as implemented by participle.",
			Assumptions: []string{"participle builds the parser the struct tags describe", k1Assumption},
			Rules: []ruleFn{
				{ID: "C17.2", Doc: "(shared, filter instances: a filter cleared by an update is no longer in force) [atoms] update-mask locality", Run: ruleC17_2, Only: `noop-shortcut|:filter`},
				{ID: "C08.9", Doc: "[K7] the leaf forms accept the same kinds of attribute name; AND and OR are not mixable at one level", Run: ruleC08_9},
				{ID: "C08.1", Doc: "(shared: the stored filter text is the validated text: the evaluated filter is the one the client wrote) [who][dom] validate before persist", Run: ruleC08_1},
				{ID: "C08.8", Doc: "[who] the filter parser is built with exactly UseLookahead and Unquote(String): no option that changes the accepted language or rewrites tokens", Run: ruleC08_8},
				{ID: "C08.6", Doc: "[dom] (shared) a filter text produced by the printer (canonical form) keeps the grouping of negated sub-conditions", Run: ruleC08_6},
				{ID: "C07.1", Doc: "[dom] routing gate, both directions", Run: ruleC07_1},
				{ID: "C07.2", Doc: "[K7] exhaustiveness; no captured syntax ignored (C07.3)", Run: ruleC07_2_3},
				{ID: "C07.4", Doc: "[tab] operator tables agree", Run: ruleC07_4},
				{ID: "C07.5", Doc: "purity of evaluation", Run: ruleC07_5},
				{ID: "C07.6", Doc: "leaf and combinator shapes (idiom-bound)", Run: ruleC07_6},
				{ID: "C01.3", Doc: "[atoms] (shared) the publish fan-out walks every live subscription of the topic, whole rows: no subscription is skipped before its filter is evaluated", Run: ruleC01_3},
				{ID: "C06.4", Doc: "[dom] (shared) dead-letter forwarding hands the original message, loaded whole, to the targets' filters", Run: ruleC06_4},
			},
		},
		{
			ID: "C08",
			Explanation: "Static necessary conditions of 'filter syntax: accept exactly the language, never store anything else, print/parse round-trips': " +
				"C08.1 subscriptions.filter is written only by CreateSubscription.Execute and the UpdateSubscription handler, and every stored non-nil value is dominated by the nil-error edge of ParseString (or a wrapper whose every nil-error return is) on the same string; " +
				"C08.2 (K9) the printer writes Name fields only through formatAttrName and Value fields only through strconv.Quote; C08.3 formatAttrName returns a name unquoted only if it is non-empty and every rune is '_' / letter / digit-not-in-first-position (idiom-bound); " +
				"C08.4 (K7) every grammar type has an AsFilter method that reads every captured field; C08.6 a sub-condition is always printed between parentheses; C08.5 a stored filter that fails to parse skips the subscription instead of failing the publish. " +
				"C08.7 package filter keeps no bounds check the compiler's prove pass cannot discharge (go build -gcflags=-d=ssa/check_bce over the analysed overlay; nothing is executed; today: none). " +
				"C08.8 the filter parser is built with exactly UseLookahead and Unquote(String) (no option that changes the accepted language or rewrites tokens); C08.6 also: a negated term is printed with its NOT. C08.9 the leaf forms capture the same kinds of attribute name; the AND / OR group of Condition is optional, not repeated. C08.8 also: no per-call parse option (AllowTrailing …) anywhere in the module. NOT decided: 'accepted iff sentence of the documented grammar', parser totality/termination (third-party participle), full print/parse round-trip.",
			Assumptions: []string{"participle builds the parser the struct tags describe; its lexer's identifier rule is text/scanner's (letter or '_' first, then letters/digits/'_')"},
			Rules: []ruleFn{
				{ID: "C08.9", Doc: "[K7] the leaf forms accept the same kinds of attribute name; AND and OR are not mixable at one level", Run: ruleC08_9},
				{ID: "C08.8", Doc: "[who] the filter parser is built with exactly UseLookahead and Unquote(String): no option that changes the accepted language or rewrites tokens", Run: ruleC08_8, Ctrl: true},
				{ID: "C08.7", Doc: "[compiler prove pass] no index / slice operation in package filter keeps an unproved bounds check", Run: ruleC08_7, Ctrl: true},
				{ID: "C08.1", Doc: "[who][dom] validate before persist", Run: ruleC08_1},
				{ID: "C08.2", Doc: "[K9] printer sanitisation", Run: ruleC08_2},
				{ID: "C08.3", Doc: "[dom] an unquoted name is a non-empty identifier", Run: ruleC08_3},
				{ID: "C08.4", Doc: "[K7] printer exhaustive", Run: ruleC08_4},
				{ID: "C08.6", Doc: "[dom] sub-conditions are printed in parentheses", Run: ruleC08_6},
				{ID: "C07.1", Doc: "[dom] (shared, C08.5) unparsable stored filter skips", Run: ruleC07_1},
			},
		},
		{
			ID: "C17",
			Explanation: "Static necessary conditions of 'configuration round-trips': " +
				"C17.1 (K9 data dependence) every configuration field CreateSubscription accepts flows request → action parameter → its column, and every such column is read back by entSubscriptionToGrpc into the corresponding response field (labels, retention, expiration TTL, ordering flag, filter, retry policy, dead-letter policy, push endpoint; topics: labels); " +
				"C17.2 update-mask locality: in UpdateSubscription / UpdateTopic the set of columns mutated under each mask path equals the frozen table, no column is mutated outside a mask path, unknown paths are rejected, and the no-op shortcut that skips the save checks every kind of mutation (set / cleared / added) the handler can apply; under a mask path with several stored columns every path sets or clears each of them (replace, not merge). " +
				"C17.3 in the stored-duration codec no floating-point value computed from the parsed digits is truncated to an integer (a length-derived power of ten is exact and allowed; math.Round first is allowed) and a duration is never represented as a float (no Seconds/Minutes/Hours, FormatFloat/ParseFloat, or 64-bit-count-to-float conversion). C17.1 independence: the response field fed by column X sits under a test of X only, never of a sibling column (except attempts under the dead-letter topic). C17.2 also: the handlers switch on the mask's own path strings (a pass-through helper may fetch them, not compute new ones); C17.4 a dead-letter topic is attached only as the entity a lookup returned for this request, never a cached edge. C17.5 zero durations select the documented defaults (a comparison with 0, also in a shared helper); C17.3 also: Interval.Value writes the exact duration. C17.3 also: the interval pattern constant accepts PostgreSQL's renderings (table check on the constant); C06.7 (shared). C17.1 also covers topic and snapshot creation; C17.6 the guard of a call consuming an optional value is the presence test itself. NOT decided: the rest of the interval codec (all durations / all PostgreSQL interval strings — numeric), defaults' values, sequences of updates.",
			Assumptions: []string{k1Assumption, "protobuf/ent field names correspond one-to-one as in the generated code"},
			Rules: []ruleFn{
				{ID: "C17.6", Doc: "[dom] an optional value is acted on whenever it is present: the guard of the call consuming it is the presence test itself", Run: ruleC17_6},
				{ID: "C06.7", Doc: "[dom] the attempt limit stored by an update is the request's value if non-zero, else the default", Run: ruleC06_7},
				{ID: "C17.3", Doc: "[tab] the interval pattern constant accepts PostgreSQL's renderings (singular and plural units)", Run: ruleC17_3pattern},
				{ID: "C17.5", Doc: "[dom] zero durations select the documented defaults (a comparison with 0, not only a nil test)", Run: ruleC17_5},
				{ID: "C17.3", Doc: "[who] Interval.Value writes the exact duration (no rounding)", Run: ruleC17_3value},
				{ID: "C17.1", Doc: "[dep] create mapping is complete", Run: ruleC17_1},
				{ID: "C17.1", Doc: "[dep] each optional column is read back independently of its siblings", Run: ruleC17_1indep},
				{ID: "C17.2", Doc: "[dep] the handlers switch on the mask's own path strings, unaltered", Run: ruleC17_2verbatim},
				{ID: "C17.4", Doc: "[dep] a dead-letter topic is attached only from a lookup made for the request (live row), never from a cached edge", Run: ruleC17_4},
				{ID: "C17.2", Doc: "[atoms] update-mask locality", Run: ruleC17_2},
				{ID: "C17.3", Doc: "[dep] the duration codec never truncates a digits-derived float", Run: ruleC17_3},
			},
		},
	}
}

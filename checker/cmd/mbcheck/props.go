package main

var k1Assumption = "K1 trusts ent's generated API mapping: builder setters write the column named by the generated Field*/…Column constants, and generated predicates mean what the sql.Field* call in their body says"

func allProps() []*propInfo {
	return []*propInfo{
		{
			ID: "C01",
			Explanation: "Static necessary conditions of at-least-once delivery, decided on the resolved SSA program of /repo's working tree: " +
				"C01.1 who may retire (complete/delete/re-key) delivery rows — only ack, dead-letter, seek and the three delivery prune jobs, and no raw SQL outside infrastructure; " +
				"C01.2 each prune job deletes exactly `id IN result` of a select whose atoms are exactly its justification (completed/expired/deleted-subscription older than the threshold); ack addresses exactly the requested ids; " +
				"C01.3 publish fans out over exactly the live subscriptions, the loop reaches deliverToSubscription for every element and has no early exit, every created builder is saved through CreateBulk on the transaction, and a delivery is skipped only for filtered subscriptions; " +
				"C01.4 the pull selection has exactly {completed_at IS NULL, expires_at > now, subscription_id = verified sub, attempt_at <= now} (+ the ordering gate only for ordered subscriptions); " +
				"C01.5 attempts / not_before_id have a single writer. " +
				"NOT decided: clock arithmetic (that attempt_at/expires_at values make a message due again), database semantics, the history-level claim itself.",
			Assumptions: []string{k1Assumption, "database executes the statements as ent renders them"},
			Rules: []ruleFn{
				{ID: "C01.1", Doc: "[who] retirement ownership of delivery rows", Run: ruleC01_1},
				{ID: "C01.2", Doc: "[atoms] prune/ack selections are exactly their justification", Run: ruleC01_2},
				{ID: "C01.3", Doc: "[dom] publish fan-out reaches every live subscription", Run: ruleC01_3},
				{ID: "C01.4", Doc: "[atoms] pull eligibility is exact", Run: ruleC01_4},
				{ID: "C01.5", Doc: "[who] lease bookkeeping columns have one writer", Run: ruleC01_5},
			},
		},
		{
			ID: "C02",
			Explanation: "Static necessary conditions of 'only rightful, intact messages; subscriptions independent': " +
				"C02.1 the pull selection is scoped to the verified subscription's outstanding due rows and the response is bounded by the requested maximum (LIMIT from MaxMessages or loop exit at MaxMessages); " +
				"C02.2 every update/delete of delivery rows in the module is addressed by delivery id or scoped by subscription_id = <subscription resolved in the same operation> on every path; " +
				"C02.3 message rows are immutable (no generated setter for content columns, no update statement on messages, created only by publish, deleted only by the completed-messages prune job); " +
				"C02.4 content provenance (K9 data dependence): request field -> action parameter -> column -> pull result -> gRPC field, each depending on its own source field and on no other content field; MessageIds[i] is the id of the i-th stored message. " +
				"NOT decided: JSON value equality through jsonb/text storage, duplicates within one response (primary-key fact), histories.",
			Assumptions: []string{k1Assumption, "protobuf/ent field names correspond one-to-one as in the generated code"},
			Rules: []ruleFn{
				{ID: "C02.1", Doc: "[atoms] pull scoping and response bound", Run: ruleC02_1},
				{ID: "C02.2", Doc: "[atoms] no unscoped delivery mutation", Run: ruleC02_2},
				{ID: "C02.3", Doc: "[who] messages are immutable", Run: ruleC02_3},
				{ID: "C02.4", Doc: "[dep] content provenance", Run: ruleC02_4},
			},
		},
		{
			ID: "C03",
			Explanation: "Static necessary conditions of 'ack is final and idempotent': " +
				"C03.1 deliveries.completed_at is cleared only by the two seek actions; C03.2 the pull selection excludes completed rows on every path; " +
				"C03.3 delivery rows are created only by deliverToSubscription, called only from publish and dead-letter forwarding (no path re-enqueues an acked message); " +
				"C03.4 ack/nack/modify-deadline return only errors that originate from storage/helper calls (no self-made error for unknown, stale or foreign ids) and their bulk statements are addressed by id IN <ids>. " +
				"Deliberately not demanded: the completed_at IS NULL guards in nack/modify-deadline (dropping them does not resurrect an acked message; the guard that matters is C06.5). NOT decided: the history-level claim.",
			Assumptions: []string{k1Assumption},
			Rules: []ruleFn{
				{ID: "C03.1", Doc: "[who] completion is undone only by seek", Run: ruleC03_1},
				{ID: "C03.2", Doc: "[atoms] pull excludes completed rows", Run: ruleC03_2},
				{ID: "C03.3", Doc: "[who] delivery rows are created only on publish/dead-letter", Run: ruleC03_3},
				{ID: "C03.4", Doc: "[K5] idempotent ack/nack/modify-deadline", Run: ruleC03_4},
			},
		},
	}
}

package main

var k1Assumption = "K1 trusts ent's generated API mapping: builder setters write the column named by the generated Field*/…Column constants, and generated predicates mean what the sql.Field* call in their body says"

func allProps() []*propInfo {
	return []*propInfo{
		{
			ID: "C01",
			Explanation: "Static necessary conditions of at-least-once delivery, decided on the resolved SSA program of /repo's working tree: " +
				"C01.1 who may retire (complete/delete/re-key) delivery rows — only ack, dead-letter, seek and the three delivery prune jobs, and no raw SQL outside infrastructure; " +
				"C01.2 each prune job deletes exactly `id IN result` of a select whose atoms are exactly its justification (completed/expired/deleted-subscription older than the threshold); ack addresses exactly the requested ids; " +
				"C01.3 publish fans out over exactly the live subscriptions, the loop reaches deliverToSubscription for every element and has no early exit, every created builder is saved through CreateBulk on the transaction, and a delivery is skipped only for filtered subscriptions; " +
				"C01.4 the pull selection has exactly {completed_at IS NULL, expires_at > now, subscription_id = verified sub, attempt_at <= now} (+ the ordering gate only for ordered subscriptions); " +
				"C01.5 attempts / not_before_id have a single writer. " +
				"NOT decided: clock arithmetic (that attempt_at/expires_at values make a message due again), database semantics, the history-level claim itself.",
			Assumptions: []string{k1Assumption, "database executes the statements as ent renders them"},
			Rules: []ruleFn{
				{ID: "C01.1", Doc: "[who] retirement ownership of delivery rows", Run: ruleC01_1},
				{ID: "C01.2", Doc: "[atoms] prune/ack selections are exactly their justification", Run: ruleC01_2},
				{ID: "C01.3", Doc: "[dom] publish fan-out reaches every live subscription", Run: ruleC01_3},
				{ID: "C01.4", Doc: "[atoms] pull eligibility is exact", Run: ruleC01_4},
				{ID: "C01.5", Doc: "[who] lease bookkeeping columns have one writer", Run: ruleC01_5},
			},
		},
	}
}

package main

// controlSources: overlay files (path relative to the repo) with one tiny
// violating construct per rule whose expected violation count on a correct tree
// is zero. They must be reported on every run; reports located in them are
// then removed from the verdict. Never written to disk.
var controlSources = map[string]string{
	"filter/zz_verif_controls.go": `package filter

import "github.com/alecthomas/participle/v2"

// C08.7: a slice expression whose low bound the compiler cannot prove
func zzVerifControlExcerpt(src string, off int) string {
	chars := []rune(src)
	return string(chars[off:])
}

var _ = zzVerifControlExcerpt

// C08.8: a per-call parse option
func zzVerifControlParseLoose(s string) error {
	_, err := Parser.ParseString("", s, participle.AllowTrailing(true))
	return err
}

var _ = zzVerifControlParseLoose
`,
	"actions/zz_verif_controls.go": `package actions

import (
	"context"
	"time"

	"github.com/google/uuid"

	"go.6river.tech/mmmbbb/ent"
	"go.6river.tech/mmmbbb/ent/delivery"
	"go.6river.tech/mmmbbb/ent/subscription"
)

// C01.1 / C02.2: an unlisted, unscoped writer retires deliveries
func zzVerifControlRetire(ctx context.Context, tx *ent.Tx) error {
	_, err := tx.Delivery.Update().Where(delivery.AttemptsGT(3)).SetCompletedAt(time.Now()).Save(ctx)
	return err
}

// C03.1: completion undone outside seek
func zzVerifControlResurrect(ctx context.Context, tx *ent.Tx, id uuid.UUID) error {
	return tx.Delivery.UpdateOneID(id).ClearCompletedAt().Exec(ctx)
}

// C09.3: wake-up outside a commit hook
func zzVerifControlWake(id uuid.UUID) {
	WakePublishListeners(false, id)
}

// C09.1: storage error dropped inside a transaction
func zzVerifControlDropError(ctx context.Context, tx *ent.Tx, id uuid.UUID) error {
	_ = tx.Delivery.UpdateOneID(id).SetAttemptAt(time.Now()).Exec(ctx)
	return nil
}

// C12.1: a subscription resolved by name without the live filter
func zzVerifControlLookup(ctx context.Context, tx *ent.Tx, name string) (*ent.Subscription, error) {
	return tx.Subscription.Query().Where(subscription.Name(name)).Only(ctx)
}

// C10.6: waiter map touched without nmu
func zzVerifControlUnlocked(id uuid.UUID) int {
	return len(pubWaiters[id])
}

// C16.9: a result dereferenced without its error having been looked at
func zzVerifControlUnchecked(ctx context.Context, tx *ent.Tx, id uuid.UUID) string {
	sub, _ := tx.Subscription.Get(ctx, id)
	return sub.Name
}

// C12.8: a single resource looked up by a prefix of its name
func zzVerifControlPrefixLookup(ctx context.Context, tx *ent.Tx, name string) (*ent.Subscription, error) {
	return tx.Subscription.Query().Where(subscription.NameHasPrefix(name), subscription.DeletedAtIsNil()).Only(ctx)
}

// C03.3 / C06.1: delivery creation and dead-lettering from an unlisted caller
func zzVerifControlCallers(ctx context.Context, tx *ent.Tx, s *ent.Subscription, m *ent.Message) error {
	if _, err := deliverToSubscription(ctx, tx, s, m, time.Now(), "x"); err != nil {
		return err
	}
	return deadLetterDelivery(ctx, tx, deadLetterData{}, time.Now(), "x")
}
`,
	"faults/zz_verif_controls.go": `package faults

// C18.1: plain access to the shared remaining count
func zzVerifControlPlainCount(d *Description) int64 {
	return d.Count
}

// C18.3: fault table read without the lock
func zzVerifControlUnlocked(s *Set, op string) int {
	return len(s.faults[op])
}
`,
}

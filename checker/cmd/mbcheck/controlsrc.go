package main

// controlSources: overlay files (path relative to the repo) with one tiny
// violating construct per rule whose expected violation count on a correct tree
// is zero. They must be reported on every run; reports located in them are
// then removed from the verdict.
var controlSources = map[string]string{}

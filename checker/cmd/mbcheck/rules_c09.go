package main

import (
	"fmt"
	"go/token"
	"go/types"
	"strings"

	"golang.org/x/tools/go/ssa"
)

// ---------------------------------------------------------------------------
// K4 hook discipline

var wakeFns = map[string]bool{"WakePublishListeners": true, "WakeTopicListeners": true, "WakeSubscriptionListeners": true, "wakeModifyListeners": true, "WakeAllInternal": true}

func isWakeCall(cal *ssa.Function) bool {
	return cal != nil && fnPkgPath(cal) == modPath+"/actions" && wakeFns[cal.Name()]
}

// commitHook: fn is the body of an ent.CommitFunc registered through (*ent.Tx).OnCommit.
// Returns the Commit invocation inside it.
func commitHook(fn *ssa.Function) (commit ssa.CallInstruction, ok bool) {
	par := fn.Parent()
	if par == nil {
		return nil, false
	}
	// fn is converted to ent.CommitFunc and returned by `par`, and par is an argument of (*ent.Tx).OnCommit
	mc := makeClosureOf(fn)
	var fnVal ssa.Value = mc
	if mc == nil {
		return nil, false
	}
	conv := false
	if refs := fnVal.Referrers(); refs != nil {
		for _, in := range *refs {
			if ct, isCT := in.(*ssa.ChangeType); isCT && typeIs(ct.Type(), entPkg, "CommitFunc") {
				conv = true
			}
		}
	}
	if !conv {
		return nil, false
	}
	reg := false
	pmc := makeClosureOf(par)
	var pval ssa.Value
	if pmc != nil {
		pval = pmc
	}
	isRegArg := func(a ssa.Value) bool {
		a = strip(a)
		if pval != nil && a == pval {
			return true
		}
		if funcOf(a) == par {
			return true
		}
		// a method value: closure over the bound-method wrapper of par
		if mc, ok := a.(*ssa.MakeClosure); ok {
			if w, ok := mc.Fn.(*ssa.Function); ok && boundTarget(w) == par {
				return true
			}
		}
		return false
	}
	// a closure without free variables is a bare function value
	var scope []*ssa.Function
	if gp := par.Parent(); gp != nil {
		scope = []*ssa.Function{gp}
	} else if lastCtx != nil {
		// a named hook (function or method value): registered wherever it is handed to OnCommit, and handed to
		// nothing else
		scope = lastCtx.Funcs
		for _, in := range lastCtx.valueUses(par) {
			call, isC := in.(*ssa.Call)
			if !isC || call.Call.StaticCallee() == nil || !fnIs(call.Call.StaticCallee(), entPkg, "Tx.OnCommit") {
				return nil, false
			}
		}
	}
	for _, g := range scope {
		for _, b := range g.Blocks {
			for _, in := range b.Instrs {
				call, isC := in.(*ssa.Call)
				if !isC {
					continue
				}
				cal := call.Call.StaticCallee()
				if cal == nil || !fnIs(cal, entPkg, "Tx.OnCommit") {
					continue
				}
				for _, a := range call.Call.Args {
					if isRegArg(a) {
						reg = true
					}
				}
			}
		}
	}
	if !reg {
		return nil, false
	}
	for _, b := range fn.Blocks {
		for _, in := range b.Instrs {
			if ci, isC := in.(ssa.CallInstruction); isC && ci.Common().IsInvoke() && ci.Common().Method.Name() == "Commit" {
				return ci, true
			}
		}
	}
	return nil, false
}

// hookPassesCommitError: in a commit hook, whenever the wrapped Commit returned a non-nil error the hook returns that
// error (or one built from it) — returning anything else (nil, a captured variable) makes the transaction runner
// report success for a transaction that was rolled back.
func hookPassesCommitError(f *ssa.Function, commit ssa.CallInstruction) (bool, string) {
	cv := commit.Value()
	if cv == nil {
		return false, "the wrapped Commit's result is discarded"
	}
	// blocks reachable while the commit error may be non-nil: everything after the commit except what lies behind
	// the nil edge of a test of cv
	nilOnly := map[*ssa.BasicBlock]bool{}
	for _, b := range f.Blocks {
		if len(b.Instrs) == 0 {
			continue
		}
		iff, ok := b.Instrs[len(b.Instrs)-1].(*ssa.If)
		if !ok {
			continue
		}
		nc := normCond(iff.Cond, true)
		bo, ok := nc.V.(*ssa.BinOp)
		if !ok || !isNilConst(bo.Y) || bo.X != ssa.Value(cv) {
			continue
		}
		nilEdge := 1
		if (bo.Op == token.EQL) == nc.Pol {
			nilEdge = 0
		}
		nb := b.Succs[nilEdge]
		if len(nb.Preds) == 1 {
			nilOnly[nb] = true
		}
	}
	ok, why := true, ""
	seen := map[*ssa.BasicBlock]bool{}
	var walk func(b *ssa.BasicBlock)
	walk = func(b *ssa.BasicBlock) {
		if seen[b] || nilOnly[b] {
			return
		}
		seen[b] = true
		for _, in := range b.Instrs {
			if ret, isRet := in.(*ssa.Return); isRet {
				if len(ret.Results) == 0 {
					ok, why = false, "the hook does not return the Commit error"
					return
				}
				rv := retResult(ret, len(ret.Results)-1)
				if !(rv == ssa.Value(cv) || dependsOnValue(rv, cv)) {
					ok, why = false, "when the wrapped Commit fails the hook returns something else than that error (nil, or a variable captured from the enclosing function): the runner reports success although nothing was committed"
				}
			}
		}
		for _, s := range b.Succs {
			// blocks dominated by a nil-only block stay excluded
			skip := false
			for nb := range nilOnly {
				if nb != s && nb.Dominates(s) {
					skip = true
				}
			}
			if !skip {
				walk(s)
			}
		}
	}
	walk(commit.Block())
	return ok, why
}

// boundTarget: w is the synthetic bound-method wrapper of a method; returns that method.
func boundTarget(w *ssa.Function) *ssa.Function {
	// (a method value `x.m` is a closure over a bound-method wrapper; a method expression `(*T).m` used as a value is a thunk)
	if w == nil || !(strings.HasPrefix(w.Synthetic, "bound method wrapper") || strings.HasPrefix(w.Synthetic, "thunk")) {
		return nil
	}
	for _, b := range w.Blocks {
		for _, in := range b.Instrs {
			if ci, ok := in.(ssa.CallInstruction); ok {
				if cal := ci.Common().StaticCallee(); cal != nil {
					return cal
				}
			}
		}
	}
	return nil
}

// afterSuccessfulCommit: instruction `at` in a commit hook executes only if the wrapped Commit returned nil.
func afterSuccessfulCommit(commit ssa.CallInstruction, at ssa.Instruction) bool {
	cv := commit.Value()
	if cv == nil {
		return false
	}
	for _, cd := range edgeConds(at.Block()) {
		b, ok := cd.V.(*ssa.BinOp)
		if !ok {
			continue
		}
		if (b.X == ssa.Value(cv) && isNilConst(b.Y)) || (b.Y == ssa.Value(cv) && isNilConst(b.X)) {
			if (b.Op == token.EQL && cd.Pol) || (b.Op == token.NEQ && !cd.Pol) {
				return true
			}
		}
	}
	return false
}

func ruleC09_3(c *Ctx, r *Rep) {
	n, hooks := 0, map[*ssa.Function]bool{}
	for _, f := range c.Funcs {
		if c.testSupport(f) {
			continue
		}
		for _, b := range f.Blocks {
			for _, in := range b.Instrs {
				ci, ok := in.(ssa.CallInstruction)
				if !ok || !isWakeCall(ci.Common().StaticCallee()) {
					continue
				}
				callee := ci.Common().StaticCallee().Name()
				owner := c.Key(top(f))
				key := "C09.3:" + callee + "@" + c.Key(f)
				// wrappers inside notify.go
				if c.PkgOf(f) == "actions" && wakeFns[top(f).Name()] && f.Parent() == nil {
					continue
				}
				n++
				if c.PkgOf(f) != "actions" {
					okSvc := strings.HasPrefix(owner, "(*services.pgNotifier)")
					r.Check("C09.3", key, ci.Pos(), okSvc, "LISTEN/NOTIFY receiver (not in a transaction)", "wake-up called from "+owner+" outside package actions' commit hooks")
					continue
				}
				if _, isGo := in.(*ssa.Go); isGo {
					r.Fail("C09.3", key, ci.Pos(), "wake-up started in a goroutine: not ordered after the commit")
					continue
				}
				// shape-independent: the wake runs only after the wrapped Commit of a commit hook returned nil
				okPost := postCommit(c, in, 0)
				r.Check("C09.3", key, ci.Pos(), okPost, "wake only after the wrapped Commit returned nil", "waiters are woken outside an on-commit hook, or without checking that the wrapped Commit returned nil (or before calling it): a consumer can be notified of a change that is later rolled back (or before it is visible)")
			}
		}
	}
	// every function that wraps a Commit passes a failure on
	for _, f := range c.Funcs {
		if c.PkgOf(f) != "actions" || c.testSupport(f) || c.FnInControl(f) {
			continue
		}
		if commit := commitInvokeIn(f); commit != nil {
			hooks[f] = true
			okPass, whyPass := hookPassesCommitError(f, commit)
			r.Check("C09.3", "C09.3:commit-error-passed-on@"+c.Key(f), commit.Pos(), okPass, "a failed Commit is reported by the hook", whyPass)
		}
	}
	for name := range wakeFns {
		if w := c.Fn("actions." + name); w != nil {
			r.noValueUse(c, "C09.3", w)
		}
	}
	r.Floor("C09.3:hooks", len(hooks), 1) // one shared registration helper is a legitimate shape
	_ = n
}

// ---------------------------------------------------------------------------
// C09.2 transaction helpers

// txEnd: a Commit or Rollback call that ends DoTx's transaction, in the deferred closure or in a private helper it
// calls (with the helper's parameters bound to the call's arguments).
type txEnd struct {
	call     *ssa.Call
	fn       *ssa.Function
	bind     map[*ssa.Parameter]ssa.Value
	isCommit bool
	via      *ssa.Call // the call in the closure that leads to the helper (nil when in the closure itself)
}

func findTxEnds(c *Ctx, f *ssa.Function, bind map[*ssa.Parameter]ssa.Value, via *ssa.Call, depth int, out *[]txEnd) {
	for _, b := range f.Blocks {
		for _, in := range b.Instrs {
			call, ok := in.(*ssa.Call)
			if !ok {
				continue
			}
			cal := call.Call.StaticCallee()
			if cal == nil {
				continue
			}
			if fnIs(cal, entPkg, "Tx.Commit") || fnIs(cal, entPkg, "Tx.Rollback") {
				*out = append(*out, txEnd{call, f, bind, cal.Name() == "Commit", via})
				continue
			}
			if depth < 2 && c.inModule(cal) && len(cal.Blocks) > 0 && !c.EntShape().isGenerated(cal) && c.PkgOf(cal) == "ent" {
				nb := map[*ssa.Parameter]ssa.Value{}
				for k, v := range bind {
					nb[k] = v
				}
				for i, p := range cal.Params {
					if i < len(call.Call.Args) {
						nb[p] = call.Call.Args[i]
					}
				}
				v := via
				if v == nil {
					v = call
				}
				findTxEnds(c, cal, nb, v, depth+1, out)
			}
		}
	}
}

// cellOf: the local cell of `outer` that v loads (directly, through a captured variable, or through a bound parameter).
func localCellOf(v ssa.Value, outer *ssa.Function) *ssa.Alloc {
	for i := 0; i < 6; i++ {
		v = strip(v)
		if p, ok := v.(*ssa.Parameter); ok {
			if b, ok := curBind[p]; ok {
				v = b
				continue
			}
			return nil
		}
		u, ok := v.(*ssa.UnOp)
		if !ok || u.Op != token.MUL {
			return nil
		}
		switch x := u.X.(type) {
		case *ssa.Alloc:
			if x.Parent() == outer {
				return x
			}
			return nil
		case *ssa.FreeVar:
			if a, ok := freeVarBinding(x).(*ssa.Alloc); ok && a.Parent() == outer {
				return a
			}
			return nil
		}
		return nil
	}
	return nil
}

func ruleC09_2(c *Ctx, r *Rep) {
	fn := r.Anchor("C09.2", "(*ent.Client).DoTx")
	if fn != nil {
		// the operation: the call of the function-typed parameter
		var inner *ssa.Call
		for _, b := range fn.Blocks {
			for _, in := range b.Instrs {
				if call, ok := in.(*ssa.Call); ok && !call.Call.IsInvoke() {
					if p, isP := call.Call.Value.(*ssa.Parameter); isP && p.Parent() == fn {
						inner = call
					}
				}
			}
		}
		var ends []txEnd
		var dfn *ssa.Function
		for _, a := range fn.AnonFuncs {
			n := len(ends)
			findTxEnds(c, a, map[*ssa.Parameter]ssa.Value{}, nil, 0, &ends)
			if len(ends) > n {
				dfn = a
			}
		}
		// the flag that decides between them: the boolean cell of DoTx whose value guards the Commit
		var success *ssa.Alloc
		okC, okR := false, false
		nCommit := 0
		for _, e := range ends {
			withBindMap(e.bind, func() {
				var cells []struct {
					a   *ssa.Alloc
					pol bool
				}
				for _, cd := range edgeConds(e.call.Block()) {
					nc := normCond(cd.V, cd.Pol)
					if a := localCellOf(nc.V, fn); a != nil {
						if bt, isB := a.Type().Underlying().(*types.Pointer).Elem().Underlying().(*types.Basic); isB && bt.Kind() == types.Bool {
							cells = append(cells, struct {
								a   *ssa.Alloc
								pol bool
							}{a, nc.Pol})
						}
					}
				}
				if e.isCommit {
					nCommit++
					okHere := false
					for _, cl := range cells {
						if cl.pol {
							success = cl.a
							okHere = true
						}
					}
					if okHere && nCommit == 1 {
						okC = true
					}
					if !okHere {
						okC = false
					}
				} else {
					for _, cl := range cells {
						if !cl.pol && (success == nil || cl.a == success) {
							okR = true
						}
					}
				}
			})
		}
		if inner == nil || len(ends) == 0 {
			r.Fail("C09.2", "C09.2:DoTx:shape", fn.Pos(), "DoTx no longer runs its operation and ends the transaction in a deferred function in a form the rule can follow")
		} else {
			// rollback guard may have been seen before the commit told us which cell it is: re-check
			if success != nil && !okR {
				for _, e := range ends {
					if e.isCommit {
						continue
					}
					withBindMap(e.bind, func() {
						for _, cd := range edgeConds(e.call.Block()) {
							nc := normCond(cd.V, cd.Pol)
							if a := localCellOf(nc.V, fn); a == success && !nc.Pol {
								okR = true
							}
						}
					})
				}
			}
			r.Check("C09.2", "C09.2:DoTx:commit-iff-success", fn.Pos(), okC && okR && success != nil, "Commit only under the success flag, Rollback otherwise", "DoTx's deferred function does not commit exactly when the operation succeeded and roll back otherwise")
			okS := success != nil
			nTrue := 0
			if success != nil {
				innerNil := func(b *ssa.BasicBlock) bool {
					return condHas(edgeConds(b), true, func(v ssa.Value) bool {
						bo, ok := v.(*ssa.BinOp)
						return ok && bo.Op == token.EQL && dependsOnCall(bo.X, inner) && isNilConst(bo.Y) && instrDominates(inner, bo)
					}) || condHas(edgeConds(b), false, func(v ssa.Value) bool {
						bo, ok := v.(*ssa.BinOp)
						return ok && bo.Op == token.NEQ && dependsOnCall(bo.X, inner) && isNilConst(bo.Y) && instrDominates(inner, bo)
					})
				}
				for _, st := range allocStores(success) {
					if st.Parent() != fn {
						okS = false
						continue
					}
					if cst, isC := st.Val.(*ssa.Const); isC && cst.Value != nil {
						if cst.Value.String() == "true" {
							nTrue++
							if !innerNil(st.Block()) {
								okS = false
							}
						}
						continue
					}
					// success = (err == nil) with err the operation's result
					if bo, isB := st.Val.(*ssa.BinOp); isB && bo.Op == token.EQL && isNilConst(bo.Y) && dependsOnCall(bo.X, inner) && instrDominates(inner, st) {
						nTrue++
						continue
					}
					okS = false
				}
			}
			var pos token.Pos
			if success != nil {
				pos = success.Pos()
			}
			r.Check("C09.2", "C09.2:DoTx:success-only-if-inner-nil", pos, okS && nTrue >= 1, "the success flag is set only when inner(tx) returned nil", "DoTx marks the transaction successful although inner returned an error (or unconditionally): a failed operation is committed")
			if dfn != nil {
				ok, why := commitErrorReachesResult(c, fn, dfn, ends)
				r.Check("C09.2", "C09.2:DoTx:commit-error-reported", dfn.Pos(), ok, "a Commit/Rollback error is stored in the result unless the result already is a context error", why)
			}
		}
	}
	// pruneService.runOnce
	if ro := r.Anchor("C09.2", "(*services.pruneService).runOnce"); ro != nil {
		var exec ssa.CallInstruction
		for _, b := range ro.Blocks {
			for _, in := range b.Instrs {
				if ci, ok := in.(ssa.CallInstruction); ok && ci.Common().IsInvoke() && ci.Common().Method.Name() == "Execute" {
					exec = ci
				}
			}
		}
		okC := false
		var commitCall *ssa.Call
		for _, ci := range callsIn(ro, false, func(cal *ssa.Function, _ ssa.CallInstruction) bool { return fnIs(cal, entPkg, "Tx.Commit") }) {
			commitCall = ci.(*ssa.Call)
			if exec != nil && condHas(edgeConds(ci.Block()), true, func(v ssa.Value) bool {
				b, ok := v.(*ssa.BinOp)
				return ok && b.Op == token.EQL && isNilConst(b.Y) && b.X == exec.Value()
			}) {
				okC = true
			}
		}
		r.Check("C09.2", "C09.2:runOnce:commit-only-on-success", ro.Pos(), okC, "prune jobs commit only when Execute returned nil", "runOnce commits although the job's Execute returned an error")
		// tx is forgotten (so the deferred Rollback is skipped) only after Commit
		okN := commitCall != nil
		for _, b := range ro.Blocks {
			for _, in := range b.Instrs {
				if st, ok := in.(*ssa.Store); ok && isNilConst(st.Val) {
					if a, isA := st.Addr.(*ssa.Alloc); isA && a.Comment == "tx" {
						if commitCall == nil || !instrDominates(commitCall, st) {
							okN = false
						}
					}
				}
			}
		}
		okR := false
		for _, a := range ro.AnonFuncs {
			if len(callsIn(a, false, func(cal *ssa.Function, _ ssa.CallInstruction) bool { return fnIs(cal, entPkg, "Tx.Rollback") })) > 0 {
				okR = true
			}
		}
		r.Check("C09.2", "C09.2:runOnce:rollback-otherwise", ro.Pos(), okN && okR, "every other exit rolls back", "runOnce can leave without commit and without rollback")
	}
}

// commitErrorReachesResult: wherever the transaction is ended (the deferred closure, or a private helper whose result
// the closure stores into DoTx's named result), from the `err != nil` edge of the Commit/Rollback error every path
// to the exit makes the operation's result non-nil — a store into the named result, or (in a helper) returning
// anything but the unchanged previous result — unless it passed the true edge of a test that the previous result is
// a context cancellation (errors.Is(prev, context.Canceled|DeadlineExceeded), possibly inside a predicate helper).
func commitErrorReachesResult(c *Ctx, outer, dfn *ssa.Function, ends []txEnd) (bool, string) {
	// the named result cell of DoTx
	var resCell *ssa.Alloc
	for _, b := range outer.Blocks {
		for _, in := range b.Instrs {
			if a, ok := in.(*ssa.Alloc); ok && isResultSpillOrNamed(a, outer) {
				resCell = a
			}
		}
	}
	isResultCell := func(v ssa.Value) bool {
		switch x := v.(type) {
		case *ssa.FreeVar:
			a, ok := freeVarBinding(x).(*ssa.Alloc)
			return ok && resCell != nil && a == resCell
		case *ssa.Alloc:
			return resCell != nil && x == resCell
		}
		return false
	}
	// the function that tests the Commit/Rollback error
	f, bind := dfn, map[*ssa.Parameter]ssa.Value{}
	helperForm := false
	for _, e := range ends {
		if e.fn != dfn {
			f, bind, helperForm = e.fn, e.bind, true
			// the closure must store the helper's result into the named result
			stored := false
			if e.via != nil {
				if refs := e.via.Referrers(); refs != nil {
					for _, u := range *refs {
						if st, ok := u.(*ssa.Store); ok && isResultCell(st.Addr) {
							stored = true
						}
					}
				}
			}
			if !stored {
				return false, "the helper that ends the transaction computes the error to report, but the deferred function does not store it into DoTx's result"
			}
		}
	}
	var ok bool
	var why string
	withBindMap(bind, func() { ok, why = commitErrPaths(c, outer, f, helperForm, isResultCell) })
	return ok, why
}

func isResultSpillOrNamed(a *ssa.Alloc, fn *ssa.Function) bool {
	// a named result of error type: the alloc's comment is the result's name
	res := fn.Signature.Results()
	for i := 0; i < res.Len(); i++ {
		if res.At(i).Name() != "" && res.At(i).Name() == a.Comment && isErrorType(res.At(i).Type()) {
			return true
		}
	}
	return false
}

// isPrevResult: v is the operation's result so far — a load of the named result cell, or a parameter bound to one.
func isPrevResult(v ssa.Value, isResultCell func(ssa.Value) bool) bool {
	for i := 0; i < 6; i++ {
		v = strip(v)
		if p, ok := v.(*ssa.Parameter); ok {
			if b, ok := curBind[p]; ok {
				v = b
				continue
			}
			return false
		}
		if u, ok := v.(*ssa.UnOp); ok && u.Op == token.MUL {
			return isResultCell(u.X)
		}
		return false
	}
	return false
}

// ctxErrTest: call tests that the previous result is a context cancellation / deadline error.
func ctxErrTest(c *Ctx, call *ssa.Call, isResultCell func(ssa.Value) bool, depth int) bool {
	cal := call.Call.StaticCallee()
	if cal == nil {
		return false
	}
	if fnPkgPath(cal) == "errors" && cal.Name() == "Is" {
		if !isPrevResult(call.Call.Args[0], isResultCell) {
			return false
		}
		s1 := sources(call.Call.Args[1])
		return s1["global:Canceled"] || s1["global:DeadlineExceeded"]
	}
	// a predicate helper: func(err error) bool whose only calls are errors.Is(err, context.Canceled|DeadlineExceeded)
	if depth < 2 && c.inModule(cal) && len(cal.Blocks) > 0 && len(cal.Params) == 1 && len(call.Call.Args) == 1 && isPrevResult(call.Call.Args[0], isResultCell) {
		n := 0
		for _, b := range cal.Blocks {
			for _, in := range b.Instrs {
				ic, ok := in.(*ssa.Call)
				if !ok {
					continue
				}
				k := ic.Call.StaticCallee()
				if k == nil || fnPkgPath(k) != "errors" || k.Name() != "Is" || strip(ic.Call.Args[0]) != ssa.Value(cal.Params[0]) {
					return false
				}
				s1 := sources(ic.Call.Args[1])
				if !(s1["global:Canceled"] || s1["global:DeadlineExceeded"]) {
					return false
				}
				n++
			}
		}
		return n > 0
	}
	return false
}

func commitErrPaths(c *Ctx, outer, f *ssa.Function, helperForm bool, isResultCell func(ssa.Value) bool) (bool, string) {
	// entry of the error handling: the non-nil edge of a test of the Commit/Rollback error
	var starts []*ssa.BasicBlock
	for _, b := range f.Blocks {
		if len(b.Instrs) == 0 {
			continue
		}
		iff, ok := b.Instrs[len(b.Instrs)-1].(*ssa.If)
		if !ok {
			continue
		}
		nc := normCond(iff.Cond, true)
		bo, ok := nc.V.(*ssa.BinOp)
		if !ok || !isNilConst(bo.Y) || (bo.Op != token.NEQ && bo.Op != token.EQL) {
			continue
		}
		src := sources(bo.X)
		if src["call:Commit"] || src["call:Rollback"] {
			nonNilIsTrueEdge := (bo.Op == token.NEQ) == nc.Pol
			if nonNilIsTrueEdge {
				starts = append(starts, b.Succs[0])
			} else {
				starts = append(starts, b.Succs[1])
			}
		}
	}
	if len(starts) == 0 {
		return false, "the code that ends the transaction does not test the Commit/Rollback error"
	}
	type st struct {
		b      *ssa.BasicBlock
		guard  bool
		stored bool
	}
	seen := map[st]bool{}
	var bad string
	const msg = "a failed Commit (or Rollback) can leave the result untouched although the result is not known to be a context error: the operation reports success / the wrong error while nothing was committed"
	var walk func(s st)
	walk = func(s st) {
		if seen[s] || bad != "" {
			return
		}
		seen[s] = true
		for _, in := range s.b.Instrs {
			if sto, ok := in.(*ssa.Store); ok && isResultCell(sto.Addr) {
				s.stored = true
			}
			if ret, ok := in.(*ssa.Return); ok {
				if helperForm {
					// what the helper returns becomes the result: returning the previous result unchanged is "untouched"
					unchanged := len(ret.Results) == 0
					if len(ret.Results) > 0 {
						rv := retResult(ret, len(ret.Results)-1)
						unchanged = isPrevResult(rv, isResultCell) || isNilConst(rv)
						if p, isP := strip(rv).(*ssa.Parameter); isP {
							if b, has := curBind[p]; has {
								unchanged = isPrevResult(b, isResultCell)
							}
						}
					}
					if unchanged && !s.guard {
						bad = msg
					}
				} else if !s.stored && !s.guard {
					bad = msg
				}
				return
			}
		}
		if len(s.b.Succs) == 2 {
			iff := s.b.Instrs[len(s.b.Instrs)-1].(*ssa.If)
			nc := normCond(iff.Cond, true)
			g := false
			if call, ok := nc.V.(*ssa.Call); ok && ctxErrTest(c, call, isResultCell, 0) {
				g = true
			}
			// `prev == nil` false edge / `prev != nil` true edge: the previous result is already an error — returning
			// it unchanged still reports a failure
			prevNonNilEdge := -1
			if bo, ok := nc.V.(*ssa.BinOp); ok && isNilConst(bo.Y) && isPrevResult(bo.X, isResultCell) {
				if (bo.Op == token.NEQ) == nc.Pol {
					prevNonNilEdge = 0
				} else {
					prevNonNilEdge = 1
				}
			}
			gt, gf := s.guard, s.guard
			if g {
				if nc.Pol {
					gt = true
				} else {
					gf = true
				}
			}
			_ = prevNonNilEdge
			walk(st{s.b.Succs[0], gt, s.stored})
			walk(st{s.b.Succs[1], gf, s.stored})
			return
		}
		for _, n := range s.b.Succs {
			walk(st{n, s.guard, s.stored})
		}
	}
	for _, b := range starts {
		walk(st{b, false, false})
	}
	return bad == "", bad
}

// ---------------------------------------------------------------------------
// C09.4 / C09.5 one operation, one transaction

func isTxRunner(cal *ssa.Function) bool {
	return fnIs(cal, entPkg, "Client.DoTx") || fnIs(cal, entPkg, "Client.DoCtxTx") || fnIs(cal, entPkg, "Client.DoCtxTxRetry") ||
		fnIs(cal, modPath+"/actions", "GetSubscriptionMessages.ExecuteClient")
}

func handlerFuncs(c *Ctx) []*ssa.Function {
	var out []*ssa.Function
	for _, f := range c.Funcs {
		if f.Parent() != nil || f.Signature.Recv() == nil || c.PkgOf(f) != "services" {
			continue
		}
		n := namedOf(f.Signature.Recv().Type())
		if n == nil || !(n.Obj().Name() == "publisherServer" || n.Obj().Name() == "subscriberServer" || n.Obj().Name() == "healthServer") {
			continue
		}
		// RPC method shape: (ctx, *Req) (*Resp, error) or (stream) error
		sig := f.Signature
		if sig.Params().Len() == 2 && sig.Results().Len() == 2 || sig.Params().Len() == 1 && sig.Results().Len() == 1 || sig.Params().Len() == 2 && sig.Results().Len() == 1 {
			if f.Object() != nil && f.Object().Exported() {
				out = append(out, f)
			}
		}
	}
	return out
}

func ruleC09_4(c *Ctx, r *Rep) {
	// Publish: every PublishMessage.Execute in the handler receives the tx of one enclosing DoTx closure
	if h := r.Anchor("C09.4", "(*services.publisherServer).Publish"); h != nil {
		execs := c.callsInOp(h, func(cal *ssa.Function, _ ssa.CallInstruction) bool {
			return fnIs(cal, modPath+"/actions", "PublishMessage.Execute")
		})
		ok := len(execs) > 0
		for _, ci := range execs {
			// the tx handed to Execute is the parameter of one runner closure, possibly handed on through private
			// helpers (`publishOneMessage(ctx, tx, t, m)`): follow it to the closure, remembering the call site there
			var site ssa.Instruction = ci
			tx, isP := ci.Common().Args[2].(*ssa.Parameter)
			for hops := 0; isP && hops < 3 && !closurePassedToRunner(tx.Parent()); hops++ {
				cs := c.callersOf(tx.Parent())
				idx := -1
				for i, p := range tx.Parent().Params {
					if p == tx {
						idx = i
					}
				}
				if len(cs) != 1 || idx < 0 || idx >= len(cs[0].Common().Args) {
					isP = false
					break
				}
				site = cs[0]
				tx, isP = cs[0].Common().Args[idx].(*ssa.Parameter)
			}
			if !isP || !typeIs(tx.Type(), entPkg, "Tx") || !closurePassedToRunner(tx.Parent()) {
				ok = false
			}
			// ...and that closure contains the loop over the request's messages (not the other way round)
			if l := innermostLoop(loopsOf(site.Parent()), site.Block()); l == nil {
				ok = false
			}
		}
		r.Check("C09.4", "C09.4:publish-batch-one-tx", h.Pos(), ok, "the whole Publish request shares one transaction", "a Publish batch is not stored inside one transaction: a failing message leaves earlier messages of the same request committed")
	}
	// doAcksNacks: ack and nack in one tx
	if f := r.Anchor("C09.4", "(*actions.MessageStreamer).doAcksNacks"); f != nil {
		a := callsIn(f, true, func(cal *ssa.Function, _ ssa.CallInstruction) bool {
			return fnIs(cal, modPath+"/actions", "AckDeliveries.Execute")
		})
		n := callsIn(f, true, func(cal *ssa.Function, _ ssa.CallInstruction) bool {
			return fnIs(cal, modPath+"/actions", "NackDeliveries.Execute")
		})
		ok := len(a) == 1 && len(n) == 1
		if ok {
			ta, ia := a[0].Common().Args[2].(*ssa.Parameter)
			tn, in2 := n[0].Common().Args[2].(*ssa.Parameter)
			ok = ia && in2 && ta == tn && closurePassedToRunner(ta.Parent())
		}
		r.Check("C09.4", "C09.4:stream-ack-nack-one-tx", f.Pos(), ok, "a stream request's acks and nacks share one transaction", "acks and nacks of one stream request run in separate transactions: a failure in one half leaves the other committed")
	}
	// no handler starts a transaction per request item
	n := 0
	for _, h := range handlerFuncs(c) {
		if h.Name() == "StreamingPull" {
			continue
		}
		var walk func(f *ssa.Function)
		walk = func(f *ssa.Function) {
			ls := loopsOf(f)
			for _, ci := range callsIn(f, false, func(cal *ssa.Function, _ ssa.CallInstruction) bool { return isTxRunner(cal) }) {
				n++
				inLoop := innermostLoop(ls, ci.Block()) != nil
				r.Check("C09.4", "C09.4:no-tx-in-loop@"+c.Key(h), ci.Pos(), !inLoop, "", "handler "+c.Key(h)+" opens a transaction inside a loop: one request is split over several transactions and can half-apply")
			}
			for _, a := range f.AnonFuncs {
				walk(a)
			}
		}
		walk(h)
	}
	r.Floor("C09.4:handlers", n, 10)
	// mutations outside a transaction only as the single statement of an operation
	byOwner := map[string][]*Stmt{}
	for _, s := range c.EntShape().Stmts {
		if s.Kind != "select" {
			byOwner[c.Owner(s)] = append(byOwner[c.Owner(s)], s)
		}
	}
	keys := c.stmtKeys()
	for _, s := range c.EntShape().Stmts {
		if s.Kind == "select" || !s.OnClient {
			continue
		}
		r.Check("C09.4", "C09.4:client-mutation@"+keys[s], s.Pos, len(byOwner[c.Owner(s)]) == 1, "single auto-committed statement", "a mutation runs outside a transaction next to other mutations of the same operation: a later failure cannot roll it back")
	}
}

func closurePassedToRunner(cl *ssa.Function) bool {
	mc := makeClosureOf(cl)
	if mc == nil {
		// a named function or method handed to the runner as a value (method value: closure over its bound wrapper)
		if lastCtx == nil || cl.Parent() != nil {
			return false
		}
		for _, f := range lastCtx.Funcs {
			for _, b := range f.Blocks {
				for _, in := range b.Instrs {
					call, ok := in.(*ssa.Call)
					if !ok || !isTxRunner(call.Call.StaticCallee()) {
						continue
					}
					for _, a := range call.Call.Args {
						g := funcOf(a)
						if t := boundTarget(g); t != nil {
							g = t
						}
						if g == cl {
							return true
						}
					}
				}
			}
		}
		return false
	}
	refs := mc.Referrers()
	if refs == nil {
		return false
	}
	for _, in := range *refs {
		if call, ok := in.(*ssa.Call); ok && isTxRunner(call.Call.StaticCallee()) {
			return true
		}
	}
	return false
}

func ruleC09_5(c *Ctx, r *Rep) {
	n := 0
	for _, h := range handlerFuncs(c) {
		if h.Signature.Results().Len() != 2 {
			continue
		}
		for _, ci := range callsIn(h, false, func(cal *ssa.Function, _ ssa.CallInstruction) bool { return isTxRunner(cal) }) {
			n++
			v := ci.Value()
			ok := true
			for _, b := range h.Blocks {
				if len(b.Instrs) == 0 {
					continue
				}
				iff, isIf := b.Instrs[len(b.Instrs)-1].(*ssa.If)
				if !isIf {
					continue
				}
				bo, isB := iff.Cond.(*ssa.BinOp)
				if !isB || bo.X != ssa.Value(v) || !isNilConst(bo.Y) {
					continue
				}
				okEdge := b.Succs[1]
				if bo.Op == token.EQL {
					okEdge = b.Succs[0]
				}
				for blk := range reachableFrom([]*ssa.BasicBlock{okEdge}, nil) {
					for _, in := range blk.Instrs {
						if ret, isR := in.(*ssa.Return); isR && !returnsNilError(ret) {
							ok = false
						}
					}
				}
			}
			r.Check("C09.5", "C09.5:error-after-commit@"+c.Key(h), ci.Pos(), ok, "", "handler "+c.Key(h)+" can answer with an error after its transaction committed: the client is told the request failed although its effects persist")
		}
	}
	r.Floor("C09.5", n, 8)
}

// ---------------------------------------------------------------------------
// C09.1 / K5: no storage error is dropped inside a transaction

func txScope(c *Ctx, f *ssa.Function) bool {
	pk := c.PkgOf(f)
	if pk == "actions" {
		return true
	}
	if pk == "services" {
		file := c.Fset.Position(top(f).Pos()).Filename
		for _, s := range []string{"grpc-publisher.go", "grpc-subscriber.go", "grpc-snapshots.go", "prune-common.go", "deadletter.go", "http-push.go"} {
			if strings.HasSuffix(file, "/"+s) {
				return true
			}
		}
	}
	return false
}

// storageCall: a call whose error result reports a storage/operation failure.
func storageCall(c *Ctx, ci ssa.CallInstruction) bool {
	com := ci.Common()
	sig := com.Signature()
	if sig.Results().Len() == 0 || !isErrorType(sig.Results().At(sig.Results().Len()-1).Type()) {
		return false
	}
	if com.IsInvoke() {
		return com.Method.Name() == "Execute" || com.Method.Name() == "Commit"
	}
	cal := com.StaticCallee()
	if cal == nil {
		// dynamic call of a func value taking *ent.Tx (runTx, inner)
		for i := 0; i < sig.Params().Len(); i++ {
			if strings.Contains(sig.Params().At(i).Type().String(), "ent.Tx") {
				return true
			}
		}
		return false
	}
	if fnPkgPath(cal) == entPkg && cal.Signature.Recv() != nil {
		if _, _, ok := builderType(cal.Signature.Recv().Type()); ok && terminalNames[cal.Name()] {
			return true
		}
		if _, ok := clientType(cal.Signature.Recv().Type()); ok && (cal.Name() == "Get") {
			return true
		}
		if isTxRunner(cal) || fnIs(cal, entPkg, "Tx.Commit") || fnIs(cal, entPkg, "Client.BeginTx") {
			return true
		}
	}
	if isTxRunner(cal) {
		return true
	}
	if c.inModule(cal) && (c.PkgOf(cal) == "actions" || c.PkgOf(cal) == "services") {
		for _, p := range cal.Params {
			if typeIs(p.Type(), entPkg, "Tx") {
				return true
			}
		}
	}
	return false
}

var toleratedErrTests = map[string]bool{"IsNotFound": true, "isNotFound": true, "Is": true, "As": true, "isSqlDuplicateKeyError": true, "IsPostgreSQLErrorCode": true, "IsConstraintError": true}

// errHandled: every path on which the error value is non-nil ends in a return of a non-nil error,
// unless it passed a tolerated classification test on that error.
func errHandled(fn *ssa.Function, e ssa.Value) (bool, string) {
	refs := e.Referrers()
	if refs == nil || len(*refs) == 0 {
		return false, "the error result is discarded"
	}
	used := false
	for _, in := range *refs {
		switch x := in.(type) {
		case *ssa.Return:
			used = true
		case *ssa.Store:
			used = true // assigned to a result / captured variable: followed through its loads
			if al, ok := x.Addr.(*ssa.Alloc); ok {
				if ld := loadsOf(al); len(ld) == 0 && !isResultSpill(al) {
					return false, "the error is stored but never read"
				}
			}
		case *ssa.Phi:
			used = true
			// produced in a loop iteration and carried round through the header's phi: unless the loop body examines
			// that phi, the next iteration's result overwrites this one (`for … { n, err = …Save(ctx) }; if err != nil`)
			if def, isI := e.(ssa.Instruction); isI {
				for _, l := range loopsOf(fn) {
					if x.Block() != l.Header || !l.Blocks[def.Block()] {
						continue
					}
					examinedInside := false
					if pr := x.Referrers(); pr != nil {
						for _, u := range *pr {
							if _, isPhi := u.(*ssa.Phi); isPhi {
								continue
							}
							if _, isDbg := u.(*ssa.DebugRef); isDbg {
								continue
							}
							if l.Blocks[u.Block()] {
								examinedInside = true
							}
						}
					}
					if !examinedInside {
						return false, "the error of one loop iteration is only looked at after the loop: a later iteration's result overwrites it"
					}
				}
			}
		case *ssa.MakeInterface, *ssa.Call, *ssa.ChangeInterface:
			used = true
		case *ssa.BinOp:
			used = true
			if !isNilConst(x.Y) && !isNilConst(x.X) {
				continue
			}
			// find the If using this comparison
			br := x.Referrers()
			if br == nil || len(*br) == 0 {
				// `if err != nil { continue }` with nothing after it: the comparison decides nothing
				if len(*refs) == 1 {
					return false, "the error is compared with nil but both outcomes continue identically (it is effectively ignored)"
				}
				continue
			}
			for _, bi := range *br {
				iff, ok := bi.(*ssa.If)
				if !ok {
					continue
				}
				nonNil := iff.Block().Succs[0]
				if x.Op == token.EQL {
					nonNil = iff.Block().Succs[1]
				}
				if ok2, why := nonNilPathReturnsError(nonNil, e); !ok2 {
					return false, why
				}
			}
		case *ssa.DebugRef:
		}
	}
	if !used {
		return false, "the error result is never examined"
	}
	return true, ""
}

func loadsOf(a *ssa.Alloc) []*ssa.UnOp {
	var out []*ssa.UnOp
	if refs := a.Referrers(); refs != nil {
		for _, in := range *refs {
			if u, ok := in.(*ssa.UnOp); ok && u.Op == token.MUL {
				out = append(out, u)
			}
			if mc, ok := in.(*ssa.MakeClosure); ok {
				_ = mc
				out = append(out, &ssa.UnOp{})
			}
		}
	}
	return out
}

func isResultSpill(a *ssa.Alloc) bool { return a.Comment == "" }

func nonNilPathReturnsError(start *ssa.BasicBlock, e ssa.Value) (bool, string) {
	type st struct {
		b   *ssa.BasicBlock
		tol bool
	}
	seen := map[st]bool{}
	bad := ""
	var walk func(s st)
	walk = func(s st) {
		if seen[s] || bad != "" {
			return
		}
		seen[s] = true
		for _, in := range s.b.Instrs {
			if ret, ok := in.(*ssa.Return); ok {
				if returnsNilError(ret) && !s.tol {
					bad = "a storage error can be swallowed: on the path where the error is non-nil the function returns nil (" + ret.Parent().Name() + ")"
				}
				return
			}
			if _, ok := in.(*ssa.Panic); ok {
				return
			}
			// a background service loop is the top of its operation: it reports the error by logging it
			if call, ok := in.(*ssa.Call); ok {
				if cal := call.Call.StaticCallee(); cal != nil && cal.Name() == "Err" && strings.HasSuffix(fnPkgPath(cal), "rs/zerolog") && top(call.Parent()).Name() == "Start" {
					for _, a := range call.Call.Args {
						if a == e {
							s.tol = true
						}
					}
				}
			}
		}
		if len(s.b.Succs) == 2 {
			iff := s.b.Instrs[len(s.b.Instrs)-1].(*ssa.If)
			t0, t1 := s.tol, s.tol
			cond := iff.Cond
			neg := false
			if u, ok := cond.(*ssa.UnOp); ok && u.Op == token.NOT {
				cond, neg = u.X, true
			}
			if call, ok := cond.(*ssa.Call); ok {
				if cal := call.Call.StaticCallee(); cal != nil && toleratedErrTests[cal.Name()] {
					uses := false
					for _, a := range call.Call.Args {
						if a == e || dependsOnValue(a, e) {
							uses = true
						}
					}
					if uses {
						if neg {
							t1 = true
						} else {
							t0 = true
						}
					}
				}
			}
			// a further nil test of the same error: only the non-nil side is consistent with this path
			if bo, ok := cond.(*ssa.BinOp); ok && !neg && (bo.X == e && isNilConst(bo.Y) || bo.Y == e && isNilConst(bo.X)) {
				if bo.Op == token.NEQ {
					walk(st{s.b.Succs[0], s.tol})
					return
				}
				if bo.Op == token.EQL {
					walk(st{s.b.Succs[1], s.tol})
					return
				}
			}
			if ex, ok := cond.(*ssa.Extract); ok { // `_, ok := IsPostgreSQLErrorCode(err, ..)`
				if call, ok := ex.Tuple.(*ssa.Call); ok {
					if cal := call.Call.StaticCallee(); cal != nil && toleratedErrTests[cal.Name()] {
						t0 = true
					}
				}
			}
			walk(st{s.b.Succs[0], t0})
			walk(st{s.b.Succs[1], t1})
			return
		}
		for _, n := range s.b.Succs {
			walk(st{n, s.tol})
		}
	}
	walk(st{start, false})
	return bad == "", bad
}

func ruleC09_1(c *Ctx, r *Rep) {
	n := 0
	perFn := map[string]int{}
	for _, f := range c.Funcs {
		if !txScope(c, f) || c.EntShape().isGenerated(f) || c.testSupport(f) {
			continue
		}
		for _, b := range f.Blocks {
			for _, in := range b.Instrs {
				ci, ok := in.(ssa.CallInstruction)
				if !ok || !storageCall(c, ci) {
					continue
				}
				if _, isDefer := in.(*ssa.Defer); isDefer {
					continue
				}
				if _, isGo := in.(*ssa.Go); isGo {
					continue
				}
				call := in.(*ssa.Call)
				n++
				perFn[c.Key(f)]++
				name := "?"
				if cal := call.Call.StaticCallee(); cal != nil {
					name = cal.Name()
				} else if call.Call.IsInvoke() {
					name = call.Call.Method.Name()
				} else {
					name = call.Call.Value.Name()
				}
				key := fmt.Sprintf("C09.1:%s#%d@%s", name, perFn[c.Key(f)], c.Key(f))
				// the error value
				var e ssa.Value
				nres := call.Call.Signature().Results().Len()
				if nres == 1 {
					e = call
				} else if refs := call.Referrers(); refs != nil {
					for _, rr := range *refs {
						if ex, ok := rr.(*ssa.Extract); ok && ex.Index == nres-1 {
							e = ex
						}
					}
				}
				if e == nil {
					r.Fail("C09.1", key, call.Pos(), "the error of "+name+" is discarded: a failing statement inside the transaction goes unnoticed and the operation commits partially")
					continue
				}
				ok2, why := errHandled(f, e)
				r.Check("C09.1", key, call.Pos(), ok2, "", "error of "+name+": "+why)
			}
		}
	}
	r.Floor("C09.1", n, 60)
}

// C09.6: an action's Execute must be re-executable: a transaction runner with retry (DoCtxTxRetry) calls it again
// after a rolled-back attempt. Write-backs of resolved ids/names into the parameters are fine; an update of a
// parameter from ITS OWN previous value (re-slicing, appending, counting down) makes the retry a different operation.
func ruleC09_6(c *Ctx, r *Rep) {
	n := 0
	for _, f := range c.Funcs {
		if c.PkgOf(f) != "actions" || top(f).Name() != "Execute" && top(f).Name() != "execute" {
			continue
		}
		for _, b := range f.Blocks {
			for _, in := range b.Instrs {
				st, ok := in.(*ssa.Store)
				if !ok {
					continue
				}
				fa, ok := st.Addr.(*ssa.FieldAddr)
				if !ok {
					continue
				}
				k := valKey(fa)
				if !strings.Contains(k, ".params.") {
					continue
				}
				n++
				derived, safe := selfDerived(st.Val, k, map[ssa.Value]bool{})
				self := derived && !safe
				r.Check("C09.6", fmt.Sprintf("C09.6:param-store#%d@%s", n, c.Key(top(f))), st.Pos(), !self, "write-back of a resolved value",
					"Execute rewrites its own parameter "+k[strings.Index(k, ".params."):]+" from its previous value: when the transaction is rolled back and the runner retries, the second attempt is a different (smaller) operation, yet reports success")
			}
		}
	}
	r.Floor("C09.6", n, 4)
}

// selfDerived: does v derive from the current value of the field with key k, and if so only through operations
// that keep the set of elements (whole-slice copy, clone, conversion)? Re-slicing, appending to it, arithmetic and
// unknown calls are not safe.
func selfDerived(v ssa.Value, k string, seen map[ssa.Value]bool) (derived, safe bool) {
	if seen[v] {
		return false, true
	}
	seen[v] = true
	join := func(vs ...ssa.Value) (bool, bool) {
		d, s := false, true
		for _, x := range vs {
			if x == nil {
				continue
			}
			dx, sx := selfDerived(x, k, seen)
			if dx {
				d = true
				s = s && sx
			}
		}
		return d, s
	}
	switch t := v.(type) {
	case *ssa.UnOp:
		if t.Op == token.MUL {
			if fa, ok := t.X.(*ssa.FieldAddr); ok && valKey(fa) == k {
				return true, true
			}
		}
	case *ssa.Phi:
		return join(t.Edges...)
	case *ssa.Convert:
		return join(t.X)
	case *ssa.ChangeType:
		return join(t.X)
	case *ssa.Slice:
		d, s := join(t.X)
		if d && (t.Low != nil || t.High != nil || t.Max != nil) {
			return true, false
		}
		return d, s
	case *ssa.Call:
		if bi, ok := t.Call.Value.(*ssa.Builtin); ok && bi.Name() == "append" && len(t.Call.Args) == 2 {
			if d, _ := join(t.Call.Args[0]); d {
				return true, false
			}
			return join(t.Call.Args[1])
		}
		if cal := t.Call.StaticCallee(); cal != nil && fnPkgPath(cal) == "slices" && strings.HasPrefix(cal.Name(), "Clone") {
			return join(t.Call.Args...)
		}
	}
	if derivesFromPath(v, k) {
		return true, false
	}
	return false, true
}

// derivesFromPath: backward slice from v reaches a load of the field with key k — not looking through calls that
// return stored entities (a row looked up by the parameter is not "the parameter's previous value": the retry looks
// the same row up again).
func derivesFromPath(v ssa.Value, k string) bool {
	seen := map[ssa.Value]bool{}
	var walk func(v ssa.Value, d int) bool
	walk = func(v ssa.Value, d int) bool {
		if v == nil || seen[v] || d > 40 {
			return false
		}
		seen[v] = true
		switch x := v.(type) {
		case *ssa.FieldAddr:
			if valKey(x) == k {
				return true
			}
		case *ssa.Field:
			if valKey(x) == k {
				return true
			}
		case *ssa.Call:
			if returnsEntity(x.Type()) {
				return false
			}
		case *ssa.Alloc:
			for _, st := range allocStores(x) {
				if walk(st.Val, d+1) {
					return true
				}
			}
			return false
		case *ssa.FreeVar:
			if b := freeVarBinding(x); b != nil {
				return walk(b, d+1)
			}
			return false
		}
		if in, ok := v.(ssa.Instruction); ok {
			for _, op := range in.Operands(nil) {
				if *op != nil && walk(*op, d+1) {
					return true
				}
			}
		}
		return false
	}
	return walk(v, 0)
}

func returnsEntity(t types.Type) bool {
	isEnt := func(t types.Type) bool {
		if sl, ok := t.Underlying().(*types.Slice); ok {
			t = sl.Elem()
		}
		if p, ok := t.Underlying().(*types.Pointer); ok {
			if n, ok := p.Elem().(*types.Named); ok && n.Obj().Pkg() != nil && n.Obj().Pkg().Path() == entPkg {
				_, isStruct := n.Underlying().(*types.Struct)
				return isStruct
			}
		}
		return false
	}
	if tup, ok := t.(*types.Tuple); ok {
		for i := 0; i < tup.Len(); i++ {
			if isEnt(tup.At(i).Type()) {
				return true
			}
		}
		return false
	}
	return isEnt(t)
}

// calledOnlyAfterCommit: closure f is handed (as an argument) to a helper whose corresponding parameter is invoked
// only inside commit hooks, after the wrapped Commit returned nil.
func calledOnlyAfterCommit(c *Ctx, f *ssa.Function) bool {
	mc := makeClosureOf(f)
	var fv ssa.Value
	if mc != nil {
		fv = mc
	}
	par := f.Parent()
	if par == nil {
		return false
	}
	found := false
	for _, b := range par.Blocks {
		for _, in := range b.Instrs {
			call, ok := in.(*ssa.Call)
			if !ok {
				continue
			}
			h := call.Call.StaticCallee()
			if h == nil || !c.inModule(h) {
				continue
			}
			for i, a := range call.Call.Args {
				if !((fv != nil && strip(a) == fv) || funcOf(a) == f) {
					continue
				}
				if i >= len(h.Params) {
					return false
				}
				if !paramInvokedOnlyAfterCommit(h, h.Params[i]) {
					return false
				}
				found = true
			}
		}
	}
	return found
}

func paramInvokedOnlyAfterCommit(h *ssa.Function, p *ssa.Parameter) bool {
	n := 0
	ok := true
	var walk func(f *ssa.Function)
	walk = func(f *ssa.Function) {
		for _, b := range f.Blocks {
			for _, in := range b.Instrs {
				call, isC := in.(*ssa.Call)
				if !isC || call.Call.IsInvoke() || call.Call.StaticCallee() != nil {
					continue
				}
				// the called value resolves to the parameter (directly or through captured cells)
				v := resolve(call.Call.Value)
				for i := 0; i < 5; i++ {
					if fvv, isFV := v.(*ssa.FreeVar); isFV {
						if bnd := freeVarBinding(fvv); bnd != nil {
							v = resolve(bnd)
							continue
						}
					}
					break
				}
				if v != ssa.Value(p) {
					continue
				}
				n++
				commit, isHook := commitHook(f)
				if !isHook || !afterSuccessfulCommit(commit, in) {
					ok = false
				}
			}
		}
		for _, a := range f.AnonFuncs {
			walk(a)
		}
	}
	walk(h)
	return ok && n > 0
}

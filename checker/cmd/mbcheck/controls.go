package main

import (
	"encoding/json"
	"fmt"
	"os"
	"os/exec"
	"path/filepath"
	"sort"
	"strings"
	"sync"
	"time"
)

// positive controls: tiny violating functions injected by overlay (never on disk).
func controlOverlay() (map[string][]byte, map[string]bool) {
	ov := map[string][]byte{}
	files := map[string]bool{}
	for rel, src := range controlSources {
		p := filepath.Join(repoDir(), rel)
		ov[p] = []byte(src)
		files[p] = true
	}
	return ov, files
}

func thoroughExtras(c *Ctx, p *propInfo, r *Rep, extra map[string]any) {
	// (a) other build configurations that select different files
	var cfgs []map[string]any
	for _, env := range [][]string{{"CGO_ENABLED=0"}, {"GOARCH=386", "CGO_ENABLED=0"}} {
		t0 := time.Now()
		ov, files := controlOverlay()
		c2, err := Load(ov, env, files)
		res := map[string]any{"env": strings.Join(env, " ")}
		if err != nil {
			res["error"] = err.Error()
			r.Fail("load", "config:"+strings.Join(env, ","), 0, "tree does not load under "+strings.Join(env, " ")+": "+err.Error())
		} else {
			r2 := newRep(c2, p.ID)
			for _, rule := range p.Rules {
				rule.run(c2, r2)
			}
			nv := 0
			for _, o := range r2.Obs {
				if o.Status == "violation" || o.Status == "undecided" {
					nv++
					o.Key = o.Key + " [" + strings.Join(env, ",") + "]"
					r.Obs = append(r.Obs, o)
				}
			}
			res["obligations"], res["violations"], res["packages"] = len(r2.Obs), nv, len(c2.Pkgs)
		}
		res["wall_s"] = time.Since(t0).Seconds()
		cfgs = append(cfgs, res)
	}
	extra["build_configurations"] = cfgs
	// (b) seeded-mutant sensitivity of the rules of this property (a statement about the checker)
	res := runMutants(p.ID, false)
	extra["mutants_applicable"], extra["mutants_killed"], extra["mutants_survived"] = res.applicable, res.killed, res.survived
	extra["negative_controls"], extra["negative_controls_silent"] = res.negTotal, res.negSilent
}

// ---------------------------------------------------------------------------
// seeded mutants / negative controls: in-memory overlays, one child process each

type mutant struct {
	ID       string   `json:"id"`
	Property string   `json:"property"`
	Rule     string   `json:"rule"` // rule id prefix expected to fire ("" for negative controls)
	File     string   `json:"file"` // relative to the repo
	Old      string   `json:"old"`
	New      string   `json:"new"`
	Edits    []medit  `json:"edits"`    // further edits (multi-site mutants)
	Negative bool     `json:"negative"` // behaviour-preserving edit: must stay silent
	Props    []string `json:"properties"`
	Why      string   `json:"why"`
	Patch    string   `json:"-"`    // unified diff (the independently seeded changes under /verif/seeded)
	Base     string   `json:"base"` // a refactoring under /verif/seeded (e.g. "neg/N6-1") applied first: the edits then break the REFACTORED code
}

type medit struct {
	File string `json:"file"`
	Old  string `json:"old"`
	New  string `json:"new"`
}

func loadMutants() []mutant {
	var out []mutant
	files, _ := filepath.Glob("/verif/checker/testdata/mutants/*.json")
	sort.Strings(files)
	for _, f := range files {
		b, err := os.ReadFile(f)
		if err != nil {
			continue
		}
		var ms []mutant
		if err := json.Unmarshal(b, &ms); err != nil {
			fmt.Fprintf(os.Stderr, "bad mutant file %s: %v\n", f, err)
			continue
		}
		out = append(out, ms...)
	}
	// the independently seeded breaking changes (written by people who never saw the checker), as patches
	metas, _ := filepath.Glob("/verif/seeded/*/meta.json")
	sort.Strings(metas)
	for _, mf := range metas {
		b, err := os.ReadFile(mf)
		if err != nil {
			continue
		}
		var meta struct {
			Property string `json:"property"`
			Status   string `json:"status"`
		}
		if json.Unmarshal(b, &meta) != nil || meta.Status != "confirmed" {
			continue
		}
		dir := filepath.Dir(mf)
		pf := filepath.Join(dir, "patch.diff")
		if _, err := os.Stat(pf); err != nil {
			continue
		}
		out = append(out, mutant{ID: "seed-" + filepath.Base(dir), Property: meta.Property, Rule: meta.Property, Patch: pf, Why: "independently seeded change"})
	}
	// independently written behaviour-preserving refactorings: every check must stay silent on them
	negs, _ := filepath.Glob("/verif/seeded/neg/*/patch.diff")
	sort.Strings(negs)
	var all []string
	for _, p := range allProps() {
		all = append(all, p.ID)
	}
	for _, pf := range negs {
		out = append(out, mutant{ID: "refactor-" + filepath.Base(filepath.Dir(pf)), Property: "NEG", Negative: true, Props: all, Patch: pf, Why: "independently written behaviour-preserving refactoring"})
	}
	return out
}

// patchOverlay applies a unified diff to copies of the files it names (never to the tree) and returns the result.
func patchOverlay(patch string) (map[string][]byte, bool) {
	b, err := os.ReadFile(patch)
	if err != nil {
		return nil, false
	}
	var rels []string
	for _, l := range strings.Split(string(b), "\n") {
		if strings.HasPrefix(l, "+++ b/") {
			rels = append(rels, strings.TrimSpace(strings.TrimPrefix(l, "+++ b/")))
		}
	}
	tmp, err := os.MkdirTemp("", "mbpatch-")
	if err != nil {
		return nil, false
	}
	defer os.RemoveAll(tmp)
	for _, rel := range rels {
		src, err := os.ReadFile(filepath.Join(repoDir(), rel))
		_ = os.MkdirAll(filepath.Dir(filepath.Join(tmp, rel)), 0o755)
		if err == nil {
			_ = os.WriteFile(filepath.Join(tmp, rel), src, 0o644)
		}
	}
	cmd := exec.Command("git", "apply", "-p1", patch)
	cmd.Dir = tmp
	cmd.Env = append(os.Environ(), "GIT_DIR=/nonexistent", "GIT_CEILING_DIRECTORIES="+filepath.Dir(tmp))
	if err := cmd.Run(); err != nil {
		return nil, false
	}
	ov := map[string][]byte{}
	for _, rel := range rels {
		nb, err := os.ReadFile(filepath.Join(tmp, rel))
		if err != nil {
			return nil, false
		}
		ov[filepath.Join(repoDir(), rel)] = nb
	}
	return ov, len(ov) > 0
}

func (m mutant) overlay() (map[string][]byte, bool) {
	if m.Patch != "" {
		return patchOverlay(m.Patch)
	}
	ov := map[string][]byte{}
	if m.Base != "" {
		base, ok := patchOverlay(filepath.Join("/verif/seeded", m.Base, "patch.diff"))
		if !ok {
			return nil, false
		}
		ov = base
	}
	edits := append([]medit{{m.File, m.Old, m.New}}, m.Edits...)
	for _, e := range edits {
		p := filepath.Join(repoDir(), e.File)
		cur, ok := ov[p]
		if !ok {
			b, err := os.ReadFile(p)
			if err != nil {
				return nil, false
			}
			cur = b
		}
		if strings.Count(string(cur), e.Old) < 1 {
			return nil, false
		}
		ov[p] = []byte(strings.Replace(string(cur), e.Old, e.New, 1))
	}
	return ov, true
}

type mutRes struct {
	applicable, killed, negTotal, negSilent int
	survived                                []string
	lines                                   []string
}

// runOneMutant is executed in a child process: prints "RESULT <status> <detail>".
func runOneMutant(id string) int {
	for _, m := range loadMutants() {
		if m.ID != id {
			continue
		}
		ov, ok := m.overlay()
		if !ok {
			fmt.Println("RESULT inapplicable old text not found")
			return 0
		}
		cov, files := controlOverlay()
		for k, v := range cov {
			ov[k] = v
		}
		c, err := Load(ov, nil, files)
		if err != nil {
			fmt.Println("RESULT nocompile " + strings.ReplaceAll(err.Error(), "\n", " "))
			return 0
		}
		props := m.Props
		if len(props) == 0 {
			props = []string{m.Property}
		}
		var fired []string
		for _, pid := range props {
			p := propByID(pid)
			if p == nil {
				continue
			}
			r := newRep(c, pid)
			func() {
				defer func() {
					if e := recover(); e != nil {
						fired = append(fired, fmt.Sprintf("panic:%v", e))
					}
				}()
				for _, rule := range p.Rules {
					rule.run(c, r)
				}
			}()
			for _, o := range r.Obs {
				if o.Status == "violation" || o.Status == "undecided" {
					line := o.Rule + "@" + o.Pos + " " + o.Key
					if os.Getenv("MB_VERBOSE") != "" {
						line += " :: " + o.Msg
					}
					fired = append(fired, line)
				}
			}
		}
		if m.Negative {
			if len(fired) == 0 {
				fmt.Println("RESULT silent")
			} else {
				fmt.Println("RESULT falsealarm " + strings.Join(fired, " | "))
			}
			return 0
		}
		hit := false
		for _, f := range fired {
			if strings.HasPrefix(f, m.Rule) {
				hit = true
			}
		}
		if hit {
			fmt.Println("RESULT killed " + strings.Join(fired, " | "))
		} else if len(fired) > 0 {
			fmt.Println("RESULT killed-other " + strings.Join(fired, " | "))
		} else {
			fmt.Println("RESULT survived")
		}
		return 0
	}
	fmt.Println("RESULT unknown-id")
	return 1
}

func runMutants(prop string, verbose bool) mutRes {
	var res mutRes
	ms := loadMutants()
	var sel []mutant
	for _, m := range ms {
		if prop == "" || m.Property == prop {
			sel = append(sel, m)
		}
	}
	exe, _ := os.Executable()
	type out struct {
		m   mutant
		res string
	}
	outs := make([]out, len(sel))
	sem := make(chan struct{}, 6)
	var wg sync.WaitGroup
	for i, m := range sel {
		wg.Add(1)
		go func(i int, m mutant) {
			defer wg.Done()
			sem <- struct{}{}
			defer func() { <-sem }()
			cmd := exec.Command(exe, "mutant", m.ID)
			cmd.Env = append(os.Environ(), "MB_EVIDENCE_DIR="+os.TempDir()+"/mbcheck-selftest")
			b, _ := cmd.CombinedOutput()
			line := "RESULT error " + strings.ReplaceAll(string(b), "\n", " ")
			for _, l := range strings.Split(string(b), "\n") {
				if strings.HasPrefix(l, "RESULT ") {
					line = l
				}
			}
			outs[i] = out{m, line}
		}(i, m)
	}
	wg.Wait()
	for _, o := range outs {
		status := strings.Fields(o.res)[1]
		l := fmt.Sprintf("%-28s %-4s %-8s %-12s %s", o.m.ID, o.m.Property, o.m.Rule, status, strings.TrimPrefix(o.res, "RESULT "+status))
		res.lines = append(res.lines, l)
		if verbose {
			fmt.Println(l)
		}
		switch {
		case status == "inapplicable":
		case o.m.Negative:
			res.negTotal++
			if status == "silent" {
				res.negSilent++
			} else {
				res.survived = append(res.survived, o.m.ID+"(false alarm)")
			}
		default:
			res.applicable++
			if status == "killed" || status == "killed-other" {
				res.killed++
			} else {
				res.survived = append(res.survived, o.m.ID+":"+status)
			}
		}
	}
	return res
}

func selftest(prop string, verbose bool) int {
	res := runMutants(prop, verbose)
	fmt.Printf("selftest: mutants killed %d/%d, negative controls silent %d/%d\n", res.killed, res.applicable, res.negSilent, res.negTotal)
	if len(res.survived) > 0 {
		fmt.Println("not as expected: " + strings.Join(res.survived, ", "))
		return 1
	}
	return 0
}

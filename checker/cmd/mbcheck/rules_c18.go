package main

import (
	"fmt"
	"go/token"
	"go/types"
	"os"
	"sort"
	"strings"

	"golang.org/x/tools/go/ssa"
)

const faultsPkg = modPath + "/faults"

// ---------------------------------------------------------------------------
// C18 fault injection

func ruleC18_1(c *Ctx, r *Rep) {
	n := 0
	for _, f := range c.Funcs {
		for _, b := range f.Blocks {
			for _, in := range b.Instrs {
				fa, ok := in.(*ssa.FieldAddr)
				if !ok || !typeIs(fa.X.Type(), faultsPkg, "Description") || fieldName(fa.X.Type(), fa.Field) != "Count" {
					continue
				}
				// a by-value copy (local struct) is private to the function
				if _, isLocal := fa.X.(*ssa.Alloc); isLocal {
					continue
				}
				n++
				ok2 := true
				what := ""
				if refs := fa.Referrers(); refs != nil {
					for _, u := range *refs {
						switch y := u.(type) {
						case *ssa.Call:
							cal := y.Call.StaticCallee()
							if cal == nil || fnPkgPath(cal) != "sync/atomic" {
								ok2, what = false, "passed to a non-atomic function"
							}
						case *ssa.UnOp:
							ok2, what = false, "plain read"
						case *ssa.Store:
							ok2, what = false, "plain write"
						case *ssa.DebugRef:
						default:
							ok2, what = false, fmt.Sprintf("%T", u)
						}
					}
				}
				r.Check("C18.1", fmt.Sprintf("C18.1:Count@%s#%d", c.Key(f), n), fa.Pos(), ok2, "remaining count touched only through sync/atomic",
					"the shared remaining count of a fault description is accessed without sync/atomic ("+what+") in "+c.Key(f)+": racing callers can both see a positive count (more failures than configured) or lose decrements")
			}
		}
	}
	r.Floor("C18.1", n, 3)
}

// reachUnderSign: blocks reachable from `from` when every comparison of v with the constant 0 is decided for sign sg (-1, 0, +1).
func reachUnderSign(from *ssa.BasicBlock, v ssa.Value, sg int, avoid map[*ssa.BasicBlock]bool) map[*ssa.BasicBlock]bool {
	seen := map[*ssa.BasicBlock]bool{}
	var walk func(b *ssa.BasicBlock)
	walk = func(b *ssa.BasicBlock) {
		if seen[b] || avoid[b] {
			return
		}
		seen[b] = true
		if len(b.Succs) == 2 {
			iff := b.Instrs[len(b.Instrs)-1].(*ssa.If)
			if bo, ok := iff.Cond.(*ssa.BinOp); ok && bo.X == v {
				if k, isK := constInt(bo.Y); isK {
					// the sign class as an interval, compared with the constant on the interval domain
					cls := &AV{K: 'i'}
					switch {
					case sg < 0:
						cls.LoInf, cls.Hi = true, -1
					case sg == 0:
						cls.Lo, cls.Hi = 0, 0
					default:
						cls.Lo, cls.HiInf = 1, true
					}
					switch cmpIv(bo.Op, cls, &AV{K: 'i', Lo: k, Hi: k}) {
					case tYes:
						walk(b.Succs[0])
						return
					case tNo:
						walk(b.Succs[1])
						return
					}
				}
			}
		}
		for _, s := range b.Succs {
			walk(s)
		}
	}
	walk(from)
	return seen
}

func ruleC18_2(c *Ctx, r *Rep) {
	fn := r.Anchor("C18.2", "(*faults.Set).Check")
	if fn == nil {
		return
	}
	// the decrement may live in Check itself or in a private helper that only Check calls
	var dec *ssa.Call
	for _, f := range c.Funcs {
		if c.PkgOf(f) != "faults" || !c.partOf(f, "(*faults.Set).Check", 0) {
			continue
		}
		for _, ci := range callsIn(f, false, func(cal *ssa.Function, _ ssa.CallInstruction) bool {
			return fnPkgPath(cal) == "sync/atomic" && cal.Name() == "AddInt64"
		}) {
			call, isCall := ci.(*ssa.Call)
			if !isCall {
				continue
			}
			if d, ok := constInt(call.Call.Args[1]); ok && d == -1 && sources(call.Call.Args[0])["field:Count"] {
				dec = call
				fn = f
			}
		}
	}
	if dec == nil {
		r.Fail("C18.2", "C18.2:decrement", fn.Pos(), "Check does not take a shot with atomic.AddInt64(&d.Count, -1)")
		return
	}
	// the fault firing: dynamic call of the OnFault field — in the function that decrements, or (claim / fire split) in
	// a sibling helper that Check calls exactly when the claiming helper handed back a description
	var fire *ssa.Call
	var match *ssa.Call
	for _, b := range fn.Blocks {
		for _, in := range b.Instrs {
			call, ok := in.(*ssa.Call)
			if !ok {
				continue
			}
			if call.Call.StaticCallee() == nil && !call.Call.IsInvoke() && sources(call.Call.Value)["field:OnFault"] {
				fire = call
			}
			if cal := call.Call.StaticCallee(); cal != nil && fnIs(cal, faultsPkg, "Set.match") {
				match = call
			}
		}
	}
	fireBlocks := map[*ssa.BasicBlock]bool{}
	if fire != nil {
		fireBlocks[fire.Block()] = true
	} else if match != nil {
		// the claiming helper: "fires" = returns the matched description to a caller that then runs the handler
		okOrch := false
		for _, site := range c.callersOf(fn) {
			k := site.Parent()
			sv := site.Value()
			if sv == nil {
				continue
			}
			for _, ci := range callsIn(k, false, func(cal *ssa.Function, _ ssa.CallInstruction) bool {
				if !c.inModule(cal) || c.PkgOf(cal) != "faults" {
					return false
				}
				for _, b := range cal.Blocks {
					for _, in := range b.Instrs {
						if dc, ok := in.(*ssa.Call); ok && dc.Call.StaticCallee() == nil && !dc.Call.IsInvoke() && sources(dc.Call.Value)["field:OnFault"] {
							return true
						}
					}
				}
				return false
			}) {
				// the firing helper is called under `description != nil` (from the claim's result) and nothing else
				conds := edgeConds(ci.Block())
				good := len(conds) > 0
				for _, cd := range conds {
					nc := normCond(cd.V, cd.Pol)
					bo, isB := nc.V.(*ssa.BinOp)
					if !isB || !isNilConst(bo.Y) || !dependsOnValue(bo.X, sv) || (bo.Op == token.NEQ) != nc.Pol {
						good = false
					}
				}
				if good {
					okOrch = true
				}
			}
		}
		if okOrch {
			for _, ret := range returnsOf(fn) {
				if len(ret.Results) > 0 && !isNilConst(retResult(ret, 0)) && dependsOnCall(retResult(ret, 0), match) {
					fireBlocks[ret.Block()] = true
				}
			}
		}
	}
	if len(fireBlocks) == 0 || match == nil {
		r.Fail("C18.2", "C18.2:shape", fn.Pos(), "Check no longer has the match / OnFault structure the rule is anchored on")
		return
	}
	for _, sg := range []int{-1, 0, 1} {
		reach := reachUnderSign(dec.Block(), dec, sg, nil)
		fires := false
		for b := range fireBlocks {
			if reach[b] {
				fires = true
			}
		}
		name := map[int]string{-1: "remaining<0", 0: "remaining=0", 1: "remaining>0"}[sg]
		if sg < 0 {
			// a racer that lost must not fire, and must look for another matching description before giving up
			noMatch := reachUnderSign(dec.Block(), dec, sg, map[*ssa.BasicBlock]bool{match.Block(): true})
			retWithout := false
			for b := range noMatch {
				for _, in := range b.Instrs {
					if _, isRet := in.(*ssa.Return); isRet {
						retWithout = true
					}
				}
			}
			r.Check("C18.2", "C18.2:"+name, dec.Pos(), !fires && !retWithout, "a lost race neither fires nor gives up: it re-matches",
				fmt.Sprintf("when the decrement drops below zero (another caller took the last shot) the call fires anyway (%v) or returns without looking for another matching description (%v): more or fewer calls fail than configured", fires, retWithout))
		} else {
			r.Check("C18.2", "C18.2:"+name, dec.Pos(), fires, "a shot that was available fires", "a call that obtained a shot ("+name+") does not fire the fault: fewer calls fail than configured")
		}
	}
	// the value handed to the check is the decrement's own result (no second read)
}

func ruleC18_3(c *Ctx, r *Rep) {
	n := 0
	for _, f := range c.Funcs {
		if c.PkgOf(f) != "faults" || f.Name() == "NewSet" {
			continue
		}
		acc := fieldAccesses(f, faultsPkg, "Set", "faults")
		acc = append(acc, mapAccesses(f, func(v ssa.Value) bool {
			u, ok := v.(*ssa.UnOp)
			if !ok || u.Op != token.MUL {
				return false
			}
			fa, ok := u.X.(*ssa.FieldAddr)
			return ok && typeIs(fa.X.Type(), faultsPkg, "Set") && fieldName(fa.X.Type(), fa.Field) == "faults"
		})...)
		if len(acc) == 0 {
			continue
		}
		li := lockSets(f)
		for i, a := range acc {
			n++
			held := li.heldAt(a.instr)
			ok := held["f:Set.mu#r"]
			if a.write {
				ok = held["f:Set.mu"]
			}
			mode := "read"
			if a.write {
				mode = "write"
			}
			r.Check("C18.3", fmt.Sprintf("C18.3:%s#%d@%s", mode, i+1, c.Key(f)), a.instr.Pos(), ok, "under Set.mu",
				"the fault table is accessed ("+a.what+", "+mode+") in "+c.Key(f)+" without the required lock")
			// check-then-act: what a write puts into the table is computed inside the same exclusive section. A value
			// that comes from a read made under the shared lock, or from a helper that takes (and releases) the mutex
			// itself, is a snapshot of an earlier state: writing it back erases whatever was added in between.
			if a.write && ok {
				var ops []ssa.Value
				switch x := a.instr.(type) {
				case *ssa.MapUpdate:
					ops = append(ops, x.Key, x.Value)
				case *ssa.Call:
					ops = append(ops, x.Call.Args[1:]...)
				}
				stale := ""
				for v := range valueClosure(ops) {
					switch x := v.(type) {
					case *ssa.Call:
						if cal := x.Call.StaticCallee(); cal != nil && c.inModule(cal) && takesMutex(cal, "Set.mu") {
							stale = "the result of " + c.Key(cal) + ", which takes and releases the lock itself"
						}
					}
					if in, isI := v.(ssa.Instruction); isI {
						for _, b := range acc {
							if b.instr == in && !b.write && !li.heldAt(in)["f:Set.mu"] {
								stale = "a " + b.what + " of the table made without the exclusive lock"
							}
						}
					}
				}
				r.Check("C18.3", fmt.Sprintf("C18.3:fresh-write#%d@%s", i+1, c.Key(f)), a.instr.Pos(), stale == "", "", "the value written to the fault table derives from "+stale+": between that read and this write another caller can add or consume faults, and the stale list written back erases them (a configured fault never fires)")
			}
		}
	}
	r.Floor("C18.3", n, 6)
}

func ruleC18_4(c *Ctx, r *Rep) {
	fn := r.Anchor("C18.4", "(*faults.Description).match")
	if fn == nil {
		return
	}
	var retTrues []*ssa.Return
	for _, ret := range returnsOf(fn) {
		if cst, ok := retResult(ret, 0).(*ssa.Const); ok && cst.Value != nil && cst.Value.String() == "true" {
			retTrues = append(retTrues, ret)
		} else if !ok {
			// a computed result: the rule cannot tell which paths say "match"
			r.Undecided("C18.4", "C18.4:match-result-computed", ret.Pos(), "match returns a computed value: the rule needs constant true/false results to attribute them to paths")
		}
	}
	if len(retTrues) == 0 {
		r.Fail("C18.4", "C18.4:match", fn.Pos(), "match never returns true")
		return
	}
	// the loop over the injected parameters and its "exhausted" exit
	var exhausted *ssa.BasicBlock
	for _, b := range fn.Blocks {
		for _, in := range b.Instrs {
			nx, ok := in.(*ssa.Next)
			if !ok {
				continue
			}
			rg, ok := nx.Iter.(*ssa.Range)
			if !ok || !sources(rg.X)["field:Parameters"] || sources(rg.X)["param:params"] {
				continue
			}
			if iff, ok := b.Instrs[len(b.Instrs)-1].(*ssa.If); ok {
				if ex, ok := iff.Cond.(*ssa.Extract); ok && ex.Tuple == ssa.Value(nx) && ex.Index == 0 {
					exhausted = b.Succs[1]
				}
			}
		}
	}
	for i, retTrue := range retTrues {
		cs := edgeConds(retTrue.Block())
		okCount := condHas(cs, false, func(v ssa.Value) bool {
			bo, ok := v.(*ssa.BinOp)
			if !ok || bo.Op != token.LEQ {
				return false
			}
			z, isZ := constInt(bo.Y)
			return isZ && z == 0 && atomicCountRead(bo.X, 0)
		}) || condHas(cs, true, func(v ssa.Value) bool {
			bo, ok := v.(*ssa.BinOp)
			if !ok || bo.Op != token.GTR {
				return false
			}
			z, isZ := constInt(bo.Y)
			return isZ && z == 0 && atomicCountRead(bo.X, 0)
		})
		okOp := condHas(cs, false, func(v ssa.Value) bool {
			bo, ok := v.(*ssa.BinOp)
			return ok && bo.Op == token.NEQ && sources(bo.X)["field:Operation"] && sources(bo.Y)["param:op"]
		}) || condHas(cs, true, func(v ssa.Value) bool {
			bo, ok := v.(*ssa.BinOp)
			return ok && bo.Op == token.EQL && sources(bo.X)["field:Operation"] && sources(bo.Y)["param:op"]
		})
		sfx := ""
		if i > 0 {
			sfx = fmt.Sprintf("#%d", i+1)
		}
		r.Check("C18.4", "C18.4:count-and-operation"+sfx, retTrue.Pos(), okCount && okOp, "a match requires remaining count > 0 and the same operation",
			fmt.Sprintf("match can return true without `count > 0` (%v) or without `operation equal` (%v)", okCount, okOp))
		// a "match" verdict is given only after every injected parameter was compared (or there is none)
		after := exhausted != nil && dominates(exhausted, retTrue.Block())
		none := condHas(cs, true, func(v ssa.Value) bool {
			bo, ok := v.(*ssa.BinOp)
			if !ok || bo.Op != token.EQL {
				return false
			}
			z, isZ := constInt(bo.Y)
			sx := sources(bo.X)
			return isZ && z == 0 && sx["field:Parameters"] && !sx["param:params"]
		})
		r.Check("C18.4", "C18.4:verdict-after-all-parameters"+sfx, retTrue.Pos(), after || none, "true only after the loop over the injected parameters is exhausted",
			"match returns true on a path that has not compared every injected parameter with the call's parameters (e.g. a fast path keyed on the CALL's parameter map): calls that do not match are failed")
	}
	// every injected parameter must be present and equal
	missing, different := false, false
	for _, b := range fn.Blocks {
		if len(b.Instrs) == 0 {
			continue
		}
		iff, ok := b.Instrs[len(b.Instrs)-1].(*ssa.If)
		if !ok {
			continue
		}
		retFalse := func(blk *ssa.BasicBlock) bool {
			for _, in := range blk.Instrs {
				if ret, ok := in.(*ssa.Return); ok {
					if cst, ok := retResult(ret, 0).(*ssa.Const); ok && cst.Value != nil && cst.Value.String() == "false" {
						return true
					}
				}
			}
			return false
		}
		if ex, ok := iff.Cond.(*ssa.Extract); ok && ex.Index == 1 {
			if lk, ok := ex.Tuple.(*ssa.Lookup); ok && lk.CommaOk && sources(lk.X)["param:params"] && sources(lk.Index)["field:Parameters"] {
				if retFalse(b.Succs[1]) {
					missing = true
				}
			}
		}
		if bo, ok := iff.Cond.(*ssa.BinOp); ok && bo.Op == token.NEQ {
			sx, sy := sources(bo.X), sources(bo.Y)
			if (sx["param:params"] && sy["field:Parameters"]) || (sy["param:params"] && sx["field:Parameters"]) {
				if retFalse(b.Succs[0]) {
					different = true
				}
			}
		}
	}
	// and the loop over the injected parameters has no other exit
	okLoop := false
	for _, l := range loopsOf(fn) {
		okLoop = true
		for _, e := range l.exitEdges() {
			if e[0] == l.Header {
				continue
			}
			isFalseRet := false
			for _, in := range e[1].Instrs {
				if ret, ok := in.(*ssa.Return); ok {
					if cst, ok := retResult(ret, 0).(*ssa.Const); ok && cst.Value != nil && cst.Value.String() == "false" {
						isFalseRet = true
					}
				}
			}
			if !isFalseRet {
				okLoop = false
			}
		}
	}
	// ... and "no match" is said only for a reason: exhausted count, another operation, an injected parameter missing
	// or different (or, soundly, more injected parameters than the call carries). Any other early `return false`
	// (an off-by-one size pre-check, a fast reject keyed on something else) makes matching calls pass unfailed.
	for i, ret := range returnsOf(fn) {
		cst, isC := retResult(ret, 0).(*ssa.Const)
		if !isC || cst.Value == nil || cst.Value.String() != "false" {
			continue
		}
		reasonOf := func(cs []Cond) string {
			reason := ""
			for _, cd := range cs {
				nc := normCond(cd.V, cd.Pol)
				switch x := nc.V.(type) {
				case *ssa.BinOp:
					z, isZ := constInt(x.Y)
					sx, sy := sources(x.X), sources(x.Y)
					switch {
					case isZ && z == 0 && atomicCountRead(x.X, 0) && (x.Op == token.LEQ && nc.Pol || x.Op == token.GTR && !nc.Pol || x.Op == token.LSS && nc.Pol):
						reason = "count"
					case sx["field:Operation"] && sy["param:op"] && (x.Op == token.NEQ && nc.Pol || x.Op == token.EQL && !nc.Pol):
						reason = "operation"
					case ((sx["param:params"] && sy["field:Parameters"]) || (sy["param:params"] && sx["field:Parameters"])) && !isLenCall(x.X) && !isLenCall(x.Y) && (x.Op == token.NEQ && nc.Pol || x.Op == token.EQL && !nc.Pol):
						reason = "different"
					case isLenCall(x.X) && isLenCall(x.Y) && sx["field:Parameters"] && !sx["param:params"] && sy["param:params"] && (x.Op == token.GTR && nc.Pol || x.Op == token.LEQ && !nc.Pol):
						reason = "more injected parameters than the call has"
					}
				case *ssa.Extract:
					if lk, ok := x.Tuple.(*ssa.Lookup); ok && x.Index == 1 && lk.CommaOk && !nc.Pol && sources(lk.X)["param:params"] && sources(lk.Index)["field:Parameters"] {
						reason = "missing"
					}
				}
			}
			return reason
		}
		// judged per path: `if a || b { return false }` has no single dominating condition
		reason, all := "", true
		np := pathsTo(fn, ret.Block(), func(cs []Cond) {
			if w := reasonOf(cs); w != "" {
				reason = w
			} else {
				all = false
			}
		})
		if np == 0 || !all {
			reason = ""
		}
		r.Check("C18.4", fmt.Sprintf("C18.4:no-match-only-for-a-reason#%d", i+1), ret.Pos(), reason != "", reason, "match says no on a path that has established neither an exhausted count, nor another operation, nor a missing or different injected parameter (e.g. a size pre-check that also rejects calls with exactly the injected parameters): matching calls are not failed and the fault is never used up")
	}
	r.Check("C18.4", "C18.4:subset-of-parameters", fn.Pos(), missing && different && okLoop, "every injected parameter must be present with an equal value",
		fmt.Sprintf("match does not require every injected parameter to be present (%v) and equal (%v), over the whole parameter set (%v): calls that do not match are failed", missing, different, okLoop))
}

// atomicCountRead: v derives from atomic.LoadInt64 (of a Count), directly or through a module accessor every return
// of which is such a load.
func atomicCountRead(v ssa.Value, depth int) bool {
	if sources(v)["call:LoadInt64"] {
		return true
	}
	if depth > 2 || lastCtx == nil {
		return false
	}
	call, ok := resolve(v).(*ssa.Call)
	if !ok {
		return false
	}
	cal := call.Call.StaticCallee()
	if cal == nil || !lastCtx.inModule(cal) || len(cal.Blocks) == 0 {
		return false
	}
	rets := returnsOf(cal)
	if len(rets) == 0 {
		return false
	}
	for _, ret := range rets {
		if len(ret.Results) != 1 || !atomicCountRead(retResult(ret, 0), depth+1) {
			return false
		}
	}
	return true
}

func ruleC18_5(c *Ctx, r *Rep) {
	for _, k := range []string{"(*faults.Set).prune", "(*faults.Set).Current"} {
		fn := r.Anchor("C18.5", k)
		if fn == nil {
			continue
		}
		ok := false
		// `count > 0` as a comparison, or as the verdict of a private predicate every return of which is that comparison
		var positiveTest func(v ssa.Value, d int) bool
		positiveTest = func(v ssa.Value, d int) bool {
			if bo, isB := v.(*ssa.BinOp); isB && bo.Op == token.GTR {
				if z, isZ := constInt(bo.Y); isZ && z == 0 && (atomicCountRead(bo.X, 0) || sources(bo.X)["field:Count"] || isCountOfCopy(bo.X)) {
					return true
				}
			}
			if call, isC := v.(*ssa.Call); isC && d < 2 {
				cal := call.Call.StaticCallee()
				if cal != nil && c.inModule(cal) && len(cal.Blocks) > 0 {
					rets := returnsOf(cal)
					if len(rets) == 0 {
						return false
					}
					for _, ret := range rets {
						if len(ret.Results) != 1 || !positiveTest(retResult(ret, 0), d+1) {
							return false
						}
					}
					return true
				}
			}
			return false
		}
		for _, f := range c.opFuncs(fn) {
			for _, b := range f.Blocks {
				if len(b.Instrs) == 0 {
					continue
				}
				if iff, isIf := b.Instrs[len(b.Instrs)-1].(*ssa.If); isIf {
					nc := normCond(iff.Cond, true)
					if positiveTest(nc.V, 0) {
						ok = true
					}
				}
				// ... or handed back as the keep / drop verdict of a helper of the operation (`return dd, dd.Count > 0`)
				if ret, isRet := b.Instrs[len(b.Instrs)-1].(*ssa.Return); isRet && f != fn {
					for i := range ret.Results {
						if positiveTest(retResult(ret, i), 0) {
							ok = true
						}
					}
				}
			}
		}
		r.Check("C18.5", "C18.5:count>0@"+k, fn.Pos(), ok, "kept / listed exactly while the remaining count is positive", k+" no longer separates live from exhausted descriptions by `count > 0`")
	}
}

// C18.6: the pooled parameter map is emptied before it is filled.
func ruleC18_6(c *Ctx, r *Rep) {
	fn := r.Anchor("C18.6", "grpc.paramsFromProtoMessage")
	if fn == nil {
		return
	}
	// the map is taken from the pool here, or in a private helper that hands it out (acquire + clear)
	fn = c.opFuncWhere(fn, func(f *ssa.Function) bool {
		for _, b := range f.Blocks {
			for _, in := range b.Instrs {
				if ta, ok := in.(*ssa.TypeAssert); ok && sources(ta.X)["call:Get"] && isMapType(ta.AssertedType) {
					return true
				}
			}
		}
		return false
	})
	// the map value: type assertion of paramsPool.Get()
	var m ssa.Value
	for _, b := range fn.Blocks {
		for _, in := range b.Instrs {
			if ta, ok := in.(*ssa.TypeAssert); ok && sources(ta.X)["call:Get"] && isMapType(ta.AssertedType) {
				m = ta
			}
		}
	}
	if m == nil {
		// not pooled any more: a fresh map needs no clearing
		fresh := false
		for _, b := range fn.Blocks {
			for _, in := range b.Instrs {
				if _, ok := in.(*ssa.MakeMap); ok {
					fresh = true
				}
			}
		}
		r.Check("C18.6", "C18.6:params-start-empty", fn.Pos(), fresh, "fresh map", "the parameter map is neither fresh nor taken from the pool the rule knows")
		return
	}
	// clearing: builtin clear(m), or a range loop over m deleting its keys, dominating every update of m (in fn and its closures)
	var clearAt ssa.Instruction
	var clearLoop *loop
	ls := loopsOf(fn)
	for _, b := range fn.Blocks {
		for _, in := range b.Instrs {
			call, ok := in.(*ssa.Call)
			if !ok {
				continue
			}
			bi, ok := call.Call.Value.(*ssa.Builtin)
			if !ok {
				continue
			}
			if bi.Name() == "clear" && resolve(call.Call.Args[0]) == m {
				clearAt = call
			}
			if bi.Name() == "delete" && resolve(call.Call.Args[0]) == m {
				if l := innermostLoop(ls, b); l != nil {
					// key comes from ranging over m itself
					if ex, ok := strip(call.Call.Args[1]).(*ssa.Extract); ok {
						if nx, ok := ex.Tuple.(*ssa.Next); ok {
							if rg, ok := nx.Iter.(*ssa.Range); ok && resolve(rg.X) == m {
								only := true
								for _, e := range l.exitEdges() {
									if e[0] != l.Header {
										only = false
									}
								}
								if only {
									clearLoop = l
								}
							}
						}
					}
				}
			}
		}
	}
	ok := clearAt != nil || clearLoop != nil
	if ok {
		for _, b := range fn.Blocks {
			for _, in := range b.Instrs {
				if mu, isMU := in.(*ssa.MapUpdate); isMU && resolve(mu.Map) == m {
					if clearAt != nil && !instrDominates(clearAt, mu) {
						ok = false
					}
					if clearAt == nil && !(dominates(clearLoop.Header, b) && !clearLoop.Blocks[b]) {
						ok = false
					}
					// the clearing must be unconditional: the loop header dominates the function's exits
					if clearAt == nil {
						for _, ret := range returnsOf(fn) {
							if !dominates(clearLoop.Header, ret.Block()) {
								ok = false
							}
						}
					}
				}
			}
		}
	}
	// writes made by closures that capture the map happen when the closure is handed out: that point must come
	// after the clearing too
	if ok {
		for _, a := range fn.AnonFuncs {
			writes := false
			for _, b := range a.Blocks {
				for _, in := range b.Instrs {
					if mu, isMU := in.(*ssa.MapUpdate); isMU && resolve(mu.Map) == m {
						writes = true
					}
				}
			}
			if !writes {
				continue
			}
			mc := makeClosureOf(a)
			if mc == nil {
				ok = false
				continue
			}
			if refs := mc.Referrers(); refs != nil {
				for _, u := range *refs {
					ui, isInstr := u.(ssa.Instruction)
					if !isInstr {
						continue
					}
					if clearAt != nil && !instrDominates(clearAt, ui) {
						ok = false
					}
					if clearAt == nil && !(dominates(clearLoop.Header, ui.Block()) && !clearLoop.Blocks[ui.Block()] && loopExitDominates(clearLoop, ui.Block())) {
						ok = false
					}
				}
			}
		}
	}
	r.Check("C18.6", "C18.6:params-start-empty", m.Pos(), ok, "the pooled map is emptied before the request's fields are written",
		"the parameter map taken from the pool is not emptied before use: string fields of an earlier request leak into this call's parameters, so a call that does not match an injected fault can be failed (and consumes its count)")
}

// ---------------------------------------------------------------------------
// C19 HTTP push

const fnPushSend = "(*actions.httpPushStreamConn).Send"
const fnPushRecv = "(*actions.httpPushStreamConn).Receive"

func queueOf(v ssa.Value) string {
	for k := range sources(v) {
		if strings.HasPrefix(k, "field:") && strings.HasSuffix(k, "Queue") {
			return strings.TrimPrefix(k, "field:")
		}
	}
	return ""
}

func ruleC19_1(c *Ctx, r *Rep) {
	send := r.Anchor("C19.1", fnPushSend)
	if send == nil {
		return
	}
	var body *ssa.Function
	// the function that performs the HTTP round trip: a goroutine closure of Send, or a private method it starts
	var findBody func(f *ssa.Function)
	findBody = func(f *ssa.Function) {
		if len(callsIn(f, false, func(cal *ssa.Function, _ ssa.CallInstruction) bool {
			return cal.Name() == "Do" && strings.HasSuffix(fnPkgPath(cal), "net/http")
		})) > 0 && f != send {
			body = f
		}
		for _, a := range f.AnonFuncs {
			findBody(a)
		}
	}
	for _, f := range c.opFuncs(send) {
		findBody(f)
	}
	if body == nil {
		r.Fail("C19.1", "C19.1:shape", send.Pos(), "the pushing goroutine was not found")
		return
	}
	// q: the phi feeding the final send
	var q *ssa.Phi
	for _, b := range body.Blocks {
		for _, in := range b.Instrs {
			if sel, ok := in.(*ssa.Select); ok {
				for _, st := range sel.States {
					if st.Dir == 1 {
						if ph, ok := st.Chan.(*ssa.Phi); ok {
							q = ph
						}
					}
				}
			}
		}
	}
	if q == nil || os.Getenv("MB_FORCE_PROV") != "" {
		// the queue is not chosen by a plain phi in the goroutine (e.g. it travels in a result struct filled by
		// helpers): decide the same three obligations from the path-sensitive provenance of the queue value
		c19ByProvenance(c, r, body)
		return
	}
	// edgeQueue: which queue arrives at q's block when control comes from pred p (following nested phis)
	var queuesFrom func(v ssa.Value, depth int) map[string]bool
	queuesFrom = func(v ssa.Value, depth int) map[string]bool {
		out := map[string]bool{}
		if ph, ok := v.(*ssa.Phi); ok && depth < 6 {
			for _, e := range ph.Edges {
				for k := range queuesFrom(e, depth+1) {
					out[k] = true
				}
			}
			return out
		}
		if qn := queueOf(v); qn != "" {
			out[qn] = true
		}
		return out
	}
	// comparisons of the status code
	success := map[int64]bool{}
	var codes []int64
	nonEq := false
	for _, b := range body.Blocks {
		if len(b.Instrs) == 0 {
			continue
		}
		iff, ok := b.Instrs[len(b.Instrs)-1].(*ssa.If)
		if !ok {
			continue
		}
		bo, ok := iff.Cond.(*ssa.BinOp)
		if !ok || !sources(bo.X)["field:StatusCode"] {
			continue
		}
		kc, isC := constInt(bo.Y)
		if !isC {
			continue
		}
		if bo.Op != token.EQL {
			nonEq = true
			continue
		}
		codes = append(codes, kc)
		// does the true edge lead to q with an ack queue only?
		tgt := b.Succs[0]
		qs := map[string]bool{}
		for i, p := range q.Block().Preds {
			if p == tgt || reachableFrom([]*ssa.BasicBlock{tgt}, map[*ssa.BasicBlock]bool{q.Block(): true})[p] {
				for k := range queuesFrom(q.Edges[i], 0) {
					qs[k] = true
				}
			}
		}
		if !qs["nackQueue"] && (qs["fastAckQueue"] || qs["slowAckQueue"]) {
			success[kc] = true
		}
	}
	want := []int64{102, 200, 201, 202, 204}
	var got []int64
	for k := range success {
		got = append(got, k)
	}
	sort.Slice(got, func(i, j int) bool { return got[i] < got[j] })
	ok := !nonEq && len(got) == len(want)
	for i := range want {
		if i >= len(got) || got[i] != want[i] {
			ok = false
		}
	}
	r.Check("C19.1", "C19.1:success-set", body.Pos(), ok, "acknowledged exactly for 102, 200, 201, 202, 204",
		fmt.Sprintf("the set of HTTP statuses that acknowledge a pushed message is %v (range comparisons: %v), not exactly {102,200,201,202,204}: another final status would ack the message and it is never pushed again", got, nonEq))
	// transport error and default lead to the nack queue
	okErr := false
	for i, p := range q.Block().Preds {
		_ = p
		qs := queuesFrom(q.Edges[i], 0)
		if qs["nackQueue"] && len(qs) == 1 {
			okErr = true
		}
	}
	// the error path: block dominated by err != nil true reaches q only with nackQueue
	okTransport := false
	for _, b := range body.Blocks {
		if !condHas(edgeConds(b), true, func(v ssa.Value) bool {
			bo, ok := v.(*ssa.BinOp)
			return ok && bo.Op == token.NEQ && isNilConst(bo.Y) && sources(bo.X)["call:Do"]
		}) {
			continue
		}
		for i, p := range q.Block().Preds {
			if p == b {
				qs := queuesFrom(q.Edges[i], 0)
				if qs["nackQueue"] && len(qs) == 1 {
					okTransport = true
				} else {
					okTransport = false
				}
			}
		}
	}
	// the outcome is always reported: once the request was sent, every way out of the goroutine passes the queue send
	var qsend ssa.Instruction
	for _, b := range body.Blocks {
		for _, in := range b.Instrs {
			if sel, ok := in.(*ssa.Select); ok {
				for _, st := range sel.States {
					if st.Dir == 1 && st.Chan == ssa.Value(q) {
						qsend = in
					}
				}
			}
		}
	}
	okReported := qsend != nil
	if okReported {
		for _, ret := range returnsOf(body) {
			// the synthetic recover block (functions with defers) is not a normal way out
			if len(ret.Block().Preds) == 0 && ret.Block() != body.Blocks[0] {
				continue
			}
			if !instrDominates(qsend, ret) {
				okReported = false
			}
		}
	}
	r.Check("C19.1", "C19.1:outcome-always-reported", body.Pos(), okReported, "every push ends with an ack or a nack on a queue",
		"the pushing goroutine can end without reporting the push on any queue (e.g. an early return for some transport errors): the message is neither acknowledged nor nacked, so it is not pushed again after the backoff and occupies a window slot for good")
	// the default of the status switch: false successor of the last status comparison
	okDefault := false
	isStatusCmp := func(b *ssa.BasicBlock) bool {
		if len(b.Instrs) == 0 {
			return false
		}
		iff, ok := b.Instrs[len(b.Instrs)-1].(*ssa.If)
		if !ok {
			return false
		}
		bo, ok := iff.Cond.(*ssa.BinOp)
		return ok && sources(bo.X)["field:StatusCode"]
	}
	for _, b := range body.Blocks {
		if !isStatusCmp(b) || isStatusCmp(b.Succs[1]) {
			continue
		}
		d := b.Succs[1]
		qs := map[string]bool{}
		region := reachableFrom([]*ssa.BasicBlock{d}, map[*ssa.BasicBlock]bool{q.Block(): true})
		for i, p := range q.Block().Preds {
			if region[p] {
				for k := range queuesFrom(q.Edges[i], 0) {
					qs[k] = true
				}
			}
		}
		okDefault = qs["nackQueue"] && len(qs) == 1
	}
	okErr = okErr && okDefault
	r.Check("C19.1", "C19.1:failures-nack", body.Pos(), okErr && okTransport, "transport errors and every other status go to the nack queue", "a transport error or a non-success status does not lead to the nack queue: the message would be acknowledged")
}

// c19ByProvenance: C19.1 decided from the alternatives (K9b) of the channel the push outcome is sent on.
func c19ByProvenance(c *Ctx, r *Rep, body *ssa.Function) {
	var sel *ssa.Select
	var ch ssa.Value
	for _, b := range body.Blocks {
		for _, in := range b.Instrs {
			if s2, ok := in.(*ssa.Select); ok {
				for _, st := range s2.States {
					if st.Dir == types.SendOnly && st.Send != nil && sources(st.Send)["field:ID"] {
						sel, ch = s2, st.Chan
					}
				}
			}
		}
	}
	if sel == nil {
		r.Fail("C19.1", "C19.1:shape", body.Pos(), "the pushing goroutine does not report its outcome on a queue")
		return
	}
	alts, ok := provenanceOf(c, body, sel, ch)
	if !ok || len(alts) == 0 {
		r.Undecided("C19.1", "C19.1:shape", sel.Pos(), "the queue on which the push outcome is reported could not be traced to the ack / nack queues")
		return
	}
	success := map[int64]bool{}
	nonEq, ackWithoutCode, unknownQueue := false, false, false
	okTransport, sawTransport := true, false
	okDefault, sawDefault := true, false
	for _, a := range alts {
		qn := queueOf(a.leaf)
		if qn == "" {
			unknownQueue = true
			continue
		}
		isAck := qn == "fastAckQueue" || qn == "slowAckQueue"
		var eq []int64
		transport := false
		for _, cd := range a.conds {
			bo, isB := cd.V.(*ssa.BinOp)
			if !isB {
				continue
			}
			if sources(bo.X)["field:StatusCode"] {
				if kc, isC := constInt(bo.Y); isC && bo.Op == token.EQL {
					if cd.Pol {
						eq = append(eq, kc)
					}
				} else {
					nonEq = true
				}
			}
			if isNilConst(bo.Y) && (bo.Op == token.NEQ) == cd.Pol {
				// the error result of the round trip itself
				x := resolve(bo.X)
				if prm, isP := x.(*ssa.Parameter); isP {
					if a := uniqueCallerArg(prm); a != nil {
						x = resolve(a)
					}
				}
				if ex, isE := x.(*ssa.Extract); isE && ex.Index == 1 {
					if dc, isC := ex.Tuple.(*ssa.Call); isC && dc.Call.StaticCallee() != nil && dc.Call.StaticCallee().Name() == "Do" {
						transport = true
					}
				}
			}
		}
		if os.Getenv("MB_DEBUG_PROV") != "" {
			fmt.Fprintf(os.Stderr, "ALT queue=%s eq=%v transport=%v nconds=%d\n", qn, eq, transport, len(a.conds))
		}
		switch {
		case transport:
			sawTransport = true
			if isAck {
				okTransport = false
			}
		case len(eq) == 0:
			sawDefault = true
			if isAck {
				okDefault, ackWithoutCode = false, true
			}
		default:
			if isAck {
				for _, k := range eq {
					success[k] = true
				}
			}
		}
	}
	if unknownQueue {
		r.Undecided("C19.1", "C19.1:shape", sel.Pos(), "one of the values the outcome queue can have is not one of the connection's ack / nack queues")
		return
	}
	want := []int64{102, 200, 201, 202, 204}
	var got []int64
	for k := range success {
		got = append(got, k)
	}
	sort.Slice(got, func(i, j int) bool { return got[i] < got[j] })
	okS := !nonEq && !ackWithoutCode && len(got) == len(want)
	for i := range want {
		if i >= len(got) || got[i] != want[i] {
			okS = false
		}
	}
	r.Check("C19.1", "C19.1:success-set", body.Pos(), okS, "acknowledged exactly for 102, 200, 201, 202, 204",
		fmt.Sprintf("the set of HTTP statuses that acknowledge a pushed message is %v (range comparisons: %v, ack without a status test: %v), not exactly {102,200,201,202,204}: another final status would ack the message and it is never pushed again", got, nonEq, ackWithoutCode))
	okReported := true
	for _, ret := range returnsOf(body) {
		if len(ret.Block().Preds) == 0 && ret.Block() != body.Blocks[0] {
			continue
		}
		if !instrDominates(sel, ret) {
			okReported = false
		}
	}
	r.Check("C19.1", "C19.1:outcome-always-reported", body.Pos(), okReported, "every push ends with an ack or a nack on a queue",
		"the pushing goroutine can end without reporting the push on any queue (e.g. an early return for some transport errors): the message is neither acknowledged nor nacked, so it is not pushed again after the backoff and occupies a window slot for good")
	r.Check("C19.1", "C19.1:failures-nack", body.Pos(), okTransport && sawTransport && okDefault && sawDefault, "transport errors and every other status go to the nack queue", "a transport error or a non-success status does not lead to the nack queue: the message would be acknowledged")
}

func ruleC19_2(c *Ctx, r *Rep) {
	send := r.Anchor("C19.2", fnPushSend)
	if send == nil {
		return
	}
	pr := fieldStores(send, modPath+"/actions", "PushRequest")
	checkDeps(c, r, "C19.2", "Send", send, pr, []depSpec{
		{"Subscription", []string{"field:subscriptionName"}, contentForbid()},
		{"DeliveryAttempt", []string{"field:NumAttempts"}, contentForbid()},
	})
	// the message struct lives inside PushRequest.Message
	pm := map[string][]*ssa.Store{}
	var sendBlocks []*ssa.BasicBlock
	for _, f := range c.opFuncs(send) {
		sendBlocks = append(sendBlocks, f.Blocks...)
	}
	for _, b := range sendBlocks {
		for _, in := range b.Instrs {
			st, ok := in.(*ssa.Store)
			if !ok {
				continue
			}
			fa, ok := st.Addr.(*ssa.FieldAddr)
			if !ok {
				continue
			}
			if n := namedOf(fa.X.Type()); n != nil && n.Obj().Name() == "PubsubMessage" {
				f := fieldName(fa.X.Type(), fa.Field)
				pm[f] = append(pm[f], st)
			}
		}
	}
	checkDeps(c, r, "C19.2", "Send", send, pm, []depSpec{
		{"Data", []string{"field:Payload"}, contentForbid("field:Payload", "field:Data")},
		{"Attributes", []string{"field:Attributes"}, contentForbid("field:Attributes")},
		{"MessageId", []string{"field:MessageID"}, []string{"field:ID", "field:Payload"}},
		{"OrderingKey", []string{"field:OrderKey"}, contentForbid("field:OrderKey", "field:OrderingKey")},
		{"PublishTime", []string{"field:PublishedAt"}, contentForbid()},
	})
	for _, s := range pm["Data"] {
		r.Check("C19.2", "C19.2:Data-base64", s.Pos(), sources(s.Val)["call:EncodeToString"], "", "the payload is not base64-encoded in the envelope")
	}
	// what the pusher is handed: the publish time of the MESSAGE (the delivery row's own published_at is the time the
	// delivery was created, which for a dead-letter forward is the forwarding time)
	if fn := r.Anchor("C19.2", fnPullApply); fn != nil {
		st := fieldStores(fn, modPath+"/actions", "SubscriptionMessageDelivery")["PublishedAt"]
		ok := len(st) > 0
		for _, s := range st {
			src := sources(s.Val)
			if !(src["field:Message"] && src["field:PublishedAt"]) {
				ok = false
			}
		}
		r.Check("C19.2", "C19.2:PublishedAt←Message.PublishedAt@applyResults", fn.Pos(), ok, "publish time of the message row", "the publish time handed to the pusher is not the message's published_at (the delivery's copy differs for dead-letter forwards): the envelope's publishTime is not faithful")
	}
}

func ruleC19_3(c *Ctx, r *Rep) {
	recv := r.Anchor("C19.3", fnPushRecv)
	if recv == nil {
		return
	}
	ai := newAI(c)
	entry := &aiState{vals: map[ssa.Value]*AV{}, mem: map[string]*AV{}}
	recvP := recv.Params[0]
	entry.vals[recvP] = &AV{K: 'p', Nil: tNo}
	loc := "P:" + recv.Name() + "." + recvP.Name() + ".maxMessages"
	entry.mem[loc] = &AV{K: 'i', Lo: 1, Hi: 1000}
	nst, ok := 0, true
	worst := ""
	// private helpers that adjust the window are analysed with the caller's abstract state
	ai.Inline = func(cal *ssa.Function, call *ssa.Call, args []*AV) bool { return true }
	ai.OnStore = func(f *ssa.Function, st *ssa.Store, l string, v *AV, s *aiState) {
		if !strings.HasSuffix(l, ".maxMessages") {
			return
		}
		if fa, isFA := st.Addr.(*ssa.FieldAddr); !isFA || !typeIs(fa.X.Type(), modPath+"/actions", "httpPushStreamConn") {
			return
		}
		nst++
		if v == nil || v.K != 'i' || v.LoInf || v.HiInf || v.Lo < 1 || v.Hi > 1000 {
			ok = false
			worst = v.String()
		}
	}
	ai.Run(recv, entry)
	r.Check("C19.3", "C19.3:window-in-[1,1000]", recv.Pos(), ok && nst >= 3, "inductive: assuming maxMessages ∈ [1,1000] on entry, every store keeps it in [1,1000]",
		"the adaptive push window can leave [1,1000] (a stored value can be "+worst+"): a window of 0 stalls the pusher for good, an unbounded one floods the endpoint")
	// initial value
	if nc := c.Fn("actions.newHttpPushConn"); nc != nil {
		st := fieldStores(nc, modPath+"/actions", "httpPushStreamConn")
		okI := len(st["maxMessages"]) == 1
		for _, s := range st["maxMessages"] {
			if v, isC := constInt(s.Val); !isC || v < 1 || v > 1000 {
				okI = false
			}
		}
		r.Check("C19.3", "C19.3:initial-window", nc.Pos(), okI, "", "the initial push window is not a constant in [1,1000]")
	}
}

func ruleC19_4(c *Ctx, r *Rep) {
	n := 0
	for _, f := range c.Funcs {
		if c.PkgOf(f) != "actions" || f.Name() == "newHttpPushConn" {
			continue
		}
		for _, fld := range []string{"maxMessages", "maxBytes", "failing", "lastFail"} {
			acc := fieldAccesses(f, modPath+"/actions", "httpPushStreamConn", fld)
			if len(acc) == 0 {
				continue
			}
			li := lockSets(f)
			for i, a := range acc {
				n++
				if c.Key(f) == "(*actions.HttpPushStreamer).CurrentFlowControl" {
					r.OK("C19.4", fmt.Sprintf("C19.4:%s#%d@%s", fld, i+1, c.Key(f)), a.instr.Pos(), "named exception: test-only reader")
					continue
				}
				held := li.heldAt(a.instr)
				r.Check("C19.4", fmt.Sprintf("C19.4:%s#%d@%s", fld, i+1, c.Key(f)), a.instr.Pos(), held["f:httpPushStreamConn.mu"], "under c.mu",
					"push window state ("+fld+") is accessed in "+c.Key(f)+" without c.mu")
			}
		}
	}
	r.Floor("C19.4", n, 9)
}

func ruleC19_5(c *Ctx, r *Rep) {
	recv := r.Anchor("C19.5", fnPushRecv)
	if recv == nil {
		return
	}
	// which queue does a received id come from
	idQueue := func(v ssa.Value) string {
		ex, ok := resolve(v).(*ssa.Extract)
		if !ok {
			return ""
		}
		sel, ok := ex.Tuple.(*ssa.Select)
		if !ok {
			return ""
		}
		ri := 0
		for _, st := range sel.States {
			if st.Dir == 2 { // RecvOnly
				if ex.Index == 2+ri {
					return queueOf(st.Chan)
				}
				ri++
			}
		}
		return ""
	}
	st := fieldStores(recv, modPath+"/actions", "MessageStreamRequest")
	es := c.EntShape()
	n := 0
	for _, fld := range []string{"Ack", "Nack"} {
		for _, s := range st[fld] {
			for _, el := range es.sliceElems(s.Val, &frame{bind: map[*ssa.Parameter]ssa.Value{}}, 0) {
				if _, unk := el.v.(unknownSlice); unk {
					continue
				}
				n++
				qn := idQueue(el.v)
				ok := (fld == "Ack" && (qn == "fastAckQueue" || qn == "slowAckQueue")) || (fld == "Nack" && qn == "nackQueue")
				r.Check("C19.5", fmt.Sprintf("C19.5:%s←%s#%d", fld, qn, n), s.Pos(), ok, "", "an id taken from "+qn+" is reported to the streamer as "+fld+": a failed push would be acknowledged (or a successful one retried)")
			}
		}
	}
	// drainIds(&ret.X, queue)
	for _, ci := range callsIn(recv, false, func(cal *ssa.Function, _ ssa.CallInstruction) bool { return cal.Name() == "drainIds" }) {
		a := ci.Common().Args
		fld := ""
		if fa, ok := a[0].(*ssa.FieldAddr); ok {
			fld = fieldName(fa.X.Type(), fa.Field)
		}
		qn := queueOf(a[1])
		n++
		ok := (fld == "Ack" && (qn == "fastAckQueue" || qn == "slowAckQueue")) || (fld == "Nack" && qn == "nackQueue")
		r.Check("C19.5", fmt.Sprintf("C19.5:drain:%s←%s", fld, qn), ci.Pos(), ok, "", "ids drained from "+qn+" are reported as "+fld)
	}
	r.Floor("C19.5", n, 4)
}

func loopExitDominates(l *loop, b *ssa.BasicBlock) bool { return dominates(l.Header, b) }

// valueClosure: the values the given ones are computed from, inside their function (operands, transitively).
func valueClosure(vs []ssa.Value) map[ssa.Value]bool {
	seen := map[ssa.Value]bool{}
	var walk func(v ssa.Value)
	walk = func(v ssa.Value) {
		if v == nil || seen[v] || len(seen) > 4000 {
			return
		}
		seen[v] = true
		if in, ok := v.(ssa.Instruction); ok {
			for _, o := range in.Operands(nil) {
				if *o != nil {
					walk(*o)
				}
			}
		}
	}
	for _, v := range vs {
		walk(v)
	}
	return seen
}

// takesMutex: fn (or an unexported helper it calls directly) locks a mutex whose key ends in suffix.
func takesMutex(fn *ssa.Function, suffix string) bool {
	for _, b := range fn.Blocks {
		for _, in := range b.Instrs {
			if ci, ok := in.(ssa.CallInstruction); ok {
				if key, op, isL := lockOp(ci); isL && (op == "Lock" || op == "RLock") && strings.HasSuffix(key, suffix) {
					return true
				}
			}
		}
	}
	return false
}

func isLenCall(v ssa.Value) bool {
	call, ok := v.(*ssa.Call)
	if !ok {
		return false
	}
	bi, ok := call.Call.Value.(*ssa.Builtin)
	return ok && bi.Name() == "len"
}

// isCountOfCopy: the Count field of a by-value copy of a description (`dd := d.copyWith(…); dd.Count > 0`).
func isCountOfCopy(v ssa.Value) bool {
	switch x := strip(v).(type) {
	case *ssa.Field:
		if st, ok := x.X.Type().Underlying().(*types.Struct); ok && x.Field < st.NumFields() {
			return st.Field(x.Field).Name() == "Count" && typeIs(x.X.Type(), faultsPkg, "Description")
		}
	case *ssa.UnOp:
		if fa, ok := x.X.(*ssa.FieldAddr); ok && x.Op == token.MUL {
			return fieldName(fa.X.Type(), fa.Field) == "Count" && typeIs(fa.X.Type(), faultsPkg, "Description")
		}
	}
	return false
}

// ---------------------------------------------------------------------------
// C18.9: every description registered for an operation is considered. The lookup loop of (*Set).match leaves early
// only by returning the description that matched; it never `break`s (or returns nothing) after a description that
// did not match — a later description whose parameters do match would never fire and stay listed forever.
func ruleC18_9(c *Ctx, r *Rep) {
	fn := r.Anchor("C18.9", "(*faults.Set).match")
	if fn == nil {
		return
	}
	n := 0
	for _, l := range loopsOf(fn) {
		n++
		var after *ssa.BasicBlock
		for _, e := range l.exitEdges() {
			if e[0] == l.Header {
				after = e[1]
			}
		}
		ok, why := true, ""
		for _, e := range l.exitEdges() {
			if e[0] == l.Header {
				continue
			}
			// an exit from inside the body: must be the matched branch returning the description
			matched := condHas(edgeConds(e[1]), true, func(v ssa.Value) bool {
				cl, isC := v.(*ssa.Call)
				return isC && cl.Call.StaticCallee() != nil && cl.Call.StaticCallee().Name() == "match"
			})
			_, isRet := e[1].Instrs[len(e[1].Instrs)-1].(*ssa.Return)
			if e[1] == after || !matched || !isRet {
				ok = false
				why = "the loop is left from " + c.Pos(e[0].Instrs[len(e[0].Instrs)-1].Pos()) + " without a description having matched"
			}
		}
		r.Check("C18.9", "C18.9:lookup-considers-every-description#"+loopOrdinal(fn, l), l.Header.Instrs[len(l.Header.Instrs)-1].Pos(), ok, "", why+": only the first description of an operation is ever considered — a later one whose parameters match never fires and stays listed")
	}
	if n == 0 {
		r.Fail("C18.9", "C18.9:lookup-considers-every-description", fn.Pos(), "(*Set).match has no loop that goes on to a second description (its body leaves on the first iteration whether or not the description matched): only the first description of an operation is ever considered — a later one whose parameters match never fires and stays listed")
	}
	r.Floor("C18.9", n, 1)
}

// ---------------------------------------------------------------------------
// C19.6: a pusher that has ended is forgotten. The push service starts a pusher for a push subscription only when its
// id is absent from the `pushers` map, so an entry whose pusher is done must be removed: the harvest loop ranges over
// the map and, in the branch selected by the monitor's Done channel, deletes the entry under the loop's own key.
// Without it, a subscription whose pusher ended (push disabled, endpoint error) is never pushed to again.
func ruleC19_6(c *Ctx, r *Rep) {
	fn := r.Anchor("C19.6", "(*services.httpPusher).startPushersOnce")
	if fn == nil {
		return
	}
	isPushers := func(v ssa.Value) bool {
		ld, ok := strip(v).(*ssa.UnOp)
		if !ok || ld.Op != token.MUL {
			return false
		}
		fa, ok := ld.X.(*ssa.FieldAddr)
		return ok && fieldName(fa.X.Type(), fa.Field) == "pushers"
	}
	nStart, nDel := 0, 0
	// (the harvest may live in a helper method of the service: every hand-written function of the package is scanned)
	for _, f := range c.Funcs {
		if c.PkgOf(f) != "services" || c.testSupport(f) {
			continue
		}
		for _, b := range f.Blocks {
			for _, in := range b.Instrs {
				if mu, ok := in.(*ssa.MapUpdate); ok && isPushers(mu.Map) {
					nStart++
				}
				call, ok := in.(*ssa.Call)
				if !ok {
					continue
				}
				bi, isB := call.Call.Value.(*ssa.Builtin)
				if !isB || bi.Name() != "delete" || len(call.Call.Args) != 2 || !isPushers(call.Call.Args[0]) {
					continue
				}
				// (the forgetting may be a private helper's job, `s.forget(subID)`: the key and the branch are then
				// those of the helper's single call site)
				keyV, condBlock := strip(call.Call.Args[1]), b
				if p, isP := keyV.(*ssa.Parameter); isP {
					if a := uniqueCallerArg(p); a != nil {
						keyV = strip(a)
						for _, ci := range c.callersOf(p.Parent()) {
							if !c.FnInControl(ci.Parent()) {
								condBlock = ci.Block()
							}
						}
					}
				}
				// key = the range key of a loop over the same map
				ownKey := false
				if ex, isE := keyV.(*ssa.Extract); isE && ex.Index == 1 {
					if nx, isN := ex.Tuple.(*ssa.Next); isN {
						if rg, isR := nx.Iter.(*ssa.Range); isR && isPushers(rg.X) {
							ownKey = true
						}
					}
				}
				// in the branch taken when the monitor's Done channel is ready
				onDone := false
				for _, cd := range edgeConds(condBlock) {
					if bo, isBo := cd.V.(*ssa.BinOp); isBo && cd.Pol && bo.Op == token.EQL {
						if ex, isE := bo.X.(*ssa.Extract); isE {
							if sel, isS := ex.Tuple.(*ssa.Select); isS && ex.Index == 0 {
								if k, isK := constInt(bo.Y); isK && int(k) < len(sel.States) && sources(sel.States[k].Chan)["call:Done"] {
									onDone = true
								}
							}
						}
					}
				}
				if ownKey && onDone {
					nDel++
				}
			}
		}
	}
	r.Check("C19.6", "C19.6:ended-pusher-forgotten", fn.Pos(), nDel >= 1, fmt.Sprintf("%d start site(s) guarded by absence, %d harvest delete(s)", nStart, nDel),
		"the harvest loop no longer deletes the entry of a pusher whose monitor is done (delete(s.pushers, <range key>) under the Done case): the id stays in the map, so a subscription whose pusher ended — push disabled and enabled again, or an endpoint error — never gets a new pusher and nothing is POSTed to it")
	r.Floor("C19.6", nStart, 1)
}

package main

import (
	"fmt"
	"go/token"
	"go/types"
	"sort"
	"strings"

	"golang.org/x/tools/go/ssa"
)

// ---------------------------------------------------------------------------
// C12 resource names

func ruleC12_1(c *Ctx, r *Rep) {
	keys := c.stmtKeys()
	n := 0
	for _, s := range c.EntShape().All() {
		if (s.Table != "topics" && s.Table != "subscriptions") || s.Kind == "create" || s.Kind == "bulk" {
			continue
		}
		names := s.Find("", "name", "eq", "in", "hasprefix")
		if len(names) == 0 {
			continue
		}
		n++
		k := keys[s]
		if k == "" {
			k = "nested@" + c.Owner(s)
		}
		live := s.Find("", "deleted_at", "isnull")
		ok := len(live) > 0 && s.Unconditional(live[0])
		if !ok && len(live) > 0 {
			// both atoms under the same conditions is fine too
			ok = sameConds(live[0].Conds, names[0].Conds)
		}
		r.Check("C12.1", "C12.1:"+k, s.Pos, ok, "name resolution restricted to live rows", "a "+s.Table+" row is looked up by name without `deleted_at IS NULL`: a deleted resource still resolves (Get succeeds / publish or pull reach a deleted resource / the name is not reusable)")
	}
	r.Floor("C12.1", n, 18)
}

func sameConds(a, b []Cond) bool {
	if len(a) != len(b) {
		return false
	}
	for _, x := range a {
		f := false
		for _, y := range b {
			if x.V == y.V && x.Pol == y.Pol {
				f = true
			}
		}
		if !f {
			return false
		}
	}
	return true
}

func ruleC12_2(c *Ctx, r *Rep) {
	for _, sp := range []struct{ fn, table string }{{fnCreateTop, "topics"}, {fnCreateSub, "subscriptions"}} {
		fn := r.Anchor("C12.2", sp.fn)
		if fn == nil {
			continue
		}
		var ex *Stmt
		for _, s := range c.findStmts(sp.fn, sp.table, "select") {
			for _, t := range s.Terms {
				if t.Name == "Exist" {
					ex = s
				}
			}
		}
		ok := false
		if ex != nil {
			miss, extra, m := c.matchAtoms(ex.Where, []ap{{col: "name", ops: []string{"eq"}}, {col: "deleted_at", ops: []string{"isnull"}}}, nil)
			ok = len(miss) == 0 && len(extra) == 0 && strings.HasSuffix(valKey(m[(ap{col: "name", ops: []string{"eq"}}).String()].Arg), "params.Name")
		}
		// `exists` true -> return ErrExists
		okRet := false
		if ok {
			for _, ret := range returnsOf(fn) {
				if isGlobalLoad(retLast(ret), "ErrExists") {
					if condHas(edgeConds(ret.Block()), true, func(v ssa.Value) bool { return dependsOnCall(v, ex.Terms[0].Call) }) {
						okRet = true
					}
				}
			}
		}
		pos := fn.Pos()
		if ex != nil {
			pos = ex.Pos
		}
		r.Check("C12.2", "C12.2:exists-check@"+sp.fn, pos, ok && okRet, "live row with the same name → ErrExists", "create does not check for a live row of the same name (name =, deleted_at IS NULL → ErrExists)")
		// duplicate-key on save -> ErrExists
		okDup := false
		for _, ret := range effReturns(c, fn, 0) {
			if isGlobalLoad(retLast(ret), "ErrExists") {
				if condHas(edgeConds(ret.Block()), true, func(v ssa.Value) bool { return sources(v)["call:isSqlDuplicateKeyError"] }) {
					okDup = true
				}
			}
		}
		r.Check("C12.2", "C12.2:duplicate-key@"+sp.fn, fn.Pos(), okDup, "unique violation on save → ErrExists", "a unique-key violation on save (two creates racing) is not mapped to ErrExists: the loser gets Unknown instead of AlreadyExists")
		// ... and nothing classifies the save error before that test in a way a unique violation can satisfy
		for _, ret := range effReturns(c, fn, 0) {
			if !isGlobalLoad(retLast(ret), "ErrExists") {
				continue
			}
			conds := edgeConds(ret.Block())
			var errV ssa.Value
			for _, cd := range conds {
				if call, isCall := strip(cd.V).(*ssa.Call); isCall && cd.Pol && call.Call.StaticCallee() != nil && call.Call.StaticCallee().Name() == "isSqlDuplicateKeyError" && len(call.Call.Args) == 1 {
					errV = resolve(call.Call.Args[0])
				}
			}
			if errV == nil {
				continue
			}
			for _, cd := range conds {
				call, isCall := strip(cd.V).(*ssa.Call)
				if !isCall || call.Call.StaticCallee() == nil {
					continue
				}
				cal := call.Call.StaticCallee()
				if cal.Name() == "isSqlDuplicateKeyError" {
					continue
				}
				onErr := false
				for _, a := range call.Call.Args {
					if resolve(a) == errV {
						onErr = true
					}
				}
				if !onErr {
					continue
				}
				disjoint := in(cal.Name(), "IsNotFound", "IsNotSingular", "IsNotLoaded", "IsValidationError") || (fnPkgPath(cal) == "errors" && cal.Name() == "Is")
				r.Check("C12.2", "C12.2:duplicate-key-first:"+cal.Name()+"@"+sp.fn, call.Pos(), disjoint, "", "the save error is classified by "+cal.Name()+" before the duplicate-key test: a unique violation (which is a constraint error) is answered by that branch and never reaches ErrExists, so the loser of a create race gets the wrong status")
			}
		}
		// the created row is live
		for _, s := range c.findStmts(sp.fn, sp.table, "create") {
			lv := s.Mut("live", "set")
			okLive := len(lv) == 1
			if okLive {
				if cst, isC := lv[0].Arg.(*ssa.Const); !isC || cst.Value == nil || cst.Value.String() != "true" {
					okLive = false
				}
			}
			// subscriptions get live from the schema default; accept either explicit true or no write at all
			if len(lv) == 0 {
				okLive = true
			}
			r.Check("C12.2", "C12.2:created-live@"+sp.fn, s.Pos, okLive && len(s.Mut("deleted_at")) == 0, "", "a created row is not live")
		}
	}
	// handlers map ErrExists to AlreadyExists
	for _, h := range []string{"(*services.publisherServer).CreateTopic", "(*services.subscriberServer).CreateSubscription", "(*services.subscriberServer).CreateSnapshot"} {
		fn := r.Anchor("C12.2", h)
		if fn == nil {
			continue
		}
		ok := false
		for _, ci := range c.callsInOp(fn, func(cal *ssa.Function, _ ssa.CallInstruction) bool {
			return strings.HasSuffix(fnPkgPath(cal), "grpc/status") && (cal.Name() == "Error" || cal.Name() == "Errorf")
		}) {
			if code, isC := constInt(ci.Common().Args[0]); isC && code == 6 { // codes.AlreadyExists
				if condHas(edgeConds(ci.Block()), true, func(v ssa.Value) bool {
					src := sources(v)
					return src["call:Is"] && src["global:ErrExists"]
				}) {
					ok = true
				}
			}
		}
		r.Check("C12.2", "C12.2:AlreadyExists@"+h, fn.Pos(), ok, "errors.Is(err, ErrExists) → codes.AlreadyExists", "the handler does not answer AlreadyExists for actions.ErrExists")
	}
}

func isGlobalLoad(v ssa.Value, name string) bool {
	u, ok := v.(*ssa.UnOp)
	if !ok || u.Op != token.MUL {
		return false
	}
	g, ok := u.X.(*ssa.Global)
	return ok && g.Name() == name
}

func ruleC12_3(c *Ctx, r *Rep) {
	keys := c.stmtKeys()
	n := 0
	for _, s := range c.EntShape().Stmts {
		if s.Table != "topics" && s.Table != "subscriptions" {
			continue
		}
		if s.Kind == "delete" {
			n++
			r.Check("C12.3", "C12.3:"+keys[s], s.Pos, c.ownedBy(s, fnPruneDS, fnPruneDT), "hard delete only by the prune jobs", s.Table+" rows are hard-deleted by "+c.Owner(s)+" (only the prune jobs may, after the soft delete aged)")
		}
		if s.Kind != "update" {
			continue
		}
		d := s.Mut("deleted_at")
		l := s.Mut("live")
		if len(d) == 0 && len(l) == 0 {
			continue
		}
		n++
		ok := true
		msg := ""
		for _, m := range d {
			if m.Op != "set" {
				ok, msg = false, "clears deleted_at: a deleted "+s.Table+" row comes back to life (re-creation must be a Create)"
			}
		}
		for _, m := range l {
			if m.Op != "clear" {
				ok, msg = false, "sets `live` on an existing row"
			}
		}
		if ok && (len(d) == 0) != (len(l) == 0) {
			ok, msg = false, "soft delete must set deleted_at and clear live together (the unique (name, live) index keeps the name reserved otherwise, or a live row carries deleted_at)"
		}
		if ok && !c.ownedBy(s, fnDelSub, fnDelTopic, fnExpireSubs) {
			ok, msg = false, "soft delete by "+c.Owner(s)
		}
		r.Check("C12.3", "C12.3:"+keys[s], s.Pos, ok, "soft delete = {deleted_at:set, live:clear}", msg)
	}
	r.Floor("C12.3", n, 3)
}

func ruleC12_4(c *Ctx, r *Rep) {
	_, idx, ok := c.entSchema()
	if !ok {
		r.Fail("C12.4", "C12.4:ent-schema", token.NoPos, "ent/migrate/schema.go tables not found")
		return
	}
	want := []struct {
		tbl  string
		cols []string
	}{{"topics", []string{"name", "live"}}, {"subscriptions", []string{"name", "live"}}, {"snapshots", []string{"name"}}}
	_, uq, nfiles := c.sqlSchema()
	for _, w := range want {
		found := false
		var pos token.Pos
		for _, i := range idx {
			if i.Table == w.tbl && i.Unique && sameSet(i.Columns, w.cols) {
				found, pos = true, i.Pos
			}
		}
		// snapshots.name may be a unique column instead of an index
		if !found && len(w.cols) == 1 {
			found = c.entUniqueColumn(w.tbl, w.cols[0])
		}
		r.Check("C12.4", "C12.4:ent:unique("+w.tbl+"."+strings.Join(w.cols, ",")+")", pos, found, "", "the ent schema has no unique index on "+w.tbl+"("+strings.Join(w.cols, ", ")+"): two live resources can share a name")
		if nfiles > 0 {
			f := false
			for _, u := range uq {
				if u.Table == w.tbl && sameSet(u.Columns, w.cols) {
					f = true
				}
			}
			r.Check("C12.4", "C12.4:sql:unique("+w.tbl+"."+strings.Join(w.cols, ",")+")", token.NoPos, f, "", "the SQL migrations define no unique constraint on "+w.tbl+"("+strings.Join(w.cols, ", ")+")")
		}
	}
}

func sameSet(a, b []string) bool {
	if len(a) != len(b) {
		return false
	}
	x := append([]string{}, a...)
	y := append([]string{}, b...)
	sort.Strings(x)
	sort.Strings(y)
	for i := range x {
		if x[i] != y[i] {
			return false
		}
	}
	return true
}

// entUniqueColumn: {Name: "name", ..., Unique: true} in the generated columns.
func (c *Ctx) entUniqueColumn(table, col string) bool {
	p := c.PkgByPath[entPkg+"/migrate"]
	if p == nil {
		return false
	}
	src := ""
	for _, f := range p.Syntax {
		_ = f
	}
	_ = src
	// textual fallback is avoided: look the column literal up in the AST
	found := false
	for _, f := range p.Syntax {
		astInspectCompositeLits(f, func(name string, fields map[string]string) {
			if fields["Name"] == col && fields["Unique"] == "true" && strings.EqualFold(strings.TrimSuffix(name, "Columns"), table) {
				found = true
			}
		})
	}
	return found
}

// ---------------------------------------------------------------------------
// C12.5 / C12.6 List siblings

type listSpec struct {
	handler   string
	table     string
	validator string // name validator of the entity
	kind      string // expected kind segment, read from the validator
}

var listSpecs = []listSpec{
	{"(*services.publisherServer).ListTopics", "topics", "services.isValidTopicName", ""},
	{"(*services.subscriberServer).ListSubscriptions", "subscriptions", "services.isValidSubscriptionName", ""},
	{"(*services.subscriberServer).ListSnapshots", "snapshots", "services.isValidSnapshotName", ""},
}

// strEval: partial evaluation of a string-valued SSA value under parameter bindings; unknown parts are "\x00".
// Follows constants, concatenation, bound parameters and module helpers that return one string.
func strEval(v ssa.Value, env map[*ssa.Parameter]ssa.Value, depth int) string {
	if v == nil || depth > 8 {
		return "\x00"
	}
	v = resolve(v)
	switch x := v.(type) {
	case *ssa.Const:
		if s, ok := constString(x); ok {
			return s
		}
	case *ssa.Parameter:
		if b, ok := env[x]; ok {
			return strEval(b, env, depth+1)
		}
	case *ssa.BinOp:
		if x.Op == token.ADD {
			return strEval(x.X, env, depth+1) + strEval(x.Y, env, depth+1)
		}
	case *ssa.Call:
		cal := x.Call.StaticCallee()
		if cal != nil && lastCtx != nil && lastCtx.inModule(cal) && len(cal.Blocks) > 0 && cal.Signature.Results().Len() == 1 {
			ne := map[*ssa.Parameter]ssa.Value{}
			for k, b := range env {
				ne[k] = b
			}
			for i, p := range cal.Params {
				if i < len(x.Call.Args) {
					ne[p] = x.Call.Args[i]
				}
			}
			out, first := "", true
			for _, ret := range returnsOf(cal) {
				r := strEval(retResult(ret, 0), ne, depth+1)
				if first {
					out, first = r, false
				} else if r != out {
					return "\x00"
				}
			}
			if !first {
				return out
			}
		}
	}
	return "\x00"
}

// kindOfValidator: the string constant compared with segments[2] in the name validator (possibly inside a shared
// helper that takes the kind as a parameter).
func kindOfValidator(fn *ssa.Function) string {
	return kindOfValidatorEnv(fn, map[*ssa.Parameter]ssa.Value{}, 0)
}

func kindOfValidatorEnv(fn *ssa.Function, env map[*ssa.Parameter]ssa.Value, depth int) string {
	for _, b := range fn.Blocks {
		for _, in := range b.Instrs {
			bo, ok := in.(*ssa.BinOp)
			if !ok || (bo.Op != token.EQL && bo.Op != token.NEQ) {
				continue
			}
			for _, pair := range [][2]ssa.Value{{bo.X, bo.Y}, {bo.Y, bo.X}} {
				// one side is segments[2]
				u, ok := pair[0].(*ssa.UnOp)
				if !ok {
					continue
				}
				ia, ok := u.X.(*ssa.IndexAddr)
				if !ok {
					continue
				}
				if i, ok := constInt(ia.Index); !ok || i != 2 {
					continue
				}
				s := strEval(pair[1], env, 0)
				if s != "" && !strings.Contains(s, "\x00") && s != "projects" {
					return s
				}
			}
		}
	}
	if depth < 2 && lastCtx != nil {
		for _, ci := range callsIn(fn, false, func(cal *ssa.Function, _ ssa.CallInstruction) bool {
			return lastCtx.inModule(cal) && len(cal.Blocks) > 0
		}) {
			cal := ci.Common().StaticCallee()
			ne := map[*ssa.Parameter]ssa.Value{}
			for k, b := range env {
				ne[k] = b
			}
			for i, p := range cal.Params {
				if i < len(ci.Common().Args) {
					ne[p] = ci.Common().Args[i]
				}
			}
			if s := kindOfValidatorEnv(cal, ne, depth+1); s != "" {
				return s
			}
		}
	}
	return ""
}

// prefixKind: the "/<kind>/" constant a prefix helper appends (the known text after the last unknown part).
func prefixKind(v ssa.Value) (string, bool) {
	s := strEval(v, map[*ssa.Parameter]ssa.Value{}, 0)
	if i := strings.LastIndex(s, "\x00"); i >= 0 {
		s = s[i+1:]
	}
	if strings.HasPrefix(s, "/") && strings.HasSuffix(s, "/") && len(s) > 2 {
		return strings.Trim(s, "/"), true
	}
	return "", false
}

func ruleC12_5_6(c *Ctx, r *Rep) {
	for _, sp := range listSpecs {
		h := r.Anchor("C12.5", sp.handler)
		v := r.Anchor("C12.5", sp.validator)
		if h == nil || v == nil {
			continue
		}
		kind := kindOfValidator(v)
		var sel *Stmt
		for _, s := range c.findStmts(sp.handler, sp.table, "select") {
			sel = s
		}
		if sel == nil || len(sel.Terms) != 1 {
			r.Fail("C12.5", "C12.5:select@"+sp.handler, h.Pos(), "list query not found")
			continue
		}
		pfx := sel.Find("", "name", "hasprefix", "eq", "in")
		okKind := false
		var prefixVal ssa.Value
		if len(pfx) == 1 && sel.Unconditional(pfx[0]) {
			prefixVal = pfx[0].Arg
			if k, ok := prefixKind(prefixVal); ok && k == kind && kind != "" {
				okKind = true
			}
		}
		r.Check("C12.5", "C12.5:prefix-kind@"+sp.handler, sel.Pos, okKind, "list prefix kind = name validator kind ("+kind+")", "the List scoping prefix does not use the kind segment `"+kind+"` that the entity's name validator requires: the listing is empty or lists another kind")
		// live only (topics, subscriptions)
		if sp.table != "snapshots" {
			lv := sel.Find("", "deleted_at", "isnull")
			r.Check("C12.5", "C12.5:live@"+sp.handler, sel.Pos, len(lv) == 1 && sel.Unconditional(lv[0]), "", "List does not exclude deleted rows")
		}
		checkKeyset(c, r, sp.handler, h, sel)
		// C12.6 case-exact scoping
		okExact := false
		if len(pfx) == 1 && (pfx[0].Op == "eq" || pfx[0].Op == "in") {
			okExact = true
		}
		if !okExact && prefixVal != nil {
			okExact = appendGuardedByHasPrefix(h, sel, prefixVal)
		}
		r.Check("C12.6", "C12.6:case-exact@"+sp.handler, sel.Pos, okExact, "every listed row passes strings.HasPrefix(row.Name, prefix) (or the SQL atom is case-exact)",
			"project scoping rests on a LIKE-family atom only, which SQLite evaluates case-insensitively: resources of a project differing by case are listed")
	}
	// ListTopicSubscriptions: keyset over the topic's live subscriptions
	if h := r.Anchor("C12.5", "(*services.publisherServer).ListTopicSubscriptions"); h != nil {
		for _, s := range c.findStmts("(*services.publisherServer).ListTopicSubscriptions", "subscriptions", "select") {
			lv := s.Find("", "deleted_at", "isnull")
			r.Check("C12.5", "C12.5:live@ListTopicSubscriptions", s.Pos, len(lv) == 1 && s.Unconditional(lv[0]) && s.RootKind == "QueryEdge", "", "ListTopicSubscriptions does not list exactly the topic's live subscriptions")
			checkKeyset(c, r, "(*services.publisherServer).ListTopicSubscriptions", h, s)
		}
	}
}

// checkKeyset: ORDER BY id ASC, token atom id > parsed token (only when a token is given), LIMIT pageSize,
// next token = last SCANNED row's id iff a full page was scanned.
func checkKeyset(c *Ctx, r *Rep, hk string, h *ssa.Function, sel *Stmt) {
	okOrder := len(sel.Order) == 1 && sel.Order[0].Col == "id" && !sel.Order[0].Desc
	tok := sel.Find("", "id", "gt")
	okTok := len(tok) == 1 && sources(tok[0].Arg)["field:PageToken"]
	if okTok {
		okTok = condHas(tok[0].Conds, true, func(v ssa.Value) bool { return cmpOn(v, []token.Token{token.NEQ}, "field:PageToken") }) ||
			condHas(tok[0].Conds, true, func(v ssa.Value) bool { return tokenPresentVerdict(c, v) })
	}
	okLimit := sel.HasLimit && sources(sel.Limit)["field:PageSize"]
	r.Check("C12.5", "C12.5:keyset@"+hk, sel.Pos, okOrder && okTok && okLimit, "ORDER BY id ASC, id > token, LIMIT pageSize",
		fmt.Sprintf("keyset pagination inconsistent (order-by-id-asc=%v token-atom=%v limit-from-page-size=%v): pages skip or repeat rows", okOrder, okTok, okLimit))
	// next page token
	term := sel.Terms[0].Call
	okNext := false
	why := "no NextPageToken assignment found"
	var walk func(f *ssa.Function, depth int)
	walk = func(f *ssa.Function, depth int) {
		for _, b := range f.Blocks {
			for _, in := range b.Instrs {
				call, ok := in.(*ssa.Call)
				if !ok {
					continue
				}
				cal := call.Call.StaticCallee()
				// a private helper that computes the token from the scanned rows: same test inside it, with its
				// parameters bound to this call's arguments
				if cal != nil && depth < 2 && c.inModule(cal) && len(cal.Blocks) > 0 && !c.EntShape().isGenerated(cal) && cal.Name() != "String" {
					takesRows := false
					for _, a := range call.Call.Args {
						if isResultOf(a, term) {
							takesRows = true
						}
					}
					if takesRows {
						bind := map[*ssa.Parameter]ssa.Value{}
						for i, p := range cal.Params {
							if i < len(call.Call.Args) {
								bind[p] = call.Call.Args[i]
							}
						}
						withBindMap(bind, func() { walk(cal, depth+1) })
					}
					continue
				}
				if cal == nil || cal.Name() != "String" {
					continue
				}
				recv := call.Call.Args[0]
				isID := sources(recv)["field:ID"]
				if !isID {
					// the id is taken through a function value handed in by the caller: func(row) uuid.UUID { return row.ID }
					if dc, isCall := resolve(recv).(*ssa.Call); isCall && dc.Call.StaticCallee() == nil && !dc.Call.IsInvoke() {
						if f := funcOf(resolve(dc.Call.Value)); f != nil && len(f.Params) >= 1 {
							isID = true
							for _, ret := range returnsOf(f) {
								u, isU := resolve(retResult(ret, 0)).(*ssa.UnOp)
								if !isU {
									isID = false
									continue
								}
								fa, isFA := u.X.(*ssa.FieldAddr)
								if !isFA || fieldName(fa.X.Type(), fa.Field) != "ID" || resolve(fa.X) != ssa.Value(f.Params[len(f.Params)-1]) && len(f.FreeVars) > 0 {
									isID = false
								}
							}
						}
					}
				}
				if !isID {
					continue
				}
				if !dependsOnCall(recv, term) {
					continue
				}
				// is this the token? it must be guarded by len(rows) >= pageSize over the scanned rows
				for _, cd := range edgeConds(b) {
					bo, isB := cd.V.(*ssa.BinOp)
					if !isB {
						continue
					}
					full := (bo.Op == token.GEQ || bo.Op == token.EQL) && cd.Pol || bo.Op == token.LSS && !cd.Pol
					if !full {
						continue
					}
					if l, isL := bo.X.(*ssa.Call); isL {
						if bi, isBi := l.Call.Value.(*ssa.Builtin); isBi && bi.Name() == "len" {
							if isResultOf(l.Call.Args[0], term) && sources(bo.Y)["field:PageSize"] {
								// last scanned row: rows[len(rows)-1]
								if lastElementOf(recv, term) {
									okNext = true
								} else {
									why = "the token is not the id of the last scanned row"
								}
							} else {
								why = "the full-page test does not compare the number of SCANNED rows with the page size (a filtered page looks short and ends the listing early)"
							}
						}
					}
				}
			}
		}
		for _, a := range f.AnonFuncs {
			walk(a, depth)
		}
	}
	walk(h, 0)
	r.Check("C12.5", "C12.5:next-token@"+hk, sel.Pos, okNext, "next token = id of the last scanned row iff a full page was scanned", why)
	// the scanned rows keep the order of the scan (ORDER BY id) until the token is taken: sorting them in place, or
	// writing into the slice, makes rows[len-1] something other than the greatest id scanned, and the next page
	// (id > token) repeats or skips rows
	reordered := token.NoPos
	var scan func(f *ssa.Function)
	scan = func(f *ssa.Function) {
		for _, b := range f.Blocks {
			for _, in := range b.Instrs {
				switch x := in.(type) {
				case *ssa.Call:
					cal := x.Call.StaticCallee()
					if cal == nil {
						continue
					}
					name := cal.Name()
					if o := cal.Origin(); o != nil {
						name = o.Name()
					}
					if pk := fnPkgPath(cal); (pk == "sort" || pk == "slices") && (strings.HasPrefix(name, "Sort") || strings.HasPrefix(name, "Slice") || strings.HasPrefix(name, "Stable") || name == "Reverse") {
						for _, a := range x.Call.Args {
							if isResultOf(strip(a), term) {
								reordered = x.Pos()
							}
						}
					}
				case *ssa.Store:
					if ia, ok := x.Addr.(*ssa.IndexAddr); ok && isResultOf(ia.X, term) {
						reordered = x.Pos()
					}
				}
			}
		}
		for _, a := range f.AnonFuncs {
			scan(a)
		}
	}
	scan(term.Parent())
	r.Check("C12.5", "C12.5:scan-order-kept@"+hk, reordered, !reordered.IsValid(), "the scanned rows are not reordered before the token is taken", "the scanned rows are sorted or overwritten in place before the page token is taken from the last one: the token is no longer the greatest id scanned and the next page repeats or skips rows")
}

// tokenPresentVerdict: v is a boolean result of a private helper that was given the request's page token, and the
// helper returns true for that result only on paths where its token parameter is not the empty string
// (`pageID, ok, err := parsePageToken(req.PageToken)`).
func tokenPresentVerdict(c *Ctx, v ssa.Value) bool {
	ex, ok := v.(*ssa.Extract)
	if !ok {
		return false
	}
	call, ok := ex.Tuple.(*ssa.Call)
	if !ok {
		return false
	}
	h := call.Call.StaticCallee()
	if h == nil || !c.inModule(h) || len(h.Blocks) == 0 {
		return false
	}
	var p *ssa.Parameter
	for i, a := range call.Call.Args {
		if sources(a)["field:PageToken"] && i < len(h.Params) {
			p = h.Params[i]
		}
	}
	if p == nil {
		return false
	}
	n := 0
	for _, ret := range returnsOf(h) {
		if ex.Index >= len(ret.Results) {
			return false
		}
		rv := retResult(ret, ex.Index)
		if k, isK := rv.(*ssa.Const); isK && k.Value != nil && k.Value.String() == "false" {
			continue
		}
		n++
		nonEmpty := false
		for _, cd := range edgeConds(ret.Block()) {
			nc := normCond(cd.V, cd.Pol)
			bo, isB := nc.V.(*ssa.BinOp)
			if !isB {
				continue
			}
			if s, isS := constString(bo.Y); isS && s == "" && resolve(bo.X) == ssa.Value(p) {
				if (bo.Op == token.NEQ) == nc.Pol {
					nonEmpty = true
				}
			}
		}
		if !nonEmpty {
			return false
		}
	}
	return n > 0
}

// isResultOf: v is exactly the (first) result of call.
func isResultOf(v ssa.Value, call *ssa.Call) bool {
	v = resolve(v)
	if ex, ok := v.(*ssa.Extract); ok && ex.Tuple == ssa.Value(call) && ex.Index == 0 {
		return true
	}
	return false
}

// lastElementOf: v reads rows[len(rows)-1] of call's result.
func lastElementOf(v ssa.Value, call *ssa.Call) bool {
	for e := range elementLoads(v) {
		ia := e.(*ssa.IndexAddr)
		if !isResultOf(ia.X, call) {
			continue
		}
		if bo, ok := ia.Index.(*ssa.BinOp); ok && bo.Op == token.SUB {
			if one, ok := constInt(bo.Y); ok && one == 1 {
				if l, ok := bo.X.(*ssa.Call); ok {
					if bi, ok := l.Call.Value.(*ssa.Builtin); ok && bi.Name() == "len" && isResultOf(l.Call.Args[0], call) {
						return true
					}
				}
			}
		}
	}
	return false
}

// appendGuardedByHasPrefix: every append of a response element in the handler's closure that
// derives from the listed rows is dominated by the true edge of strings.HasPrefix(row.Name, prefix).
func appendGuardedByHasPrefix(h *ssa.Function, sel *Stmt, prefix ssa.Value) bool {
	term := sel.Terms[0].Call
	fn := term.Parent()
	found := false
	for _, b := range fn.Blocks {
		for _, in := range b.Instrs {
			var elem ssa.Value
			switch x := in.(type) {
			case *ssa.Call:
				if bi, ok := x.Call.Value.(*ssa.Builtin); ok && bi.Name() == "append" {
					elem = x.Call.Args[1]
				}
			case *ssa.Store:
				if _, ok := x.Addr.(*ssa.IndexAddr); ok {
					elem = x.Val
				}
			}
			if elem == nil || !dependsOnCall(elem, term) {
				continue
			}
			// response elements only (varargs arrays of predicates etc. do not depend on the rows)
			found = true
			ok := condHas(edgeConds(b), true, func(v ssa.Value) bool {
				call, isC := v.(*ssa.Call)
				if !isC {
					return false
				}
				cal := call.Call.StaticCallee()
				if cal == nil || fnPkgPath(cal) != "strings" || cal.Name() != "HasPrefix" {
					return false
				}
				return sources(call.Call.Args[0])["field:Name"] && dependsOnCall(call.Call.Args[0], term) && valKey(call.Call.Args[1]) == valKey(prefix)
			})
			if !ok {
				return false
			}
		}
	}
	return found
}

// ---------------------------------------------------------------------------
// C13 seek

func seekScope(c *Ctx, s *Stmt) bool {
	as := s.Find("", "subscription_id", "eq")
	return len(as) == 1 && s.Unconditional(as[0]) && dependsOnSubscriptionLookup(c, s, as[0].Arg)
}

func reopenMuts(s *Stmt) (ok bool, why string) {
	withBind(s, func() { ok, why = reopenMuts0(s) })
	return
}

func reopenMuts0(s *Stmt) (bool, string) {
	cl := s.Mut("completed_at", "clear")
	ex := s.Mut("expires_at", "set")
	at := s.Mut("attempt_at", "set")
	if len(cl) != 1 {
		return false, "does not clear completed_at"
	}
	if len(ex) != 1 || !(sources(ex[0].Arg)["field:MessageTTL"] && sources(ex[0].Arg)["call:Now"]) {
		return false, "does not give the revived messages fresh retention (expires_at = now + sub.MessageTTL)"
	}
	if len(at) != 1 {
		return false, "does not make the revived messages immediately deliverable (attempt_at = now)"
	}
	if call, ok := resolve(at[0].Arg).(*ssa.Call); !ok || call.Call.StaticCallee() == nil || call.Call.StaticCallee().Name() != "Now" {
		return false, "attempt_at of revived messages is not `now`"
	}
	return true, ""
}

func ruleC13_1(c *Ctx, r *Rep) {
	fn := r.Anchor("C13.1", fnSeekTime)
	if fn == nil {
		return
	}
	var u1, u2 []*Stmt
	for _, s := range c.findStmts(fnSeekTime, "deliveries", "update") {
		if len(s.Mut("completed_at", "set")) > 0 {
			u1 = append(u1, s)
		}
		if len(s.Mut("completed_at", "clear")) > 0 {
			u2 = append(u2, s)
		}
	}
	if len(u1) != 1 || len(u2) != 1 {
		r.Fail("C13.1", "C13.1:partition@"+fnSeekTime, fn.Pos(), fmt.Sprintf("seek-to-time must have one acknowledging and one re-opening update, found %d/%d", len(u1), len(u2)))
		return
	}
	a, b := u1[0], u2[0]
	pa := a.Find("", "published_at", "lte")
	pb := b.Find("", "published_at", "gt")
	ok := len(pa) == 1 && len(pb) == 1 && a.Unconditional(pa[0]) && b.Unconditional(pb[0])
	msg := "seek-to-time must acknowledge `published_at <= T` and re-open `published_at > T` (the statement says: published at or before the time is acknowledged)"
	if ok {
		ok = valKey(pa[0].Arg) == valKey(pb[0].Arg) && strings.HasSuffix(valKey(pa[0].Arg), "params.Time")
		msg = "the two halves compare published_at with different values (a message can fall between or into both)"
	}
	r.Check("C13.1", "C13.1:partition@"+fnSeekTime, a.Pos, ok, "ack{published_at <= T} / re-open{published_at > T} over the same T = params.Time", msg)
	// extra restricting atoms beyond the allowed ones would leave part of the backlog untouched
	for i, s := range []*Stmt{a, b} {
		missA, extra, _ := c.matchAtoms(s.Where, []ap{{col: "subscription_id", ops: []string{"eq"}}, {col: "published_at", ops: []string{"lte", "gt"}}, {col: "expires_at", ops: []string{"gte", "gt"}}},
			[]ap{{col: "completed_at", ops: []string{"isnull", "notnull"}}})
		r.Check("C13.1", fmt.Sprintf("C13.1:no-extra-atom#%d@%s", i+1, fnSeekTime), s.Pos, len(extra) == 0, "", "seek half restricted by an extra atom: "+c.predsString(extra))
		// only unexpired deliveries are re-opened by a time seek (a message past its retention is not restored: it would
		// come back behind its already delivered ordered successor)
		// (the RE-OPENING half: acknowledging an expired delivery changes nothing a client can see, re-opening one does)
		if i == 1 {
			r.Check("C13.1", fmt.Sprintf("C13.1:unexpired-only#%d@%s", i+1, fnSeekTime), s.Pos, len(missA) == 0, "", "the re-opening half of the time seek is not restricted to unexpired deliveries (expires_at >= now): "+strings.Join(missA, ", "))
		}
	}
	cn := b.Find("", "completed_at", "notnull")
	r.Check("C13.1", "C13.1:reopen-only-completed@"+fnSeekTime, b.Pos, len(cn) == 1 && b.Unconditional(cn[0]), "re-open touches only completed deliveries",
		"the re-opening update also rewrites deliveries that are merely outstanding (their leases and retention are reset)")
	// the acknowledging half only acknowledges: any other column it rewrites (an expiry pulled in "so that the pruner
	// can reclaim the purged backlog") decides what a LATER seek can restore — the re-opening half skips expired rows
	ackOnly := true
	for _, m := range a.Muts {
		if m.Col != "completed_at" {
			ackOnly = false
		}
	}
	r.Check("C13.1", "C13.1:ack-mutators@"+fnSeekTime, a.Pos, ackOnly, "ack = {completed_at:=now}", "the acknowledging half of the seek also rewrites "+mutCols(a)+": deliveries it expires (or re-keys) can never be restored by a later seek to an earlier time")
	okM, why := reopenMuts(b)
	r.Check("C13.1", "C13.1:reopen-mutators@"+fnSeekTime, b.Pos, okM, "re-open = {completed_at:clear, expires_at:=now+MessageTTL, attempt_at:=now}", "the re-opening update "+why)
	r.Check("C13.1", "C13.1:scope@"+fnSeekTime, a.Pos, seekScope(c, a) && seekScope(c, b), "both halves scoped to the resolved subscription", "a seek half is not scoped to the resolved subscription")
}

func ruleC13_2(c *Ctx, r *Rep) {
	fn := r.Anchor("C13.2", fnSeekSnap)
	if fn == nil {
		return
	}
	var acks, reopen []*Stmt
	for _, s := range c.findStmts(fnSeekSnap, "deliveries", "update") {
		if len(s.Mut("completed_at", "set")) > 0 {
			acks = append(acks, s)
		}
		if len(s.Mut("completed_at", "clear")) > 0 {
			reopen = append(reopen, s)
		}
	}
	var snapTerm *ssa.Call
	for _, s := range c.findStmts(fnSeekSnap, "snapshots", "select") {
		if len(s.Terms) == 1 {
			snapTerm = s.Terms[0].Call
		}
	}
	if len(reopen) != 1 || len(acks) < 1 || snapTerm == nil {
		r.Fail("C13.2", "C13.2:shape@"+fnSeekSnap, fn.Pos(), "seek-to-snapshot must resolve the snapshot and have acknowledging updates plus one re-opening update")
		return
	}
	var before, inlist *Pred
	for _, s := range acks {
		if p := s.Find("", "published_at", "lt"); len(p) == 1 && s.Unconditional(p[0]) {
			before = p[0]
		}
		if p := s.Find("", "message_id", "in"); len(p) == 1 && s.Unconditional(p[0]) {
			inlist = p[0]
		}
	}
	u := reopen[0]
	ge := u.Find("", "published_at", "gte")
	ni := u.Find("", "message_id", "notin")
	ok := before != nil && inlist != nil && len(ge) == 1 && len(ni) == 1 && u.Unconditional(ge[0]) && u.Unconditional(ni[0])
	msg := "seek-to-snapshot must acknowledge {published_at < B} and {message_id IN L}, and re-open {published_at >= B ∧ message_id NOT IN L}"
	if ok {
		ok = valKey(before.Arg) == valKey(ge[0].Arg) && valKey(inlist.Arg) == valKey(ni[0].Arg)
		msg = "acknowledging and re-opening halves use different watermark / id-list values"
	}
	if ok {
		ok = strings.HasSuffix(valKey(before.Arg), "AckedMessagesBefore") && strings.HasSuffix(valKey(inlist.Arg), "AckedMessageIDs") && dependsOnCall(before.Arg, snapTerm) && dependsOnCall(inlist.Arg, snapTerm)
		msg = "the watermark / id list are not the resolved snapshot's AckedMessagesBefore / AckedMessageIDs"
	}
	r.Check("C13.2", "C13.2:partition@"+fnSeekSnap, u.Pos, ok, "ack{< B} ∪ ack{IN L} / re-open{>= B ∧ NOT IN L} over the snapshot's B and L", msg)
	cn := u.Find("", "completed_at", "notnull")
	r.Check("C13.2", "C13.2:reopen-only-completed@"+fnSeekSnap, u.Pos, len(cn) == 1 && u.Unconditional(cn[0]), "", "the re-opening update also rewrites merely outstanding deliveries")
	okM, why := reopenMuts(u)
	r.Check("C13.2", "C13.2:reopen-mutators@"+fnSeekSnap, u.Pos, okM, "", "the re-opening update "+why)
	allScoped := seekScope(c, u)
	for _, s := range acks {
		allScoped = allScoped && seekScope(c, s)
	}
	r.Check("C13.2", "C13.2:scope@"+fnSeekSnap, u.Pos, allScoped, "every update scoped to the resolved subscription", "an update of seek-to-snapshot is not scoped to the resolved subscription: other subscriptions' deliveries are acknowledged / revived")
	for i, s := range append(append([]*Stmt{}, acks...), u) {
		_, extra, _ := c.matchAtoms(s.Where, nil, []ap{{col: "subscription_id", ops: []string{"eq"}}, {col: "published_at", ops: []string{"lt", "gte"}}, {col: "message_id", ops: []string{"in", "notin"}},
			{col: "expires_at", ops: []string{"gte", "gt"}}, {col: "completed_at", ops: []string{"isnull", "notnull"}}})
		r.Check("C13.2", fmt.Sprintf("C13.2:no-extra-atom#%d@%s", i+1, fnSeekSnap), s.Pos, len(extra) == 0, "", "restricted by an extra atom: "+c.predsString(extra))
	}
}

func ruleC13_3(c *Ctx, r *Rep) {
	fn := r.Anchor("C13.3", fnCreateSnap)
	if fn == nil {
		return
	}
	var cr *Stmt
	for _, s := range c.findStmts(fnCreateSnap, "snapshots", "create") {
		cr = s
	}
	var oldest, ids *Stmt
	for _, s := range c.findStmts(fnCreateSnap, "deliveries", "select") {
		oldest = s
	}
	for _, s := range c.findStmts(fnCreateSnap, "messages", "select") {
		ids = s
	}
	if cr == nil || oldest == nil || ids == nil || len(oldest.Terms) != 1 || len(ids.Terms) != 1 {
		r.Fail("C13.3", "C13.3:shape@"+fnCreateSnap, fn.Pos(), "CreateSnapshot must look up the oldest outstanding delivery and the acked message ids")
		return
	}
	// oldest outstanding delivery of this subscription
	miss, extra, m := c.matchAtoms(oldest.Where, []ap{{col: "subscription_id", ops: []string{"edgeof"}}, {col: "completed_at", ops: []string{"isnull"}}, {col: "expires_at", ops: []string{"gt"}}}, nil)
	ok := len(miss) == 0 && len(extra) == 0 && len(oldest.Order) == 1 && oldest.Order[0].Col == "published_at" && !oldest.Order[0].Desc && oldest.Terms[0].Name == "First"
	if ok {
		ok = dependsOnSubscriptionLookup(c, oldest, m[(ap{col: "subscription_id", ops: []string{"edgeof"}}).String()].Arg)
	}
	r.Check("C13.3", "C13.3:watermark-lookup@"+fnCreateSnap, oldest.Pos, ok, "watermark = published_at of the oldest outstanding delivery of the subscription", "the watermark lookup is not `oldest {completed_at IS NULL, expires_at > now} delivery of this subscription by published_at`: "+c.predsString(oldest.Where))
	// SetAckedMessagesBefore on the complex path = that row's published_at
	okB := false
	wm := map[string]bool{}
	for _, mu := range cr.Mut("acked_messages_before", "set") {
		cands := []ssa.Value{mu.Arg}
		if phi, isPhi := mu.Arg.(*ssa.Phi); isPhi {
			// one setter fed by a local that is `now` by default and the row's published_at on the complex path
			cands = phi.Edges
		}
		// the lookup may live in a helper that hands its findings back in a struct (`st := computeAckState(…);
		// SetAckedMessagesBefore(st.before)`): the path-sensitive provenance of the argument names its leaves
		if mu.Call != nil {
			if alts, okP := provenanceThroughClosures(c, mu.Call.Parent(), mu.Call, mu.Arg, 0); okP {
				for _, al := range alts {
					cands = append(cands, al.leaf)
				}
			}
		}
		for _, a := range cands {
			if dependsOnCall(a, oldest.Terms[0].Call) && sources(a)["field:PublishedAt"] {
				// the row's published_at ITSELF (a rounded / shifted copy moves the boundary across the very message it
				// was read from)
				if u, isU := resolve(a).(*ssa.UnOp); isU && u.Op == token.MUL {
					if fa, isFA := u.X.(*ssa.FieldAddr); isFA && fieldName(fa.X.Type(), fa.Field) == "PublishedAt" {
						okB = true
						wm[valKey(a)] = true
					}
				}
			}
		}
	}
	r.Check("C13.3", "C13.3:watermark-stored@"+fnCreateSnap, cr.Pos, okB, "", "the stored watermark is not the oldest outstanding delivery's published_at")
	// id list: messages of the topic published at/after the watermark whose delivery on THIS subscription is absent or completed
	al := ""
	for _, p := range ids.Atoms() {
		if p.Kind == "join" && p.Tbl2 == "deliveries" {
			al = p.Tbl
		}
	}
	tp := ids.Find("", "topic_id", "eq")
	pg := ids.Find("", "published_at", "gte")
	okIDs := len(tp) == 1 && len(pg) == 1 && wm[valKey(pg[0].Arg)] && sources(tp[0].Arg)["field:TopicID"]
	sc := ids.Find(al, "subscription_id", "eq")
	okSub := al != "" && len(sc) == 1 && dependsOnSubscriptionLookup(c, ids, sc[0].Arg)
	okDone := false
	for _, p := range ids.Atoms() {
		if p.Kind == "or" {
			for _, k := range p.Kids {
				if k.Kind == "atom" && k.Tbl == al && k.Col == "completed_at" && k.Op == "notnull" {
					okDone = true
				}
			}
		}
		if p.Kind == "atom" && p.Tbl == al && p.Col == "completed_at" && p.Op == "notnull" {
			okDone = true
		}
	}
	if unk, _ := ids.HasUnknownPred(); unk {
		okDone = false
	}
	r.Check("C13.3", "C13.3:acked-ids@"+fnCreateSnap, ids.Pos, okIDs && okSub && okDone, "acked ids = topic messages at/after the watermark acknowledged on THIS subscription",
		fmt.Sprintf("the acked-id list is not `messages of sub.TopicID with published_at >= watermark whose delivery on this subscription is completed` (topic/watermark=%v, scoped-to-this-subscription=%v, completed=%v): acks of sibling subscriptions leak into the snapshot or acked messages are missed", okIDs, okSub, okDone))
	okSet := false
	for _, mu := range cr.Mut("acked_message_ids", "set") {
		if dependsOnCall(mu.Arg, ids.Terms[0].Call) {
			okSet = true
		}
	}
	r.Check("C13.3", "C13.3:ids-stored@"+fnCreateSnap, cr.Pos, okSet, "", "the id list stored in the snapshot is not the result of that query")
}

// ---------------------------------------------------------------------------
// C14 retention, expiry, delay

func ruleC14_1(c *Ctx, r *Rep) {
	fn := r.Anchor("C14.1", fnDeliver)
	if fn == nil {
		return
	}
	n := 0
	for _, s := range c.EntShape().Stmts {
		if s.Table != "deliveries" || s.Kind != "create" || c.Owner(s) != fnDeliver {
			continue
		}
		n++
		if n > 1 {
			continue // instances per call site share the same callee code
		}
		chk := func(col, field string) {
			ms := s.Mut(col, "set")
			ok := len(ms) == 1 && s.Unconditional2(ms[0])
			if ok {
				ok = addOfParamAndField(ms[0].Arg, "now", field)
			}
			r.Check("C14.1", "C14.1:"+col+"=now+"+field, s.Pos, ok, "", "deliveries."+col+" is not set to now + s."+field+" at creation")
		}
		chk("expires_at", "MessageTTL")
		chk("attempt_at", "DeliveryDelay")
		ms := s.Mut("published_at", "set")
		okP := len(ms) == 1
		if okP {
			p, isP := resolve(ms[0].Arg).(*ssa.Parameter)
			okP = isP && p.Name() == "now"
		}
		r.Check("C14.1", "C14.1:published_at=now", s.Pos, okP, "", "deliveries.published_at is not the publish time `now`")
	}
	r.Floor("C14.1", n, 1)
}

// Unconditional2 for mutations: no control condition at all.
func (s *Stmt) Unconditional2(m *Mut) bool { return len(s.condsBeyondRoot(m.Conds)) == 0 }

// condsBeyondRoot: the conditions in cs that do not already govern the creation of the statement itself (a guard
// that dominates the whole statement is a condition of the operation, not of one of its clauses).
func (s *Stmt) condsBeyondRoot(cs []Cond) []Cond {
	var root []Cond
	if in, ok := s.RootCall.(ssa.Instruction); ok && in.Block() != nil {
		root = edgeConds(in.Block())
	}
	var out []Cond
	for _, c := range cs {
		found := false
		for _, x := range root {
			if x.V == c.V && x.Pol == c.Pol {
				found = true
			}
		}
		if !found {
			out = append(out, c)
		}
	}
	return out
}

// addOfParamAndField: v is (time.Time).Add(<param name>, conv(<x>.<field>)) with no negation.
func addOfParamAndField(v ssa.Value, param, field string) bool {
	call, ok := resolve(v).(*ssa.Call)
	if !ok {
		return false
	}
	cal := call.Call.StaticCallee()
	if cal == nil {
		return false
	}
	if (cal.Name() != "Add" || fnPkgPath(cal) != "time") && lastCtx != nil && lastCtx.inModule(cal) && !lastCtx.EntShape().isGenerated(cal) && len(cal.Blocks) > 0 && len(cal.Blocks) <= 6 {
		// a small hand-written helper that does the addition (`s.MessageExpirationFrom(now)`): each of its results is
		// its time parameter + the field, and that parameter is handed `param` here
		rets := returnsOf(cal)
		if len(rets) == 0 {
			return false
		}
		for _, ret := range rets {
			if len(ret.Results) != 1 {
				return false
			}
			inner, ok := resolve(retResult(ret, 0)).(*ssa.Call)
			if !ok || inner.Call.StaticCallee() == nil || inner.Call.StaticCallee().Name() != "Add" || fnPkgPath(inner.Call.StaticCallee()) != "time" {
				return false
			}
			hp, isHP := resolve(inner.Call.Args[0]).(*ssa.Parameter)
			if !isHP || hp.Parent() != cal {
				return false
			}
			idx := -1
			for i, q := range cal.Params {
				if q == hp {
					idx = i
				}
			}
			if idx < 0 || idx >= len(call.Call.Args) {
				return false
			}
			op, isOP := resolve(call.Call.Args[idx]).(*ssa.Parameter)
			if !isOP || op.Name() != param {
				return false
			}
			u, isU := strip(inner.Call.Args[1]).(*ssa.UnOp)
			if !isU || u.Op != token.MUL {
				return false
			}
			fa, isFA := u.X.(*ssa.FieldAddr)
			if !isFA || fieldName(fa.X.Type(), fa.Field) != field {
				return false
			}
		}
		return true
	}
	if cal.Name() != "Add" || fnPkgPath(cal) != "time" {
		return false
	}
	p, isP := resolve(call.Call.Args[0]).(*ssa.Parameter)
	if !isP || p.Name() != param {
		return false
	}
	u, isU := strip(call.Call.Args[1]).(*ssa.UnOp)
	if !isU || u.Op != token.MUL {
		return false
	}
	fa, isFA := u.X.(*ssa.FieldAddr)
	return isFA && fieldName(fa.X.Type(), fa.Field) == field
}

func ruleC14_2(c *Ctx, r *Rep) {
	s := pullSelect(c)
	if s == nil {
		r.Fail("C14.2", "C14.2:pull", token.NoPos, "pull selection not found")
		return
	}
	as := s.Find("", "expires_at", "gt")
	r.Check("C14.2", "C14.2:expires_at>now@pull", s.Pos, len(as) == 1 && s.Unconditional(as[0]) && sources(as[0].Arg)["call:Now"], "never delivered after retention", "the pull selection does not require expires_at > now on every path")
}

// refreshUpdate: UpdateOne(sub).SetExpiresAt(now + sub.TTL) in fn (or closures)
func refreshUpdates(c *Ctx, owner string) []*Stmt {
	var out []*Stmt
	for _, s := range c.findStmts(owner, "subscriptions", "update") {
		for _, m := range s.Mut("expires_at", "set") {
			src := sources(m.Arg)
			if src["field:TTL"] && src["call:Now"] {
				out = append(out, s)
			}
		}
	}
	return out
}

func ruleC14_3(c *Ctx, r *Rep) {
	ex := r.Anchor("C14.3", fnPullExec)
	ap := r.Anchor("C14.3", fnPullApply)
	if ex == nil || ap == nil {
		return
	}
	// applyResults: the refresh dominates every successful return
	okA := false
	for _, s := range refreshUpdates(c, fnPullApply) {
		if len(s.Terms) == 1 && s.Fn == ap {
			okA = true
			for _, ret := range returnsOf(ap) {
				if returnsNilError(ret) && !instrDominates(s.Terms[0].Call, ret) {
					okA = false
				}
			}
		}
	}
	r.Check("C14.3", "C14.3:refresh@"+fnPullApply, ap.Pos(), okA, "every completed pull (even empty) sets expires_at = now + ttl", "applyResults does not refresh the subscription's expiry on every successful path")
	// execute: a refresh in a committed closure precedes everything else
	okE := false
	for _, s := range refreshUpdates(c, fnPullExec) {
		if s.Fn == ex || len(s.Terms) != 1 {
			continue
		}
		// the closure handed to runTx that certainly executes the refresh: the statement's own function, or a closure
		// whose every successful return is preceded by a call of the private helper that does
		var cl *ssa.Function
		for _, a := range ex.AnonFuncs {
			if mustExecBeforeSuccess(c, a, s.Terms[0].Call, 0) {
				cl = a
			}
		}
		if cl == nil {
			continue
		}
		okIn := true
		// the closure is passed to runTx, and that call dominates every nil return and the wait loop of execute
		mc := makeClosureOf(cl)
		if mc == nil || !okIn {
			continue
		}
		refs := mc.Referrers()
		if refs == nil {
			continue
		}
		for _, in := range *refs {
			call, isC := in.(*ssa.Call)
			if !isC {
				continue
			}
			if p, isP := call.Call.Value.(*ssa.Parameter); !isP || p.Name() != "runTx" {
				continue
			}
			dom := true
			for _, ret := range returnsOf(ex) {
				if returnsNilError(ret) && !instrDominates(call, ret) {
					dom = false
				}
			}
			// and precedes the first registration of the awaiter (i.e. the waiting loop)
			for _, ci := range callsIn(ex, false, func(cal *ssa.Function, _ ssa.CallInstruction) bool { return cal.Name() == "PublishAwaiter" }) {
				if !instrDominates(call, ci) {
					dom = false
				}
			}
			if dom {
				okE = true
			}
		}
	}
	r.Check("C14.3", "C14.3:refresh-first@"+fnPullExec, ex.Pos(), okE, "the pull refreshes the expiry in its own committed transaction before it may wait", "a pull that ends by cancellation/timeout while waiting does not restart the subscription's expiration clock (no refresh transaction before the wait loop)")
}

// mustExecBeforeSuccess: every return of f that may report success (nil error) is preceded by `term` — directly, or
// through a call of a private helper of which the same holds.
func mustExecBeforeSuccess(c *Ctx, f *ssa.Function, term *ssa.Call, depth int) bool {
	if depth > 2 || len(f.Blocks) == 0 {
		return false
	}
	var points []ssa.Instruction
	if term.Parent() == f {
		points = append(points, term)
	}
	for _, ci := range callsIn(f, false, func(cal *ssa.Function, _ ssa.CallInstruction) bool {
		return c.inModule(cal) && len(cal.Blocks) > 0 && cal.Object() != nil && !cal.Object().Exported() && !c.EntShape().isGenerated(cal)
	}) {
		if call, ok := ci.(*ssa.Call); ok && mustExecBeforeSuccess(c, call.Call.StaticCallee(), term, depth+1) {
			points = append(points, call)
		}
	}
	if len(points) == 0 {
		return false
	}
	for _, ret := range returnsOf(f) {
		if !mayReturnNilError(ret) {
			continue
		}
		covered := false
		for _, p := range points {
			if instrDominates(p, ret) {
				covered = true
			}
		}
		if !covered {
			return false
		}
	}
	return true
}

func ruleC14_4(c *Ctx, r *Rep) {
	fn := r.Anchor("C14.4", fnExpireSubs)
	if fn == nil {
		return
	}
	var sel, upd *Stmt
	for _, s := range c.findStmts(fnExpireSubs, "subscriptions", "select") {
		sel = s
	}
	for _, s := range c.findStmts(fnExpireSubs, "subscriptions", "update") {
		upd = s
	}
	if sel == nil || upd == nil || len(sel.Terms) != 1 {
		r.Fail("C14.4", "C14.4:shape@"+fnExpireSubs, fn.Pos(), "expiry sweep must select and then soft-delete")
		return
	}
	// (live rows only: a sweep that re-selects already deleted subscriptions re-stamps their deleted_at every round —
	// they never age past the prune threshold — and spends its batch on them)
	miss, extra, m := c.matchAtoms(sel.Where, []ap{{col: "expires_at", ops: []string{"lt", "lte"}}, {col: "deleted_at", ops: []string{"isnull"}}}, nil)
	ok := len(miss) == 0 && len(extra) == 0
	if ok {
		a := m[(ap{col: "expires_at", ops: []string{"lt", "lte"}}).String()]
		call, isC := resolve(a.Arg).(*ssa.Call)
		ok = isC && call.Call.StaticCallee() != nil && call.Call.StaticCallee().Name() == "Now" && sel.Unconditional(a)
	}
	r.Check("C14.4", "C14.4:selection@"+fnExpireSubs, sel.Pos, ok, "expired = expires_at < now", "the expiry sweep does not select exactly `expires_at < now` (live) subscriptions: "+c.predsString(sel.Where))
	ida := upd.Find("", "id", "in")
	okU := len(ida) == 1 && dependsOnCall(ida[0].Arg, sel.Terms[0].Call) && len(upd.Mut("deleted_at", "set")) == 1 && len(upd.Mut("live", "clear")) == 1
	_, ex2, _ := c.matchAtoms(upd.Where, []ap{{col: "id", ops: []string{"in"}}}, nil)
	r.Check("C14.4", "C14.4:soft-delete@"+fnExpireSubs, upd.Pos, okU && len(ex2) == 0, "soft-deletes exactly the selected rows", "the sweep does not soft-delete exactly the selected subscriptions")
}

func ruleC14_5(c *Ctx, r *Rep) {
	k := "(*controllers.DelayInjectorController).PutDelay"
	fn := r.Anchor("C14.5", k)
	if fn == nil {
		return
	}
	for _, s := range c.findStmts(k, "subscriptions", "update") {
		for _, m := range s.Mut("delivery_delay", "set") {
			ok := false
			for _, cd := range m.Conds {
				bo, isB := cd.V.(*ssa.BinOp)
				if !isB || valKey(bo.X) != valKey(m.Arg) {
					continue
				}
				z, isZ := constInt(bo.Y)
				if !isZ || z != 0 {
					continue
				}
				if (bo.Op == token.LSS && !cd.Pol) || (bo.Op == token.GEQ && cd.Pol) {
					ok = true
				}
			}
			r.Check("C14.5", "C14.5:nonnegative-delay@"+k, m.Pos, ok, "negative delays are rejected before they are stored", "a negative delivery delay can be stored (messages would be due before they are published)")
		}
	}
}

// ---------------------------------------------------------------------------
// C15 pruning

var pruneSpecsRest = []pruneSpec{
	{fn: fnPruneCM, table: "messages", need: []ap{{col: "published_at", ops: []string{"lte", "lt"}}, {kind: "not"}}, what: "messages older than the threshold without any delivery"},
	{fn: fnPruneDS, table: "subscriptions", need: []ap{{col: "deleted_at", ops: []string{"lte", "lt"}}, {kind: "not"}}, what: "subscriptions deleted longer than the threshold without deliveries"},
	{fn: fnPruneDT, table: "topics", need: []ap{{col: "deleted_at", ops: []string{"lte", "lt"}}, {kind: "not"}}, what: "topics deleted longer than the threshold without subscriptions"},
}

var notExists = map[string]string{fnPruneCM: "deliveries", fnPruneDS: "deliveries", fnPruneDT: "subscriptions"}

func ruleC15_1(c *Ctx, r *Rep) {
	for _, sp := range pruneSpecs {
		checkPruneJob(c, r, "C15.1", sp)
	}
	for _, sp := range pruneSpecsRest {
		checkPruneJob(c, r, "C15.1", sp)
		// NOT EXISTS <children>
		for _, s := range c.findStmts(sp.fn, sp.table, "select") {
			ok := false
			for _, p := range s.Atoms() {
				if p.Kind == "not" && len(p.Kids) == 1 && p.Kids[0].Kind == "edge" && p.Kids[0].Tbl2 == notExists[sp.fn] && len(p.Kids[0].Kids) == 0 {
					ok = true
				}
			}
			r.Check("C15.1", "C15.1:childless@"+sp.fn, s.Pos, ok, "NOT EXISTS "+notExists[sp.fn], "the job does not require the row to have no "+notExists[sp.fn]+" at all: a parent of live children would be selected (or dead rows with completed children are never reclaimed if the predicate is narrowed)")
		}
	}
	// the expiry prune compares with the clock itself: `expires_at < now` (an offset into the future removes deliveries
	// that are still within their retention)
	if fn := c.Fn(fnPruneED); fn != nil {
		for _, s := range c.findStmts(fnPruneED, "deliveries", "select") {
			for _, a := range s.Atoms() {
				if a.Kind != "atom" || a.Col != "expires_at" || a.Arg == nil {
					continue
				}
				call, isC := resolve(a.Arg).(*ssa.Call)
				okNow := isC && call.Call.StaticCallee() != nil && call.Call.StaticCallee().Name() == "Now" && fnPkgPath(call.Call.StaticCallee()) == "time"
				if !okNow && isC && nowMinusAge(c, a.Arg, 0) {
					okNow = true // older than now − MinAge is a subset of expired
				}
				if p, isP := resolve(a.Arg).(*ssa.Parameter); isP && p.Name() == "now" {
					okNow = true
				}
				r.Check("C15.1", "C15.1:expired-means-before-now@"+fnPruneED, a.Pos, okNow, "", "the expiry prune does not compare expires_at with the current time itself: with a cutoff in the future it hard-deletes deliveries that are still within their retention")
			}
		}
	}
	// thresholds: now (taken in Execute) minus MinAge
	for _, fk := range []string{fnPruneCD, fnPruneDSD, fnPruneCM, fnPruneDS, fnPruneDT} {
		fn := c.Fn(fk)
		if fn == nil {
			continue
		}
		ok := false
		for _, s := range c.EntShape().Stmts {
			if c.Owner(s) != fk || s.Kind != "select" {
				continue
			}
			var walk func(ps []*Pred)
			walk = func(ps []*Pred) {
				for _, p := range ps {
					if p.Kind == "atom" && (p.Col == "completed_at" || p.Col == "deleted_at" || p.Col == "published_at") && (p.Op == "lte" || p.Op == "lt") && p.Arg != nil {
						if nowMinusAge(c, p.Arg, 0) {
							ok = true
						}
					}
					walk(p.Kids)
				}
			}
			walk(s.Where)
		}
		r.Check("C15.1", "C15.1:threshold@"+fk, fn.Pos(), ok, "threshold = time.Now() (taken in Execute) − MinAge", "the age threshold is not computed as now − MinAge at execution time (a frozen or shifted cutoff leaves dead rows behind or removes young ones)")
	}
}

// nowMinusAge: time.Now().Add(-MinAge)
func nowMinusAge(c *Ctx, v ssa.Value, depth int) bool {
	call, ok := resolve(v).(*ssa.Call)
	if !ok || call.Call.StaticCallee() == nil {
		return false
	}
	if cal := call.Call.StaticCallee(); cal.Name() != "Add" || fnPkgPath(cal) != "time" {
		// a module helper that computes the cutoff: every one of its returns must be now − MinAge, computed there
		if depth < 2 && c.inModule(cal) && len(cal.Blocks) > 0 {
			rets := returnsOf(cal)
			if len(rets) == 0 {
				return false
			}
			for _, ret := range rets {
				if len(ret.Results) != 1 || !nowMinusAge(c, retResult(ret, 0), depth+1) {
					return false
				}
			}
			return true
		}
		return false
	}
	recv, ok := resolve(call.Call.Args[0]).(*ssa.Call)
	if !ok || recv.Call.StaticCallee() == nil || recv.Call.StaticCallee().Name() != "Now" {
		return false
	}
	neg, ok := strip(call.Call.Args[1]).(*ssa.UnOp)
	if !ok || neg.Op != token.SUB {
		return false
	}
	return sources(neg.X)["field:MinAge"]
}

func ruleC15_2(c *Ctx, r *Rep) {
	fks, _, ok := c.entSchema()
	if !ok {
		r.Fail("C15.2", "C15.2:ent-schema", token.NoPos, "ent/migrate/schema.go tables not found")
		return
	}
	setNull := map[string]bool{"deliveries.not_before_id": true, "subscriptions.dead_letter_topic_id": true}
	for _, f := range fks {
		k := f.Table + "." + f.Column
		want := "NoAction"
		if setNull[k] {
			want = "SetNull"
		}
		r.Check("C15.2", "C15.2:ent:"+k, f.Pos, f.OnDelete == want, "ON DELETE "+want, "foreign key "+k+" → "+f.RefTable+" is ON DELETE "+f.OnDelete+" (expected "+want+"): a prune of the parent would cascade into / be blocked by live children")
	}
	r.Floor("C15.2:ent", len(fks), 5)
	sq, _, n := c.sqlSchema()
	if n > 0 {
		var ks []string
		for k := range sq {
			ks = append(ks, k)
		}
		sort.Strings(ks)
		for _, k := range ks {
			f := sq[k]
			want := "NoAction"
			if setNull[k] {
				want = "SetNull"
			}
			okA := f.OnDelete == want || (want == "NoAction" && f.OnDelete == "Restrict")
			r.Check("C15.2", "C15.2:sql:"+k, token.NoPos, okA, "ON DELETE "+want+" ("+f.File+")", "SQL migration "+f.File+" leaves "+k+" ON DELETE "+f.OnDelete+" (expected "+want+")")
		}
		r.Floor("C15.2:sql", len(sq), 5)
	}
}

func ruleC15_3(c *Ctx, r *Rep) {
	ap := c.PkgByPath[modPath+"/actions"]
	if ap == nil {
		r.Fail("C15.3", "C15.3:actions", token.NoPos, "package actions not loaded")
		return
	}
	// constructors of prune actions: New* returning *T where T embeds pruneAction
	ctors := map[string]bool{}
	scope := ap.Types.Scope()
	for _, name := range scope.Names() {
		fn, ok := scope.Lookup(name).(*types.Func)
		if !ok || !strings.HasPrefix(name, "New") {
			continue
		}
		sig := fn.Type().(*types.Signature)
		if sig.Results().Len() != 1 {
			continue
		}
		n := namedOf(sig.Results().At(0).Type())
		if n == nil {
			continue
		}
		st, ok := n.Underlying().(*types.Struct)
		if !ok {
			continue
		}
		for i := 0; i < st.NumFields(); i++ {
			if st.Field(i).Embedded() && st.Field(i).Name() == "pruneAction" {
				ctors[name] = true
			}
		}
	}
	registered := map[string]bool{}
	dlRegistered := false
	for _, f := range c.Funcs {
		if c.PkgOf(f) != "services" || !strings.HasPrefix(top(f).Name(), "init") {
			continue
		}
		for _, b := range f.Blocks {
			for _, in := range b.Instrs {
				// a constructor handed on as a value (a registration table, a generic adapter)
				for _, op := range in.Operands(nil) {
					if fv, isF := (*op).(*ssa.Function); isF && fnPkgPath(fv) == modPath+"/actions" && ctors[fv.Name()] {
						if _, isCallee := in.(*ssa.Call); !isCallee || in.(*ssa.Call).Call.Value != ssa.Value(fv) {
							registered[fv.Name()] = true
						}
					}
				}
				switch x := in.(type) {
				case *ssa.Call:
					if cal := x.Call.StaticCallee(); cal != nil && fnPkgPath(cal) == modPath+"/actions" && ctors[cal.Name()] {
						// only constructors invoked from a builder passed to pruneServiceFor count
						if mc := makeClosureOrFunc(f); mc {
							registered[cal.Name()] = true
						}
					}
				case *ssa.Alloc:
					if typeIs(x.Type(), modPath+"/services", "deadLetter") {
						dlRegistered = true
					}
				}
			}
		}
	}
	var names []string
	for n := range ctors {
		names = append(names, n)
	}
	sort.Strings(names)
	for _, n := range names {
		r.Check("C15.3", "C15.3:registered:"+n, token.NoPos, registered[n], "", "maintenance action "+n+" is not registered as a background service (services/prune-common.go:init): what it should reclaim is left behind forever")
	}
	r.Floor("C15.3", len(names), 5)
	r.Check("C15.3", "C15.3:registered:deadLetter", token.NoPos, dlRegistered, "", "the dead-letter sweep service is not registered")
}

func makeClosureOrFunc(f *ssa.Function) bool { return f.Parent() != nil }

// C12.2 (chain): between the driver and the duplicate-key test nothing may flatten the error chain —
// isSqlDuplicateKeyError finds the driver error with errors.As, so every layer that re-wraps an error on the
// storage path (schema hooks, transaction helpers, actions) must wrap with %w.
func ruleC12_2chain(c *Ctx, r *Rep) {
	errIface := types.Universe.Lookup("error").Type().Underlying().(*types.Interface)
	n := 0
	for _, f := range c.Funcs {
		pk := c.PkgOf(f)
		if !(pk == "ent/schema" || pk == "ent" || pk == "actions") || c.EntShape().isGenerated(f) || c.testSupport(f) {
			continue
		}
		for _, ci := range callsIn(f, false, func(cal *ssa.Function, _ ssa.CallInstruction) bool {
			return fnPkgPath(cal) == "fmt" && cal.Name() == "Errorf"
		}) {
			args := ci.Common().Args
			format, isC := constString(args[0])
			if !isC || len(args) < 2 {
				continue
			}
			nerr, storageErr := 0, false
			for _, el := range c.EntShape().sliceElems(args[1], &frame{bind: map[*ssa.Parameter]ssa.Value{}}, 0) {
				if _, unk := el.v.(unknownSlice); unk {
					continue
				}
				v := el.v
				if mi, ok := v.(*ssa.MakeInterface); ok {
					v = mi.X
				}
				if ci2, ok := v.(*ssa.ChangeInterface); ok {
					v = ci2.X
				}
				if types.Implements(v.Type(), errIface) {
					nerr++
					if mayBeStorageError(c, v) {
						storageErr = true
					}
				}
			}
			if nerr == 0 || !storageErr {
				continue
			}
			n++
			r.Check("C12.2", fmt.Sprintf("C12.2:error-chain#%d@%s", n, c.Key(f)), ci.Pos(), strings.Count(format, "%w") >= nerr, "errors are wrapped with %w",
				"an error is re-wrapped on the storage path without %w (format "+fmt.Sprintf("%q", format)+"): the driver's unique-violation can no longer be recognised by errors.As, so the loser of a create race gets Unknown instead of AlreadyExists")
		}
	}
	r.OK("C12.2", "C12.2:error-chain", 0, fmt.Sprintf("%d re-wrapping sites on the storage path, all with %%w", n))
}

// mayBeStorageError: can the error value v have been produced by the storage layer (ent, its hooks, the SQL
// driver, an action, or anything reached through an interface or a function value)? Errors that provably come
// from elsewhere (the filter parser, encoding, strconv, ...) are not on the unique-violation path.
func mayBeStorageError(c *Ctx, v ssa.Value) bool {
	seen := map[ssa.Value]bool{}
	var walk func(v ssa.Value, d int) bool
	walk = func(v ssa.Value, d int) bool {
		if v == nil || seen[v] {
			return false
		}
		if d > 30 {
			return true
		}
		seen[v] = true
		switch x := v.(type) {
		case *ssa.Const:
			return false
		case *ssa.Phi:
			for _, e := range x.Edges {
				if walk(e, d+1) {
					return true
				}
			}
			return false
		case *ssa.Extract:
			return walk(x.Tuple, d+1)
		case *ssa.MakeInterface:
			return walk(x.X, d+1)
		case *ssa.ChangeInterface:
			return walk(x.X, d+1)
		case *ssa.UnOp:
			if g, ok := x.X.(*ssa.Global); ok && x.Op == token.MUL && g.Pkg != nil && strings.Contains(g.Pkg.Pkg.Path(), "/mmmbbb/") {
				return false // a sentinel error of the module (ErrExists, ErrNotFound, ...): made here, not by storage
			}
			if al, ok := x.X.(*ssa.Alloc); ok && x.Op == token.MUL {
				sts := allocStores(al)
				if len(sts) == 0 {
					return true
				}
				for _, st := range sts {
					if walk(st.Val, d+1) {
						return true
					}
				}
				return false
			}
			return true
		case *ssa.FreeVar:
			if b := freeVarBinding(x); b != nil {
				return walk(b, d+1)
			}
			return true
		case *ssa.Alloc:
			for _, st := range allocStores(x) {
				if walk(st.Val, d+1) {
					return true
				}
			}
			return false
		case *ssa.Call:
			cal := x.Call.StaticCallee()
			if cal == nil {
				return true
			}
			pk := fnPkgPath(cal)
			switch {
			case strings.HasPrefix(pk, "entgo.io/"), strings.HasPrefix(pk, "database/sql"):
				return true
			case strings.Contains(pk, "/mmmbbb/"):
				rel := pk[strings.Index(pk, "/mmmbbb/")+len("/mmmbbb/"):]
				return rel == "ent" || strings.HasPrefix(rel, "ent/") || rel == "actions" || rel == "services" || rel == "db" || strings.HasPrefix(rel, "db/")
			}
			return false
		}
		return true
	}
	return walk(v, 0)
}

// C15.4: the background maintenance loops keep running: their wake-up source is a ticker, or a timer that is
// re-armed on every path of the loop body (a job that stops waking up leaves everything after it unreclaimed).
func ruleC15_4(c *Ctx, r *Rep) {
	for _, k := range []string{"(*services.pruneService).Start", "(*services.deadLetter).Start"} {
		fn := r.Anchor("C15.4", k)
		if fn == nil {
			continue
		}
		ok, why := false, "the service loop does not wait on a ticker / timer"
		for _, b := range fn.Blocks {
			for _, in := range b.Instrs {
				sel, isSel := in.(*ssa.Select)
				if !isSel || !sel.Blocking {
					continue
				}
				for i, st := range sel.States {
					src := sources(st.Chan)
					if !(src["field:C"] && (src["call:NewTicker"] || src["call:NewTimer"])) {
						continue
					}
					if src["call:NewTicker"] {
						ok = true
						continue
					}
					// a one-shot timer: every path from this case back to the select must Reset it
					var entry *ssa.BasicBlock
					if refs := sel.Referrers(); refs != nil {
						for _, u := range *refs {
							ex, isEx := u.(*ssa.Extract)
							if !isEx || ex.Index != 0 {
								continue
							}
							if er := ex.Referrers(); er != nil {
								for _, cmp := range *er {
									if bo, isB := cmp.(*ssa.BinOp); isB && bo.Op == token.EQL {
										if kk, isK := constInt(bo.Y); isK && int(kk) == i {
											if cr := bo.Referrers(); cr != nil {
												for _, uu := range *cr {
													if iff, isIf := uu.(*ssa.If); isIf {
														entry = iff.Block().Succs[0]
													}
												}
											}
										}
									}
								}
							}
						}
					}
					if entry == nil {
						ok, why = false, "could not locate the timer case"
						continue
					}
					ok = true
					seen := map[*ssa.BasicBlock]bool{}
					var walk func(x *ssa.BasicBlock)
					walk = func(x *ssa.BasicBlock) {
						if seen[x] || !ok {
							return
						}
						seen[x] = true
						for _, in2 := range x.Instrs {
							if call, isC := in2.(*ssa.Call); isC {
								if cal := call.Call.StaticCallee(); cal != nil && fnPkgPath(cal) == "time" && cal.Name() == "Reset" {
									return
								}
							}
							if in2 == ssa.Instruction(sel) {
								ok, why = false, "a run can end without re-arming the one-shot timer (e.g. after a partial batch): the job never wakes up again and what it should reclaim stays behind"
								return
							}
						}
						for _, s2 := range x.Succs {
							walk(s2)
						}
					}
					walk(entry)
				}
			}
		}
		r.Check("C15.4", "C15.4:loop-keeps-waking@"+k, fn.Pos(), ok, "periodic ticker (or timer re-armed on every path)", why)
	}
}

// effReturns: the returns of fn, and — where fn returns the result of a private helper (`return createSaveError(err)`)
// — the helper's returns as well (they decide what fn answers).
func effReturns(c *Ctx, fn *ssa.Function, depth int) []*ssa.Return {
	out := returnsOf(fn)
	if depth > 2 {
		return out
	}
	for _, ret := range returnsOf(fn) {
		if len(ret.Results) == 0 {
			continue
		}
		call, ok := retLast(ret).(*ssa.Call)
		if !ok {
			continue
		}
		h := call.Call.StaticCallee()
		if h == nil || len(h.Blocks) == 0 || h.Object() == nil || h.Object().Exported() || !c.inModule(h) || c.EntShape().isGenerated(h) {
			continue
		}
		out = append(out, effReturns(c, h, depth+1)...)
	}
	return out
}

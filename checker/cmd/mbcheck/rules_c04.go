package main

import (
	"fmt"
	"go/token"
	"strings"

	"golang.org/x/tools/go/ssa"
)

// ---------------------------------------------------------------------------
// C04 redelivery lease

func leaseUpdate(c *Ctx) *Stmt {
	for _, s := range c.findStmts(fnPullApply, "deliveries", "update") {
		if len(s.Mut("attempt_at")) > 0 {
			return s
		}
	}
	return nil
}

func ruleC04_1(c *Ctx, r *Rep) {
	s := pullSelect(c)
	if s == nil {
		r.Fail("C04.1", "C04.1:pull", token.NoPos, "pull selection not found")
		return
	}
	as := s.Find("", "attempt_at", "lte")
	r.Check("C04.1", "C04.1:attempt_at<=now@pull", s.Pos, len(as) == 1 && s.Unconditional(as[0]) && as[0].Arg != nil && sources(as[0].Arg)["call:Now"],
		"only due deliveries are selected", "the pull selection does not require attempt_at <= now on every path: a leased message is handed out again before its deadline")
	n := 0
	for _, q := range c.EntShape().Stmts {
		if q.Table != "deliveries" || q.Kind != "select" {
			continue
		}
		via := false
		for _, t := range q.Terms {
			if c.partOf(t.Call.Parent(), fnPullNext, 0) {
				via = true
			}
		}
		if !via {
			continue
		}
		n++
		bad := false
		for _, a := range q.Atoms() {
			if a.Kind == "atom" && a.Col == "attempt_at" {
				bad = true
			}
		}
		r.Check("C04.1", fmt.Sprintf("C04.1:next-attempt-lookup#%d", n), q.Pos, !bad, "the wake-up lookup sees not-yet-due rows", "the next-attempt lookup is restricted by attempt_at: a puller would not learn when the next message becomes due")
		// the lookup answers "when does the EARLIEST deadline pass": first row in ascending attempt_at order
		first := false
		for _, t := range q.Terms {
			if strings.HasPrefix(t.Name, "First") || strings.HasPrefix(t.Name, "Only") {
				first = true
			}
		}
		asc := len(q.Order) >= 1 && q.Order[0].Col == "attempt_at" && !q.Order[0].Desc
		r.Check("C04.1", fmt.Sprintf("C04.1:next-attempt-earliest#%d", n), q.Pos, !first || asc, "the wake-up lookup takes the earliest deadline",
			"the next-attempt lookup takes one row but not the one with the earliest attempt_at (ORDER BY attempt_at ASC): a blocked puller sleeps past the deadline of a message that is due again")
	}
	r.Floor("C04.1:lookup", n, 1)
}

func ruleC04_2(c *Ctx, r *Rep) {
	s := pullSelect(c)
	key := "C04.2:for-update-skip-locked@pull"
	if s == nil {
		r.Fail("C04.2", key, token.NoPos, "pull selection not found")
		return
	}
	if s.Lock == nil {
		r.Fail("C04.2", key, s.Pos, "the pull selection takes no row lock (FOR UPDATE): two concurrent pullers can be handed the same message")
		return
	}
	l := s.Lock
	okTbl := false
	for _, t := range l.Tables {
		if t == "deliveries" {
			okTbl = true
		}
	}
	// with no WithLockTables every table of the query is locked, which includes deliveries
	if len(l.Tables) == 0 {
		okTbl = true
	}
	okCond := true
	for _, cd := range l.Conds {
		b, ok := cd.V.(*ssa.BinOp)
		if !ok {
			okCond = false
			continue
		}
		isDialect := sources(b)["call:Dialect"]
		sq, _ := constString(b.Y)
		if s2, ok := constString(b.X); ok {
			sq = s2
		}
		notSqlite := (b.Op == token.NEQ && cd.Pol) || (b.Op == token.EQL && !cd.Pol)
		if !(isDialect && sq == "sqlite3" && notSqlite) {
			okCond = false
		}
	}
	r.Check("C04.2", key, l.Pos, okTbl && l.SkipLocked && !l.Share && okCond,
		"FOR UPDATE SKIP LOCKED on deliveries whenever the dialect is not SQLite",
		fmt.Sprintf("row locking of the pull selection is weakened (tables=%v skipLocked=%v share=%v dialect-only-condition=%v)", l.Tables, l.SkipLocked, l.Share, okCond))
}

func ruleC04_3(c *Ctx, r *Rep) {
	ex := r.Anchor("C04.3", fnPullExec)
	ap := r.Anchor("C04.3", fnPullApply)
	q := r.Anchor("C04.3", fnPullQuery)
	if ex == nil || ap == nil || q == nil {
		return
	}
	// same tx for select and lease
	okTx := false
	var walk func(f *ssa.Function)
	walk = func(f *ssa.Function) {
		qs := callsIn(f, false, func(cal *ssa.Function, _ ssa.CallInstruction) bool { return cal == q })
		as := callsIn(f, false, func(cal *ssa.Function, _ ssa.CallInstruction) bool { return cal == ap })
		for _, qc := range qs {
			for _, ac := range as {
				qa, aa := qc.Common().Args, ac.Common().Args
				if len(qa) >= 3 && len(aa) >= 5 && qa[2] == aa[2] && dependsOnCall(aa[4], qc.(*ssa.Call)) {
					if _, isParam := qa[2].(*ssa.Parameter); isParam {
						okTx = true
					}
				}
			}
		}
		for _, a := range f.AnonFuncs {
			walk(a)
		}
	}
	walk(ex)
	r.Check("C04.3", "C04.3:same-tx@pull", ex.Pos(), okTx, "selection and lease update run on the same transaction of one closure", "the deliveries selected under lock are not leased in the same transaction (applyResults does not receive the selecting closure's tx and result)")

	u := leaseUpdate(c)
	if u == nil {
		r.Fail("C04.3", "C04.3:lease-update", ap.Pos(), "applyResults has no per-delivery lease update")
		return
	}
	add := u.Mut("attempts", "add")
	one := false
	for _, m := range add {
		if v, ok := constInt(m.Arg); ok && v == 1 {
			one = true
		}
	}
	r.Check("C04.3", "C04.3:attempts+1", u.Pos, len(add) == 1 && one, "each delivery bumps attempts by exactly 1", "the lease update does not add exactly 1 to attempts")
	at := u.Mut("attempt_at", "set")
	idA := u.Find("", "id", "eq")
	okElem, okSrc := false, false
	if len(at) == 1 && len(idA) == 1 {
		e1 := elementLoads(idA[0].Arg)
		e2 := elementLoads(at[0].Arg)
		okElem = len(e2) > 0
		for v := range e2 {
			if !e1[v] {
				okElem = false
			}
		}
		src := sources(at[0].Arg)
		okSrc = src["field:NextAttemptAt"] && src["field:fuzzDelay"]
	}
	r.Check("C04.3", "C04.3:lease-same-element", u.Pos, okElem && okSrc, "id and new attempt_at come from the same result element",
		"the lease update pairs one delivery's id with another element's deadline (or the deadline is not NextAttemptAt+fuzz)")
	// NextAttemptAt / fuzz are computed from NextDelayFor(sub, attempts+1) and now
	st := fieldStores(ap, modPath+"/actions", "SubscriptionMessageDelivery")
	okNA := len(st["NextAttemptAt"]) > 0
	for _, s := range st["NextAttemptAt"] {
		src := sources(s.Val)
		okNA = okNA && src["call:NextDelayFor"] && src["call:Now"]
	}
	okFz := len(st["fuzzDelay"]) > 0
	for _, s := range st["fuzzDelay"] {
		okFz = okFz && sources(s.Val)["call:NextDelayFor"]
	}
	r.Check("C04.3", "C04.3:deadline←NextDelayFor", ap.Pos(), okNA && okFz, "deadline = now + backoff(sub, attempts+1) (+ jitter)", "the stored deadline does not derive from NextDelayFor and now")
	okArg := false
	for _, ci := range c.callsInOp(ap, func(cal *ssa.Function, _ ssa.CallInstruction) bool { return cal.Name() == "NextDelayFor" }) {
		a := ci.Common().Args
		if b, ok := a[1].(*ssa.BinOp); ok && b.Op == token.ADD && sources(b.X)["field:Attempts"] {
			if v, ok := constInt(b.Y); ok && v == 1 {
				okArg = true
			}
		}
	}
	r.Check("C04.3", "C04.3:backoff(attempts+1)", ap.Pos(), okArg, "", "the backoff is not computed for attempt number d.Attempts+1")
	// every appended result element is updated: the update loop ranges over (a copy of) results.Deliveries
	okRange := false
	if len(idA) == 1 {
		for v := range elementLoads(idA[0].Arg) {
			if ia, ok := v.(*ssa.IndexAddr); ok {
				if rangesAllOf(ia, "field:Deliveries") {
					okRange = true
				}
			}
		}
	}
	r.Check("C04.3", "C04.3:every-result-leased", u.Pos, okRange, "the update loop covers every delivered element", "the lease update loop does not range over (a copy of) all delivered results: a delivered message may keep its old deadline")
}

// elementLoads: IndexAddr values (slice element addresses) in the backward slice of v.
func elementLoads(v ssa.Value) map[ssa.Value]bool {
	out := map[ssa.Value]bool{}
	seen := map[ssa.Value]bool{}
	var walk func(v ssa.Value, d int)
	walk = func(v ssa.Value, d int) {
		if v == nil || seen[v] || d > 30 {
			return
		}
		seen[v] = true
		if ia, ok := v.(*ssa.IndexAddr); ok {
			out[ia] = true
			return
		}
		if in, ok := v.(ssa.Instruction); ok {
			for _, op := range in.Operands(nil) {
				if *op != nil {
					walk(*op, d+1)
				}
			}
		}
	}
	walk(v, 0)
	return out
}

// rangesAllOf: ia indexes slice S with a range-loop index bounded by len(S), and S is (a full copy of) a value whose sources include srcKey.
func rangesAllOf(ia *ssa.IndexAddr, srcKey string) bool {
	s := ia.X
	okSrc := false
	if u, ok := s.(*ssa.UnOp); ok && u.Op == token.MUL {
		if fa, ok := u.X.(*ssa.FieldAddr); ok && "field:"+fieldName(fa.X.Type(), fa.Field) == srcKey {
			okSrc = true
		}
	}
	if !okSrc {
		// copy(dst, src)
		if refs := s.Referrers(); refs != nil {
			for _, in := range *refs {
				if call, ok := in.(*ssa.Call); ok {
					if b, ok := call.Call.Value.(*ssa.Builtin); ok && b.Name() == "copy" && call.Call.Args[0] == s && sources(call.Call.Args[1])[srcKey] {
						// dst was made with len(src)
						if mk, ok := s.(*ssa.MakeSlice); ok && sources(mk.Len)[srcKey] {
							okSrc = true
						}
					}
				}
			}
		}
	}
	if !okSrc {
		// a whole copy made in one call: slices.Clone(src), append([]T(nil), src...)
		isField := func(v ssa.Value) bool {
			if u, ok := resolve(v).(*ssa.UnOp); ok && u.Op == token.MUL {
				if fa, ok := u.X.(*ssa.FieldAddr); ok && "field:"+fieldName(fa.X.Type(), fa.Field) == srcKey {
					return true
				}
			}
			return false
		}
		if call, ok := s.(*ssa.Call); ok {
			if cal := call.Call.StaticCallee(); cal != nil && fnPkgPath(cal) == "slices" && strings.HasPrefix(cal.Name(), "Clone") && len(call.Call.Args) == 1 && isField(call.Call.Args[0]) {
				okSrc = true
			}
			if bi, isB := call.Call.Value.(*ssa.Builtin); isB && bi.Name() == "append" && len(call.Call.Args) == 2 && isField(call.Call.Args[1]) {
				if k, isK := call.Call.Args[0].(*ssa.Const); isK && k.Value == nil {
					okSrc = true
				}
			}
		}
	}
	if !okSrc {
		return false
	}
	// index is t+1 of a phi starting at -1, bounded by len(s)
	b, ok := ia.Index.(*ssa.BinOp)
	if !ok || b.Op != token.ADD {
		return false
	}
	if _, isPhi := b.X.(*ssa.Phi); !isPhi {
		return false
	}
	refs := b.Referrers()
	if refs == nil {
		return false
	}
	for _, in := range *refs {
		if cmp, ok := in.(*ssa.BinOp); ok && cmp.Op == token.LSS && cmp.X == ssa.Value(b) {
			if l, ok := cmp.Y.(*ssa.Call); ok {
				if bi, ok := l.Call.Value.(*ssa.Builtin); ok && bi.Name() == "len" && l.Call.Args[0] == s {
					return true
				}
			}
		}
	}
	return false
}

func ruleC04_4(c *Ctx, r *Rep) {
	fn := r.Anchor("C04.4", fnDelay)
	if fn == nil {
		return
	}
	ups := c.findStmts(fnDelay, "deliveries", "update")
	if len(ups) != 1 {
		r.Fail("C04.4", "C04.4:update@"+fnDelay, fn.Pos(), fmt.Sprintf("expected one update, found %d", len(ups)))
		return
	}
	u := ups[0]
	set := u.Mut("attempt_at", "set")
	guard := u.Find("", "attempt_at", "lt", "lte")
	ok := len(set) == 1 && len(guard) == 1 && valKey(guard[0].Arg) == valKey(set[0].Arg)
	msg := "modify-deadline with a positive value can move attempt_at EARLIER (no `attempt_at < new value` guard over the same value as SetAttemptAt)"
	if ok {
		// the guard may be absent only on paths dominated by Delay <= 0
		for _, cd := range guard[0].Conds {
			b, isB := cd.V.(*ssa.BinOp)
			if !isB || !sources(b)["field:Delay"] {
				continue
			}
			z, isZ := constInt(b.Y)
			if !isZ || z != 0 {
				ok, msg = false, "the postpone-only guard is skipped under a condition other than Delay <= 0"
				continue
			}
			nonPos := (b.Op == token.LEQ && !cd.Pol) || (b.Op == token.GTR && cd.Pol)
			if !nonPos {
				ok, msg = false, "the postpone-only guard is skipped for some positive delays ("+valKey(cd.V)+")"
			}
		}
		for _, cd := range guard[0].Conds {
			if !sources(cd.V)["field:Delay"] {
				ok, msg = false, "the postpone-only guard depends on a condition unrelated to the delay"
			}
		}
	}
	r.Check("C04.4", "C04.4:postpone-only@"+fnDelay, u.Pos, ok, "positive delays only move attempt_at later (guard over the same value as the setter, skipped only for Delay <= 0)", msg)
}

func ruleC04_5(c *Ctx, r *Rep) {
	fn := r.Anchor("C04.5", fnNack)
	if fn == nil {
		return
	}
	var u *Stmt
	for _, s := range c.findStmts(fnNack, "deliveries", "update") {
		if len(s.Mut("attempt_at")) > 0 {
			u = s
		}
	}
	if u == nil {
		r.Fail("C04.5", "C04.5:reschedule@"+fnNack, fn.Pos(), "nack does not reschedule attempt_at")
		return
	}
	m := u.Mut("attempt_at", "set")[0]
	src := sources(m.Arg)
	// the delay is computed for THIS delivery: now.Add(<result of NextDelayFor(sub, d.Attempts)>) where d is the row being updated
	okArg := false
	why := "nack's new attempt_at does not derive from now and NextDelayFor(sub, d.Attempts)"
	if add, isAdd := resolve(m.Arg).(*ssa.Call); isAdd && add.Call.StaticCallee() != nil && add.Call.StaticCallee().Name() == "Add" && len(add.Call.Args) == 2 {
		if ex, isEx := strip(add.Call.Args[1]).(*ssa.Extract); isEx {
			if nd, isCall := ex.Tuple.(*ssa.Call); isCall && nd.Call.StaticCallee() != nil && nd.Call.StaticCallee().Name() == "NextDelayFor" {
				e1 := elementLoads(nd.Call.Args[1])
				e2 := elementLoads(u.RootArg)
				same := false
				for v := range e1 {
					if e2[v] {
						same = true
					}
				}
				// the loop body may have been moved into a helper taking the row as a parameter: then both are that parameter
				if !same {
					root := func(v ssa.Value) ssa.Value {
						v = resolve(v)
						for i := 0; i < 6; i++ {
							switch x := v.(type) {
							case *ssa.UnOp:
								v = resolve(x.X)
								continue
							case *ssa.FieldAddr:
								v = resolve(x.X)
								continue
							}
							break
						}
						return v
					}
					if p1, ok1 := root(nd.Call.Args[1]).(*ssa.Parameter); ok1 {
						if p2, ok2 := root(u.RootArg).(*ssa.Parameter); ok2 && p1 == p2 {
							same = true
						}
					}
				}
				if same && sources(nd.Call.Args[1])["field:Attempts"] {
					okArg = true
				} else {
					why = "the backoff is not computed from the attempt count of the delivery being rescheduled"
				}
			}
		} else {
			why = "the reschedule delay is not the direct result of NextDelayFor for this delivery (e.g. it is cached per subscription): deliveries with different attempt counts get each other's backoff"
		}
	}
	r.Check("C04.5", "C04.5:reschedule@"+fnNack, m.Pos, src["call:NextDelayFor"] && src["call:Now"] && okArg, "nack reschedules by now + backoff(sub, attempts of this delivery)", why)
}

func ruleC04_6(c *Ctx, r *Rep) {
	ap := r.Anchor("C04.6", fnPullApply)
	if ap == nil {
		return
	}
	st := fieldStores(ap, modPath+"/actions", "SubscriptionMessageDelivery")
	ok := len(st["NumAttempts"]) > 0
	for _, s := range st["NumAttempts"] {
		b, isB := s.Val.(*ssa.BinOp)
		if !isB || b.Op != token.ADD || !sources(b.X)["field:Attempts"] {
			ok = false
			continue
		}
		if v, isC := constInt(b.Y); !isC || v != 1 {
			ok = false
		}
	}
	r.Check("C04.6", "C04.6:NumAttempts=attempts+1", ap.Pos(), ok, "reported attempt = stored attempts + 1", "the reported delivery attempt is not d.Attempts + 1")
	if fn := r.Anchor("C04.6", "services.entDeliveryToGrpc"); fn != nil {
		rm := fieldStores(fn, pbPkg, "ReceivedMessage")
		checkDeps(c, r, "C04.6", "entDeliveryToGrpc", fn, rm, []depSpec{{"DeliveryAttempt", []string{"field:NumAttempts"}, []string{"field:ID", "field:MessageID"}}})
	}
}

// ---------------------------------------------------------------------------
// C05 ordered delivery

func predecessorLookup(c *Ctx) *Stmt {
	for _, s := range c.findStmts(fnDeliver, "deliveries", "select") {
		return s
	}
	return nil
}

// fieldOfParamOf: v reads field `field` of (something reached from) a parameter of fn — directly, or inside a private
// helper whose corresponding parameter is bound, at its only call site, to a parameter of fn.
func fieldOfParamOf(v ssa.Value, fn *ssa.Function, field string) bool {
	v = resolve(v)
	// the value itself may be a parameter of a private helper (`lastOrderedDelivery(…, *m.OrderKey, …)`), possibly
	// captured by a closure there: continue with the argument of its only call site
	for i := 0; i < 4; i++ {
		if fv, isFV := v.(*ssa.FreeVar); isFV {
			if b := freeVarBinding(fv); b != nil {
				v = resolve(b)
				continue
			}
		}
		if p, isP := v.(*ssa.Parameter); isP && p.Parent() != fn {
			if a := uniqueCallerArg(p); a != nil {
				v = resolve(a)
				continue
			}
		}
		break
	}
	// *x.Field, possibly behind a pointer load (**x.Field for a *string field)
	for i := 0; i < 3; i++ {
		u, ok := v.(*ssa.UnOp)
		if !ok || u.Op != token.MUL {
			return false
		}
		if fa, ok := u.X.(*ssa.FieldAddr); ok {
			if fieldName(fa.X.Type(), fa.Field) != field {
				return false
			}
			base := resolve(fa.X)
			for j := 0; j < 4; j++ {
				p, isP := base.(*ssa.Parameter)
				if !isP {
					return false
				}
				if p.Parent() == fn {
					return true
				}
				a := uniqueCallerArg(p)
				if a == nil {
					return false
				}
				base = resolve(a)
			}
			return false
		}
		v = resolve(u.X)
	}
	return false
}

func ruleC05_1_2(c *Ctx, r *Rep) {
	fn := r.Anchor("C05.1", fnDeliver)
	if fn == nil {
		return
	}
	s := predecessorLookup(c)
	if s == nil {
		r.Fail("C05.1", "C05.1:lookup@"+fnDeliver, fn.Pos(), "no predecessor lookup in deliverToSubscription")
		return
	}
	if unk, note := s.HasUnknownPred(); unk || len(s.Unknown) > 0 {
		r.Undecided("C05.2", "C05.2:lookup@"+fnDeliver, s.Pos, "predecessor lookup not interpretable: "+note+strings.Join(s.Unknown, ";"))
		return
	}
	// find the join to messages and its alias
	alias := ""
	joinOK := false
	for _, p := range s.Atoms() {
		if p.Kind == "join" && p.Tbl2 == "messages" && len(p.Kids) == 1 {
			k := p.Kids[0]
			alias = p.Tbl
			if k.Kind == "atom" && k.Op == "ceq" && ((k.Tbl == "" && k.Col == "message_id" && k.Tbl2 == alias && k.Col2 == "id") || (k.Tbl2 == "" && k.Col2 == "message_id" && k.Tbl == alias && k.Col == "id")) {
				joinOK = true
			}
		}
	}
	keyAtoms := s.Find(alias, "order_key", "eq")
	ok1 := joinOK && len(keyAtoms) == 1 && keyAtoms[0].Arg != nil && sources(keyAtoms[0].Arg)["field:OrderKey"] && fieldOfParamOf(keyAtoms[0].Arg, fn, "OrderKey")
	// alternatively chaining may be unconditional on the key (then any predecessor is fine)
	nb := notBeforeMut(c)
	unconditionalChain := nb != nil && !condsMention(nb.Conds, "field:OrderKey")
	r.Check("C05.1", "C05.1:same-key@"+fnDeliver, s.Pos, ok1 || unconditionalChain, "the predecessor is the latest delivery of the SAME ordering key (join messages on message_id, order_key = m.OrderKey)",
		"the predecessor lookup is not restricted to deliveries of messages with the same ordering key: an un-keyed or other-key message in between breaks the chain")

	// C05.2 exact shape of the lookup
	need := []ap{{col: "subscription_id", ops: []string{"edgeof"}}, {col: "expires_at", ops: []string{"gt"}}}
	allow := []ap{{kind: "join"}, {tbl: alias, col: "topic_id", ops: []string{"eq"}}, {tbl: alias, col: "order_key", ops: []string{"eq"}}}
	miss, extra, m := c.matchAtoms(s.Where, need, allow)
	ok2 := len(miss) == 0 && len(extra) == 0
	msg := ""
	if len(miss) > 0 {
		msg = "predecessor lookup lacks " + strings.Join(miss, ", ")
	}
	if len(extra) > 0 {
		msg = "predecessor lookup has an extra restricting atom " + c.predString(extra[0]) + ": a still-relevant earlier delivery (e.g. completed but revivable by seek, or not yet due) would not be chained"
	}
	if ok2 {
		e := m[need[0].String()]
		if _, isParam := resolve(e.Arg).(*ssa.Parameter); !isParam || s.Edge != "Deliveries" || s.FromEnt != "Subscription" {
			ok2, msg = false, "lookup is not rooted at the target subscription's deliveries: edge="+s.Edge+" from="+s.FromEnt+" arg="+valKey(e.Arg)
		}
		x := m[need[1].String()]
		if _, isParam := resolve(x.Arg).(*ssa.Parameter); !isParam {
			ok2, msg = false, "expires_at is not compared with the publish time `now`"
		}
	}
	okOrder := len(s.Order) == 1 && s.Order[0].Col == "published_at" && s.Order[0].Desc
	okTerm := len(s.Terms) == 1 && (s.Terms[0].Name == "First")
	if ok2 && !okOrder {
		ok2, msg = false, "lookup is not ORDER BY published_at DESC: the predecessor is not the most recent earlier delivery"
	}
	if ok2 && !okTerm {
		ok2, msg = false, "lookup does not take the First row"
	}
	r.Check("C05.2", "C05.2:lookup-shape@"+fnDeliver, s.Pos, ok2, "latest non-expired delivery of this subscription", msg)
}

func notBeforeMut(c *Ctx) *Mut {
	for _, s := range c.EntShape().Stmts {
		if s.Table == "deliveries" && s.Kind == "create" && c.Owner(s) == fnDeliver {
			for _, m := range s.Mut("not_before_id") {
				return m
			}
		}
	}
	return nil
}

func condsMention(cs []Cond, key string) bool {
	for _, cd := range cs {
		if sources(cd.V)[key] {
			return true
		}
	}
	return false
}

func ruleC05_3(c *Ctx, r *Rep) {
	fn := r.Anchor("C05.3", fnDeliver)
	if fn == nil {
		return
	}
	s := predecessorLookup(c)
	nb := notBeforeMut(c)
	if s == nil || nb == nil || len(s.Terms) != 1 {
		r.Fail("C05.3", "C05.3:chain@"+fnDeliver, fn.Pos(), "a created delivery is never linked to its predecessor (no SetNotBefore fed by the lookup)")
		return
	}
	term := s.Terms[0].Call
	okArg := dependsOnCall(nb.Arg, term)
	// conditions of the link: only the lookup's success, the key tests and OrderedDelivery
	okConds := true
	bad := ""
	var createStmt *Stmt
	for _, st := range c.EntShape().Stmts {
		if st.Table == "deliveries" && st.Kind == "create" && c.Owner(st) == fnDeliver && len(st.Mut("not_before_id")) > 0 {
			createStmt = st
			break
		}
	}
	linkConds := nb.Conds
	if createStmt != nil {
		linkConds = createStmt.condsBeyondRoot(nb.Conds)
	}
	for _, cd := range linkConds {
		src := sources(cd.V)
		switch {
		case dependsOnCall(cd.V, term):
		case src["field:OrderKey"], src["field:OrderedDelivery"]:
		default:
			okConds, bad = false, valKey(cd.V)
		}
	}
	r.Check("C05.3", "C05.3:chain@"+fnDeliver, nb.Pos, okArg && okConds, "SetNotBefore(lookup result) whenever ordered ∧ keyed ∧ found", "the predecessor link is not the lookup's result or is skipped under an extra condition "+bad)
	// an error other than not-found is returned
	okErr := false
	for _, ret := range returnsOf(fn) {
		if !returnsNilError(ret) && dependsOnCall(retLast(ret), term) {
			okErr = true
		}
	}
	r.Check("C05.3", "C05.3:lookup-error@"+fnDeliver, s.Pos, okErr, "lookup errors other than not-found are returned", "a failing predecessor lookup is ignored: the delivery would be created without its ordering link")
}

func ruleC05_4(c *Ctx, r *Rep) {
	if r.Anchor("C05.4", fnPullBuild) == nil {
		return
	}
	n := 0
	for _, s := range c.EntShape().Stmts {
		if s.Table != "deliveries" || s.Kind != "select" || c.Owner(s) != fnPullBuild {
			continue
		}
		n++
		via := "?"
		if len(s.Terms) > 0 {
			via = c.Key(top(s.Terms[0].Call.Parent()))
		}
		key := fmt.Sprintf("C05.4:gate@%s#%d", via, n)
		var join, or *Pred
		for _, p := range s.Atoms() {
			if p.Kind == "join" && p.Tbl2 == "deliveries" {
				join = p
			}
			if p.Kind == "or" {
				or = p
			}
		}
		if join == nil || or == nil {
			r.Fail("C05.4", key, s.Pos, "the ordering gate (LEFT JOIN predecessor + eligibility disjunction) is missing from a pull-side query")
			continue
		}
		al := join.Tbl
		okJoin := join.Join == "leftjoin" && len(join.Kids) == 1 && join.Kids[0].Kind == "atom" && join.Kids[0].Op == "ceq" &&
			((join.Kids[0].Tbl == "" && join.Kids[0].Col == "not_before_id" && join.Kids[0].Tbl2 == al && join.Kids[0].Col2 == "id") ||
				(join.Kids[0].Tbl2 == "" && join.Kids[0].Col2 == "not_before_id" && join.Kids[0].Tbl == al && join.Kids[0].Col == "id"))
		want := []ap{{col: "not_before_id", ops: []string{"isnull"}}, {tbl: al, col: "completed_at", ops: []string{"notnull"}}, {tbl: al, col: "expires_at", ops: []string{"lte", "lt"}}}
		used := map[*Pred]bool{}
		okOr := len(or.Kids) == len(want)
		for _, w := range want {
			f := false
			for _, k := range or.Kids {
				if !used[k] && w.match(k) {
					used[k], f = true, true
					break
				}
			}
			if !f {
				okOr = false
			}
		}
		okCond := false
		for _, cd := range or.Conds {
			if isOrderedCond(cd) {
				okCond = true
			}
		}
		for _, cd := range or.Conds {
			if !isOrderedCond(cd) {
				okCond = false
			}
		}
		r.Check("C05.4", key, or.Pos, okJoin && okOr && okCond, "gate = no predecessor ∨ predecessor completed ∨ predecessor expired, for ordered subscriptions",
			"the ordering gate is not exactly {no predecessor, predecessor completed, predecessor expired} under sub.OrderedDelivery: got "+c.predString(or)+" / "+c.predString(join)+condString(or.Conds))
	}
	r.Floor("C05.4", n, 2)
}

// ---------------------------------------------------------------------------
// C06 dead-lettering

func ruleC06_1(c *Ctx, r *Rep) {
	dl := r.Anchor("C06.1", fnDeadLetter)
	if dl == nil {
		return
	}
	n := 0
	r.noValueUse(c, "C06.1", dl)
	for _, ci := range c.callersOf(dl) {
		n++
		for _, ow := range c.effectiveOwners(ci.Parent(), 0) {
			o := c.Key(ow)
			r.Check("C06.1", "C06.1:caller:"+o, ci.Pos(), in(o, fnPullApply, fnNack, fnDLSweep), "", "deadLetterDelivery is called from "+o+", which is not pull / nack / sweep")
		}
	}
	r.Floor("C06.1", n, 2)
}

// triggerOK: the call is dominated by HasFullDeadLetterConfig() true and Attempts >= *MaxDeliveryAttempts true.
func triggerOK(call ssa.CallInstruction) (bool, string) {
	cs := edgeConds(call.Block())
	hasCfg := condHas(cs, true, func(v ssa.Value) bool { return sources(v)["call:HasFullDeadLetterConfig"] })
	hasCmp := false
	why := ""
	for _, cd := range cs {
		b, ok := cd.V.(*ssa.BinOp)
		if !ok {
			continue
		}
		// operands in linear form: <stored value> + constant (so that `attempts+1 > max` is read as `attempts >= max`)
		bx, kx, okx := linearOf(b.X)
		by, ky, oky := linearOf(b.Y)
		sx, sy := sources(bx), sources(by)
		rel := sx["field:Attempts"] && sy["field:MaxDeliveryAttempts"] || sy["field:Attempts"] && sx["field:MaxDeliveryAttempts"]
		if !rel {
			continue
		}
		if !okx || !oky || hasArith(bx, 0) || hasArith(by, 0) {
			why = "the comparison is not between the stored attempt count and the configured limit themselves (an operand is computed): the message is forwarded one delivery early or late"
			continue
		}
		// normalise to  attempts OP limit + d  on the taken branch
		op, d := b.Op, ky-kx
		if sy["field:Attempts"] && sx["field:MaxDeliveryAttempts"] {
			// limit + kx OP attempts + ky  ⇔  attempts OP' limit + (kx - ky)
			d = kx - ky
			switch op {
			case token.LEQ:
				op = token.GEQ
			case token.LSS:
				op = token.GTR
			case token.GEQ:
				op = token.LEQ
			case token.GTR:
				op = token.LSS
			}
		}
		if !cd.Pol {
			switch op {
			case token.LSS:
				op = token.GEQ
			case token.LEQ:
				op = token.GTR
			case token.GEQ:
				op = token.LSS
			case token.GTR:
				op = token.LEQ
			}
		}
		if op == token.GEQ && d == 0 || op == token.GTR && d == -1 {
			hasCmp = true
		} else {
			why = fmt.Sprintf("the taken branch means attempts %s limit%+d, not attempts >= limit: the message is forwarded one delivery early or late", op, d)
		}
	}
	if !hasCfg {
		why = "not guarded by HasFullDeadLetterConfig()"
	}
	return hasCfg && hasCmp, why
}

func ruleC06_2(c *Ctx, r *Rep) {
	dl := c.Fn(fnDeadLetter)
	if dl == nil {
		r.Anchor("C06.2", fnDeadLetter)
		return
	}
	for _, fk := range []string{fnPullApply, fnNack} {
		fn := r.Anchor("C06.2", fk)
		if fn == nil {
			continue
		}
		calls := callsIn(c.opFuncWhere(fn, hasCallTo(dl)), false, func(cal *ssa.Function, _ ssa.CallInstruction) bool { return cal == dl })
		if len(calls) == 0 {
			r.Fail("C06.2", "C06.2:trigger@"+fk, fn.Pos(), "this path no longer dead-letters: a message past its attempt limit keeps being delivered")
			continue
		}
		for _, ci := range calls {
			ok, why := triggerOK(ci)
			r.Check("C06.2", "C06.2:trigger@"+fk, ci.Pos(), ok, "dead-letter iff full config ∧ attempts >= max_delivery_attempts", "dead-letter trigger is not `HasFullDeadLetterConfig() && attempts >= *MaxDeliveryAttempts`: "+why)
		}
	}
	// HasFullDeadLetterConfig itself
	if h := r.Anchor("C06.2", "(*ent.Subscription).HasFullDeadLetterConfig"); h != nil {
		// every path on which the result can be true has established all three facts (as branch conditions on the
		// way, or as the returned comparison itself)
		names := []string{"MaxDeliveryAttempts!=nil", "DeadLetterTopicID!=nil", "MaxDeliveryAttempts>0"}
		fact := func(cd Cond) string {
			nc := normCond(cd.V, cd.Pol)
			bo, ok := nc.V.(*ssa.BinOp)
			if !ok {
				return ""
			}
			src := sources(bo)
			nonNil := isNilConst(bo.Y) && (bo.Op == token.NEQ && nc.Pol || bo.Op == token.EQL && !nc.Pol)
			if nonNil && src["field:MaxDeliveryAttempts"] {
				return names[0]
			}
			if nonNil && src["field:DeadLetterTopicID"] {
				return names[1]
			}
			if z, isC := constInt(bo.Y); isC && z == 0 && src["field:MaxDeliveryAttempts"] && (bo.Op == token.GTR && nc.Pol || bo.Op == token.LEQ && !nc.Pol) {
				return names[2]
			}
			if o, isC := constInt(bo.Y); isC && o == 1 && src["field:MaxDeliveryAttempts"] && (bo.Op == token.GEQ && nc.Pol || bo.Op == token.LSS && !nc.Pol) {
				return names[2]
			}
			return ""
		}
		missing := map[string]bool{}
		npaths := 0
		for _, ret := range returnsOf(h) {
			rv := retResult(ret, 0)
			if k, isK := rv.(*ssa.Const); isK && k.Value != nil && k.Value.String() == "false" {
				continue
			}
			pathsToRaw(h, ret.Block(), func(cs []Cond) {
				all := append([]Cond{}, cs...)
				if _, isK := rv.(*ssa.Const); !isK {
					rc := Cond{rv, true}
					all = append(all, rc)
					all = append(all, expandBoolPhi(rc, 0)...)
				}
				// a phi result narrows which path was taken; only keep paths consistent with it is not needed: extra
				// facts can only help
				npaths++
				got := map[string]bool{}
				for _, cd := range all {
					if f := fact(cd); f != "" {
						got[f] = true
					}
				}
				for _, n := range names {
					if !got[n] {
						missing[n] = true
					}
				}
			})
		}
		var miss []string
		for _, n := range names {
			if missing[n] {
				miss = append(miss, n)
			}
		}
		r.Check("C06.2", "C06.2:HasFullDeadLetterConfig", h.Pos(), npaths > 0 && len(miss) == 0, "requires max attempts set and > 0 and a dead-letter topic", "HasFullDeadLetterConfig can be true without "+strings.Join(miss, ", "))
	}
	// sweep selection
	if fn := r.Anchor("C06.2", fnDLSweep); fn != nil {
		sel := c.findStmts(fnDLSweep, "deliveries", "select")
		if len(sel) != 1 {
			r.Fail("C06.2", "C06.2:sweep-select", fn.Pos(), fmt.Sprintf("expected one selection in the sweep, found %d", len(sel)))
		} else {
			s := sel[0]
			al := ""
			okJoin := false
			for _, p := range s.Atoms() {
				if p.Kind == "join" && p.Tbl2 == "subscriptions" && p.Join == "join" && len(p.Kids) == 1 {
					al = p.Tbl
					k := p.Kids[0]
					if k.Op == "ceq" && ((k.Tbl == "" && k.Col == "subscription_id" && k.Tbl2 == al && k.Col2 == "id") || (k.Tbl2 == "" && k.Col2 == "subscription_id" && k.Tbl == al && k.Col == "id")) {
						okJoin = true
					}
				}
			}
			need := []ap{
				{col: "completed_at", ops: []string{"isnull"}}, {col: "expires_at", ops: []string{"gt"}}, {col: "attempt_at", ops: []string{"lte"}},
				{tbl: al, col: "deleted_at", ops: []string{"isnull"}}, {tbl: al, col: "max_delivery_attempts", ops: []string{"gt"}},
				{tbl: al, col: "dead_letter_topic_id", ops: []string{"notnull"}}, {col: "attempts", ops: []string{"cgte"}},
			}
			miss, _, m := c.matchAtoms(s.Where, need, nil)
			ok := okJoin && len(miss) == 0
			if ok {
				a := m[need[6].String()]
				ok = a.Tbl2 == al && a.Col2 == "max_delivery_attempts"
				if z, isC := constInt(m[need[4].String()].Arg); !isC || z != 0 {
					ok = false
				}
			}
			if unk, _ := s.HasUnknownPred(); unk {
				ok = false
			}
			r.Check("C06.2", "C06.2:sweep-select", s.Pos, ok, "sweep selects outstanding, due deliveries past the limit of live subscriptions with a full policy",
				"sweep selection lacks "+strings.Join(miss, ", ")+fmt.Sprintf(" (join on subscription_id=%v); got %s", okJoin, c.predsString(s.Where)))
		}
	}
}

// conjunctionOnly: a bool function whose true result requires every If on the way to be taken on its true edge
// (i.e. the function is a && chain): every Return of a non-false value is reached only through true edges.
func conjunctionOnly(fn *ssa.Function) bool {
	for _, b := range fn.Blocks {
		for _, in := range b.Instrs {
			ph, ok := in.(*ssa.Phi)
			if !ok {
				continue
			}
			// result phi of a && chain: every edge coming from a short-circuit exit is the constant false
			for i, e := range ph.Edges {
				if c, ok := e.(*ssa.Const); ok {
					if c.Value != nil && c.Value.String() == "true" {
						_ = i
						return false
					}
				}
			}
		}
	}
	return true
}

func ruleC06_3(c *Ctx, r *Rep) {
	dl := c.Fn(fnDeadLetter)
	if dl == nil {
		r.Anchor("C06.3", fnDeadLetter)
		return
	}
	// pull: after a successful dead-letter call the append to results must not be reachable in the same iteration
	if ap := r.Anchor("C06.3", fnPullApply); ap != nil {
		ap = c.opFuncWhere(ap, hasCallTo(dl))
		for _, ci := range callsIn(ap, false, func(cal *ssa.Function, _ ssa.CallInstruction) bool { return cal == dl }) {
			l := innermostLoop(loopsOf(ap), ci.Block())
			ok := l != nil
			if ok {
				avoid := map[*ssa.BasicBlock]bool{l.Header: true}
				reach := reachableFrom(ci.Block().Succs, avoid)
				for b := range reach {
					if !l.Blocks[b] {
						continue
					}
					for _, in := range b.Instrs {
						if st, isSt := in.(*ssa.Store); isSt {
							if fa, isFA := st.Addr.(*ssa.FieldAddr); isFA && fieldName(fa.X.Type(), fa.Field) == "Deliveries" {
								ok = false
							}
						}
					}
				}
			}
			r.Check("C06.3", "C06.3:either-or@"+fnPullApply, ci.Pos(), ok, "a dead-lettered delivery is not also returned to the puller", "after dead-lettering a delivery the same iteration can still append it to the pull results: the message is both forwarded and delivered")
		}
	}
	if nk := r.Anchor("C06.3", fnNack); nk != nil {
		nk = c.opFuncWhere(nk, hasCallTo(dl))
		for _, ci := range callsIn(nk, false, func(cal *ssa.Function, _ ssa.CallInstruction) bool { return cal == dl }) {
			l := innermostLoop(loopsOf(nk), ci.Block())
			ok := l != nil
			if ok {
				avoid := map[*ssa.BasicBlock]bool{l.Header: true}
				reach := reachableFrom(ci.Block().Succs, avoid)
				for _, s := range c.findStmts(fnNack, "deliveries", "update") {
					for _, t := range s.Terms {
						if reach[t.Call.Block()] && l.Blocks[t.Call.Block()] {
							ok = false
						}
					}
				}
			} else if c.Key(nk) != fnNack {
				// the loop body was moved into a helper that handles one delivery: the rest of the helper is the rest
				// of the iteration
				ok = true
				reach := reachableFrom(ci.Block().Succs, nil)
				for _, s := range c.findStmts(fnNack, "deliveries", "update") {
					for _, t := range s.Terms {
						if t.Call.Parent() == nk && reach[t.Call.Block()] {
							ok = false
						}
					}
				}
			}
			r.Check("C06.3", "C06.3:either-or@"+fnNack, ci.Pos(), ok, "a dead-lettered delivery is not also rescheduled", "after dead-lettering a delivery the nack still reschedules it")
		}
	}
}

func ruleC06_4(c *Ctx, r *Rep) {
	dl := r.Anchor("C06.4", fnDeadLetter)
	if dl == nil {
		return
	}
	var upd *Stmt
	for _, s := range c.findStmts(fnDeadLetter, "deliveries", "update") {
		if len(s.Mut("completed_at", "set")) > 0 {
			upd = s
		}
	}
	if upd == nil || len(upd.Terms) == 0 {
		r.Fail("C06.4", "C06.4:retire@"+fnDeadLetter, dl.Pos(), "deadLetterDelivery does not complete the original delivery")
		return
	}
	idA := upd.Find("", "id", "eq")
	okID := len(idA) == 1 && strings.HasSuffix(valKey(idA[0].Arg), "data.DeliveryID")
	// ... addressed by that id and nothing else: a further guard (still due, not completed) can make the update match no
	// row without an error — the forwards are committed, the source stays outstanding and is forwarded again
	if unk, _ := upd.HasUnknownPred(); unk || len(upd.Atoms()) != 1 {
		okID = false
	}
	// the completing update dominates every nil return
	okDom := true
	for _, ret := range returnsOf(dl) {
		if returnsNilError(ret) && !instrDominates(upd.Terms[0].Call, ret) {
			okDom = false
		}
	}
	r.Check("C06.4", "C06.4:retire@"+fnDeadLetter, upd.Pos, okID && okDom && upd.OnTx, "the original delivery (data.DeliveryID) is completed on the same tx on every successful path",
		fmt.Sprintf("the source delivery is not retired on every successful path (id=data.DeliveryID:%v, dominates-success:%v, tx:%v): it stays deliverable after being forwarded / or is never retired when the dead-letter topic is gone", okID, okDom, upd.OnTx))
	// forward set: live subscriptions of the live dead-letter topic
	var tsel *Stmt
	for _, s := range c.findStmts(fnDeadLetter, "topics", "select") {
		tsel = s
	}
	okT := false
	if tsel != nil {
		miss, extra, m := c.matchAtoms(tsel.Where, []ap{{col: "id", ops: []string{"eq"}}, {col: "deleted_at", ops: []string{"isnull"}}}, nil)
		okT = len(miss) == 0 && len(extra) == 0 && strings.HasSuffix(valKey(m[(ap{col: "id", ops: []string{"eq"}}).String()].Arg), "data.DeadLetterTopicID")
		okW := false
		for _, w := range tsel.Withs {
			if w.Edge == "Subscriptions" && len(w.Nested) == 1 {
				mi, ex, _ := c.matchAtoms(w.Nested[0].Where, []ap{{col: "deleted_at", ops: []string{"isnull"}}}, nil)
				okW = len(mi) == 0 && len(ex) == 0 && len(w.Nested[0].SelCols) == 0
			}
		}
		okT = okT && okW
	}
	pos := dl.Pos()
	if tsel != nil {
		pos = tsel.Pos
	}
	r.Check("C06.4", "C06.4:forward-set@"+fnDeadLetter, pos, okT, "forward to exactly the live subscriptions of the live dead-letter topic", "the forward set is not `live subscriptions of the live topic data.DeadLetterTopicID`")
	checkDeliverLoop(c, r, "C06.4", dl, c.Fn(fnDeliver))
	// the original message is fetched whole, by id, and no message is created
	okM := false
	for _, s := range c.findStmts(fnDeadLetter, "messages", "select") {
		ida := s.Find("", "id", "eq")
		if len(ida) == 1 && strings.HasSuffix(valKey(ida[0].Arg), "data.DeliveryMessageID") && len(s.SelCols) == 0 && len(s.Unknown) == 0 {
			okM = true
		}
	}
	r.Check("C06.4", "C06.4:original-message@"+fnDeadLetter, dl.Pos(), okM, "the forwarded message is the original row, loaded whole (filters see its attributes)", "the forwarded message is not the original message row loaded whole by data.DeliveryMessageID (a partial load hides attributes from the dead-letter subscriptions' filters)")
}

func ruleC06_5(c *Ctx, r *Rep) {
	fn := r.Anchor("C06.5", fnNack)
	if fn == nil {
		return
	}
	var sel *Stmt
	for _, s := range c.findStmts(fnNack, "deliveries", "select") {
		sel = s
	}
	if sel == nil {
		r.Fail("C06.5", "C06.5:candidates@"+fnNack, fn.Pos(), "nack does not select its candidates")
		return
	}
	need := []ap{{col: "id", ops: []string{"in"}}, {col: "completed_at", ops: []string{"isnull"}}, {col: "expires_at", ops: []string{"gt"}}}
	miss, _, m := c.matchAtoms(sel.Where, need, nil)
	ok := len(miss) == 0
	for _, a := range m {
		ok = ok && sel.Unconditional(a)
	}
	r.Check("C06.5", "C06.5:candidates@"+fnNack, sel.Pos, ok, "only outstanding deliveries can be dead-lettered by a nack", "nack's candidates are not restricted to outstanding rows ("+strings.Join(miss, ", ")+" missing): a late nack forwards an already acknowledged / expired message")
	// the dead-letter data and reschedule operate on rows of that selection
	dl := c.Fn(fnDeadLetter)
	if dl != nil && len(sel.Terms) == 1 {
		for _, ci := range callsIn(fn, false, func(cal *ssa.Function, _ ssa.CallInstruction) bool { return cal == dl }) {
			r.Check("C06.5", "C06.5:from-candidates@"+fnNack, ci.Pos(), dependsOnCall(ci.Common().Args[2], sel.Terms[0].Call), "", "nack dead-letters something that is not one of its selected candidates")
			// one pass over the selected rows (each row once): the loop ranges over the select's result itself
			okLoop := false
			if l := innermostLoop(loopsOf(fn), ci.Block()); l != nil {
				for b := range l.Blocks {
					for _, in := range b.Instrs {
						if ia, isIA := in.(*ssa.IndexAddr); isIA && isResultOf(ia.X, sel.Terms[0].Call) {
							if bo, isB := ia.Index.(*ssa.BinOp); isB && bo.Op == token.ADD {
								if _, isPhi := bo.X.(*ssa.Phi); isPhi {
									okLoop = true
								}
							}
						}
					}
				}
			}
			r.Check("C06.5", "C06.5:each-candidate-once@"+fnNack, ci.Pos(), okLoop, "the nack walks its selected rows (distinct by primary key), not the requested id list", "the nack's dead-letter / reschedule loop does not range over the selected rows themselves: an id repeated in one request is processed — and forwarded — more than once")
		}
	}
}

// hasArith: the value is computed by arithmetic (not merely loaded / converted / selected) somewhere on its way.
func hasArith(v ssa.Value, d int) bool {
	if v == nil || d > 12 {
		return false
	}
	switch x := v.(type) {
	case *ssa.BinOp:
		switch x.Op {
		case token.ADD, token.SUB, token.MUL, token.QUO, token.REM, token.SHL, token.SHR:
			return true
		}
		return false
	case *ssa.UnOp:
		if x.Op == token.SUB {
			return true
		}
		return hasArith(x.X, d+1)
	case *ssa.Convert:
		return hasArith(x.X, d+1)
	case *ssa.ChangeType:
		return hasArith(x.X, d+1)
	case *ssa.Phi:
		for _, e := range x.Edges {
			if hasArith(e, d+1) {
				return true
			}
		}
	}
	return false
}

// linearOf: v = base + k for an integer constant k (through conversions); ok=false when v is computed otherwise.
func linearOf(v ssa.Value) (ssa.Value, int64, bool) {
	var k int64
	for d := 0; d < 8; d++ {
		switch x := v.(type) {
		case *ssa.Convert:
			v = x.X
			continue
		case *ssa.ChangeType:
			v = x.X
			continue
		case *ssa.BinOp:
			if x.Op == token.ADD || x.Op == token.SUB {
				if c, isK := constInt(x.Y); isK {
					if x.Op == token.ADD {
						k += c
					} else {
						k -= c
					}
					v = x.X
					continue
				}
				if c, isK := constInt(x.X); isK && x.Op == token.ADD {
					k += c
					v = x.Y
					continue
				}
			}
			return v, k, false
		}
		break
	}
	return v, k, true
}

package main

import (
	"go/token"
	"go/types"

	"golang.org/x/tools/go/ssa"
)

// K9b: path-sensitive value provenance. For a value used at an instruction, the alternatives it can have — leaf
// values with the branch conditions of the path that selects them — following, along each acyclic path from the
// function entry to the use: the phi edge the path takes, the last store into a local cell or into a field of a
// local struct, bound / single-call-site parameters, and private helpers that return the value (or a struct that
// carries it), recursively with the helper's own paths. The enumeration is bounded; ok=false when a bound was hit
// or a construct was met that the walk does not follow (the caller must then treat the question as undecided).

type provAlt struct {
	leaf  ssa.Value
	conds []Cond
	alias []ssa.Value // helper parameters the leaf was bound to on the way (the conditions may speak about them)
}

type provCtx struct {
	c      *Ctx
	budget int
	ok     bool
}

type provPath struct {
	blocks []*ssa.BasicBlock
	pred   map[*ssa.BasicBlock]*ssa.BasicBlock
	conds  []Cond
}

// pathsToInstr: acyclic paths from the entry of fn to the block of `at`.
func (pc *provCtx) pathsTo(fn *ssa.Function, target *ssa.BasicBlock, visit func(p *provPath)) {
	onPath := map[*ssa.BasicBlock]bool{}
	var blocks []*ssa.BasicBlock
	var conds []Cond
	var walk func(b, from *ssa.BasicBlock)
	preds := map[*ssa.BasicBlock]*ssa.BasicBlock{}
	walk = func(b, from *ssa.BasicBlock) {
		if pc.budget <= 0 {
			pc.ok = false
			return
		}
		if onPath[b] {
			return
		}
		pc.budget--
		onPath[b] = true
		blocks = append(blocks, b)
		preds[b] = from
		defer func() {
			onPath[b] = false
			blocks = blocks[:len(blocks)-1]
			delete(preds, b)
		}()
		if b == target {
			p := &provPath{blocks: append([]*ssa.BasicBlock{}, blocks...), pred: map[*ssa.BasicBlock]*ssa.BasicBlock{}, conds: append([]Cond{}, conds...)}
			for k, v := range preds {
				p.pred[k] = v
			}
			visit(p)
			return
		}
		if len(b.Succs) == 2 && b.Succs[0] != b.Succs[1] {
			iff := b.Instrs[len(b.Instrs)-1].(*ssa.If)
			for i, s := range b.Succs {
				conds = append(conds, normCond(iff.Cond, i == 0))
				walk(s, b)
				conds = conds[:len(conds)-1]
			}
			return
		}
		for _, s := range b.Succs {
			walk(s, b)
		}
	}
	walk(fn.Blocks[0], nil)
}

// lastStore: along path p, the last store executed before `at` whose address satisfies isAddr.
func lastStore(p *provPath, at ssa.Instruction, isAddr func(a ssa.Value) bool) *ssa.Store {
	var last *ssa.Store
	for _, b := range p.blocks {
		for _, in := range b.Instrs {
			if in == at {
				return last
			}
			if st, ok := in.(*ssa.Store); ok && isAddr(st.Addr) {
				last = st
			}
		}
	}
	return last
}

// evalOnPath: the alternatives of v, used at `at`, along path p of fn.
func (pc *provCtx) evalOnPath(fn *ssa.Function, p *provPath, at ssa.Instruction, v ssa.Value, depth int) []provAlt {
	if depth > 14 {
		pc.ok = false
		return nil
	}
	v = strip(v)
	switch x := v.(type) {
	case *ssa.Phi:
		pr := p.pred[x.Block()]
		for i, q := range x.Block().Preds {
			if q == pr && i < len(x.Edges) {
				return pc.evalOnPath(fn, p, at, x.Edges[i], depth+1)
			}
		}
		pc.ok = false
		return nil
	case *ssa.Parameter:
		if b, ok := curBind[x]; ok {
			return []provAlt{{b, nil, []ssa.Value{x}}} // a value of the caller's frame: resolved by the caller of provenanceOf
		}
		return []provAlt{{x, nil, nil}}
	case *ssa.UnOp:
		if x.Op != token.MUL {
			return []provAlt{{x, nil, nil}}
		}
		switch a := x.X.(type) {
		case *ssa.Alloc:
			if a.Parent() != fn {
				return []provAlt{{x, nil, nil}}
			}
			// whole-cell stores
			st := lastStore(p, x, func(ad ssa.Value) bool { return ad == ssa.Value(a) })
			if st == nil {
				return []provAlt{{x, nil, nil}}
			}
			return pc.evalOnPath(fn, p, st, st.Val, depth+1)
		case *ssa.FieldAddr:
			base, isAlloc := a.X.(*ssa.Alloc)
			if !isAlloc || base.Parent() != fn {
				return []provAlt{{x, nil, nil}}
			}
			fld := a.Field
			// the last store to this field of the local struct, or to the whole struct
			st := lastStore(p, x, func(ad ssa.Value) bool {
				if ad == ssa.Value(base) {
					return true
				}
				fa, ok := ad.(*ssa.FieldAddr)
				return ok && fa.X == ssa.Value(base) && fa.Field == fld
			})
			if st == nil {
				return []provAlt{{x, nil, nil}}
			}
			if st.Addr == ssa.Value(base) {
				return pc.fieldOf(fn, p, st, st.Val, fld, depth+1)
			}
			return pc.evalOnPath(fn, p, st, st.Val, depth+1)
		}
		return []provAlt{{x, nil, nil}}
	case *ssa.Field:
		return pc.fieldOf(fn, p, at, x.X, x.Field, depth+1)
	case *ssa.Extract:
		if call, ok := x.Tuple.(*ssa.Call); ok {
			if alts, ok := pc.helperResult(call, x.Index, -1, depth+1); ok {
				return alts
			}
		}
		return []provAlt{{x, nil, nil}}
	case *ssa.Call:
		if alts, ok := pc.helperResult(x, 0, -1, depth+1); ok {
			return alts
		}
		return []provAlt{{x, nil, nil}}
	}
	return []provAlt{{v, nil, nil}}
}

// fieldOf: the alternatives of field `fld` of the struct VALUE sv.
func (pc *provCtx) fieldOf(fn *ssa.Function, p *provPath, at ssa.Instruction, sv ssa.Value, fld int, depth int) []provAlt {
	if depth > 14 {
		pc.ok = false
		return nil
	}
	sv = strip(sv)
	switch x := sv.(type) {
	case *ssa.Phi:
		pr := p.pred[x.Block()]
		for i, q := range x.Block().Preds {
			if q == pr && i < len(x.Edges) {
				return pc.fieldOf(fn, p, at, x.Edges[i], fld, depth+1)
			}
		}
	case *ssa.UnOp:
		if al, ok := x.X.(*ssa.Alloc); ok && x.Op == token.MUL && al.Parent() == fn {
			st := lastStore(p, x, func(ad ssa.Value) bool {
				if ad == ssa.Value(al) {
					return true
				}
				fa, ok := ad.(*ssa.FieldAddr)
				return ok && fa.X == ssa.Value(al) && fa.Field == fld
			})
			if st == nil {
				break
			}
			if st.Addr == ssa.Value(al) {
				return pc.fieldOf(fn, p, st, st.Val, fld, depth+1)
			}
			return pc.evalOnPath(fn, p, st, st.Val, depth+1)
		}
	case *ssa.Call:
		if alts, ok := pc.helperResult(x, 0, fld, depth+1); ok {
			return alts
		}
	case *ssa.Extract:
		if call, ok := x.Tuple.(*ssa.Call); ok {
			if alts, ok := pc.helperResult(call, x.Index, fld, depth+1); ok {
				return alts
			}
		}
	}
	pc.ok = false
	return nil
}

// helperResult: result #idx (or its field fld when fld >= 0) of a call to an unexported module helper: one set of
// alternatives per path of the helper to each of its returns, parameters bound to the call's arguments.
func (pc *provCtx) helperResult(call *ssa.Call, idx, fld, depth int) ([]provAlt, bool) {
	h := call.Call.StaticCallee()
	if h == nil || len(h.Blocks) == 0 || h.Object() == nil || h.Object().Exported() || !pc.c.inModule(h) || pc.c.EntShape().isGenerated(h) {
		return nil, false
	}
	bind := map[*ssa.Parameter]ssa.Value{}
	for i, prm := range h.Params {
		if i < len(call.Call.Args) {
			bind[prm] = call.Call.Args[i]
		}
	}
	var out []provAlt
	withBindMap(bind, func() {
		for _, ret := range returnsOf(h) {
			if idx >= len(ret.Results) {
				pc.ok = false
				return
			}
			rv := retResult(ret, idx)
			pc.pathsTo(h, ret.Block(), func(p *provPath) {
				var alts []provAlt
				if fld >= 0 {
					alts = pc.fieldOf(h, p, ret, rv, fld, depth+1)
				} else {
					alts = pc.evalOnPath(h, p, ret, rv, depth+1)
				}
				for _, a := range alts {
					out = append(out, provAlt{a.leaf, append(append([]Cond{}, p.conds...), a.conds...), a.alias})
				}
			})
		}
	})
	// leaves that are the helper's parameters continue in the caller's frame
	for i := range out {
		if prm, ok := out[i].leaf.(*ssa.Parameter); ok {
			if b, has := bind[prm]; has {
				out[i].leaf = b
				out[i].alias = append(out[i].alias, prm)
			}
		}
	}
	return out, true
}

// provenanceOf: alternatives of v at its use `at` in fn (see K9b above).
func provenanceOf(c *Ctx, fn *ssa.Function, at ssa.Instruction, v ssa.Value) ([]provAlt, bool) {
	pc := &provCtx{c: c, budget: 200000, ok: true}
	var out []provAlt
	pc.pathsTo(fn, at.Block(), func(p *provPath) {
		for _, a := range pc.evalOnPath(fn, p, at, v, 0) {
			// a leaf in the caller's frame (argument of a helper call met on the way) is evaluated on this same path
			alts := []provAlt{a}
			for round := 0; round < 4; round++ {
				var next []provAlt
				changed := false
				for _, x := range alts {
					if in, isIn := x.leaf.(ssa.Instruction); isIn && in.Parent() == fn {
						switch x.leaf.(type) {
						case *ssa.Phi, *ssa.UnOp, *ssa.Field, *ssa.Extract, *ssa.Call:
							sub := pc.evalOnPath(fn, p, at, x.leaf, 1)
							if len(sub) == 1 && sub[0].leaf == x.leaf {
								next = append(next, x)
								continue
							}
							for _, s := range sub {
								next = append(next, provAlt{s.leaf, append(append([]Cond{}, x.conds...), s.conds...), append(append([]ssa.Value{}, x.alias...), s.alias...)})
							}
							changed = true
							continue
						}
					}
					next = append(next, x)
				}
				alts = next
				if !changed {
					break
				}
			}
			for _, x := range alts {
				out = append(out, provAlt{x.leaf, append(append([]Cond{}, p.conds...), x.conds...), x.alias})
			}
		}
	})
	return out, pc.ok
}

var _ = types.Typ

// provenanceOfCell: alternatives of the content of a local cell at instruction `at` of fn.
func provenanceOfCell(c *Ctx, fn *ssa.Function, at ssa.Instruction, cell ssa.Value) ([]provAlt, bool) {
	pc := &provCtx{c: c, budget: 200000, ok: true}
	var out []provAlt
	pc.pathsTo(fn, at.Block(), func(p *provPath) {
		st := lastStore(p, at, func(ad ssa.Value) bool { return ad == cell })
		if st == nil {
			out = append(out, provAlt{cell, append([]Cond{}, p.conds...), nil})
			return
		}
		for _, a := range pc.evalOnPath(fn, p, st, st.Val, 1) {
			out = append(out, provAlt{a.leaf, append(append([]Cond{}, p.conds...), a.conds...), a.alias})
		}
	})
	return out, pc.ok
}

// provenanceThroughClosures: provenanceOf, continued into the enclosing functions for leaves that are captured
// variables (by value, or the content of a captured cell as it was when the closure was made).
func provenanceThroughClosures(c *Ctx, fn *ssa.Function, at ssa.Instruction, v ssa.Value, depth int) ([]provAlt, bool) {
	alts, ok := provenanceOf(c, fn, at, v)
	if !ok || depth > 3 {
		return alts, ok
	}
	var out []provAlt
	for _, a := range alts {
		leaf := strip(a.leaf)
		var fv *ssa.FreeVar
		byRef := false
		switch x := leaf.(type) {
		case *ssa.FreeVar:
			fv = x
		case *ssa.UnOp:
			if f, isF := x.X.(*ssa.FreeVar); isF && x.Op == token.MUL {
				fv, byRef = f, true
			}
		}
		mc := (*ssa.MakeClosure)(nil)
		if fv != nil {
			mc = makeClosureOf(fv.Parent())
		}
		if mc == nil {
			out = append(out, a)
			continue
		}
		idx := -1
		for i, f := range fv.Parent().FreeVars {
			if f == fv {
				idx = i
			}
		}
		if idx < 0 || idx >= len(mc.Bindings) {
			out = append(out, a)
			continue
		}
		var sub []provAlt
		var sok bool
		if byRef {
			sub, sok = provenanceOfCell(c, mc.Parent(), mc, mc.Bindings[idx])
			// leaves of the parent that are themselves captured continue upwards
		} else {
			sub, sok = provenanceThroughClosures(c, mc.Parent(), mc, mc.Bindings[idx], depth+1)
		}
		if !sok {
			return nil, false
		}
		for _, s := range sub {
			out = append(out, provAlt{s.leaf, append(append([]Cond{}, a.conds...), s.conds...), append(append([]ssa.Value{}, a.alias...), s.alias...)})
		}
	}
	return out, true
}

package main

import (
	"go/constant"
	"go/token"
	"go/types"

	"golang.org/x/tools/go/ssa"
)

// K2 flow utilities.

// Cond is a branch condition that holds on entry to a block.
type Cond struct {
	V   ssa.Value
	Pol bool
}

// edgeConds: the If-edges that every path from the function entry to b takes
// (walks the dominator chain; a dominator with a single predecessor that ends
// in an If contributes that If's condition with the polarity of the edge).
func edgeConds(b *ssa.BasicBlock) []Cond {
	return edgeCondsD(b, 0)
}

// expandBoolPhi: a condition held in a boolean local — `ok := a && b; if ok {…}` — is a phi of constants and one
// computed edge; knowing the phi's value tells which edge was taken, hence that edge's value and the conditions of
// the block it came from.
func expandBoolPhi(c Cond, depth int) []Cond {
	phi, ok := c.V.(*ssa.Phi)
	if !ok || depth > 6 {
		return nil
	}
	if bt, isB := phi.Type().Underlying().(*types.Basic); !isB || bt.Kind() != types.Bool {
		return nil
	}
	idx := -1
	for i, e := range phi.Edges {
		if k, isK := e.(*ssa.Const); isK && k.Value != nil && k.Value.Kind() == constant.Bool && constant.BoolVal(k.Value) != c.Pol {
			continue // this edge would have given the other value
		}
		if idx >= 0 {
			return nil // more than one way to get this value
		}
		idx = i
	}
	if idx < 0 {
		return nil
	}
	var out []Cond
	if _, isK := phi.Edges[idx].(*ssa.Const); !isK {
		nc := normCond(phi.Edges[idx], c.Pol)
		out = append(out, nc)
		out = append(out, expandBoolPhi(nc, depth+1)...)
	}
	pred := phi.Block().Preds[idx]
	out = append(out, edgeCondsD(pred, depth+1)...)
	// the edge pred -> phi block itself, when pred ends in an If
	if len(pred.Instrs) > 0 {
		if iff, isIf := pred.Instrs[len(pred.Instrs)-1].(*ssa.If); isIf && len(pred.Succs) == 2 && pred.Succs[0] != pred.Succs[1] {
			nc := normCond(iff.Cond, pred.Succs[0] == phi.Block())
			out = append(out, nc)
			out = append(out, expandBoolPhi(nc, depth+1)...)
		}
	}
	return out
}

// predicateCallConds: the condition is the verdict of an unexported boolean helper — `if exhausted(d, sub) {…}`: what
// every path of the helper to that verdict has in common also holds here (conditions are over the helper's own
// values; consumers that look at sources see through its parameters when it has a single call site).
func predicateCallConds(c Cond, depth int) []Cond {
	call, ok := c.V.(*ssa.Call)
	if !ok || depth > 3 || lastCtx == nil {
		return nil
	}
	g := call.Call.StaticCallee()
	// (also an exported hand-written predicate of the module, e.g. a method on an entity: `sub.ShouldDeadLetter(n)`)
	if g == nil || len(g.Blocks) == 0 || g.Object() == nil || !lastCtx.inModule(g) || lastCtx.EntShape().isGenerated(g) {
		return nil
	}
	res := g.Signature.Results()
	if res.Len() != 1 {
		return nil
	}
	if bt, isB := res.At(0).Type().Underlying().(*types.Basic); !isB || bt.Kind() != types.Bool {
		return nil
	}
	type key struct {
		v   ssa.Value
		pol bool
	}
	var common map[key]bool
	var order []Cond
	npaths := 0
	for _, b := range g.Blocks {
		if len(b.Instrs) == 0 {
			continue
		}
		ret, isRet := b.Instrs[len(b.Instrs)-1].(*ssa.Return)
		if !isRet || len(ret.Results) != 1 {
			continue
		}
		rv := retResult(ret, 0)
		var extra []Cond
		if k, isK := rv.(*ssa.Const); isK && k.Value != nil && k.Value.Kind() == constant.Bool {
			if constant.BoolVal(k.Value) != c.Pol {
				continue
			}
		} else {
			rc := normCond(rv, c.Pol)
			extra = append(extra, rc)
			extra = append(extra, expandBoolPhi(rc, depth+1)...)
		}
		// conditions that hold on EVERY way into this return block: its dominating edge conditions
		cs := append(edgeCondsD(b, depth+1), extra...)
		npaths++
		set := map[key]bool{}
		for _, cd := range cs {
			set[key{cd.V, cd.Pol}] = true
		}
		if common == nil {
			common = set
			order = cs
		} else {
			for k := range common {
				if !set[k] {
					delete(common, k)
				}
			}
		}
	}
	if npaths == 0 {
		return nil
	}
	var out []Cond
	seen := map[key]bool{}
	for _, cd := range order {
		k := key{cd.V, cd.Pol}
		if common[k] && !seen[k] {
			seen[k] = true
			out = append(out, cd)
		}
	}
	return out
}

func edgeCondsD(b *ssa.BasicBlock, depth int) []Cond {
	var out []Cond
	for x := b; x != nil; x = x.Idom() {
		if len(x.Preds) != 1 {
			continue
		}
		p := x.Preds[0]
		if len(p.Instrs) == 0 {
			continue
		}
		if iff, ok := p.Instrs[len(p.Instrs)-1].(*ssa.If); ok {
			if p.Succs[0] == x && p.Succs[1] != x {
				nc := normCond(iff.Cond, true)
				out = append(out, nc)
				out = append(out, expandBoolPhi(nc, depth)...)
				out = append(out, predicateCallConds(nc, depth)...)
			} else if p.Succs[1] == x && p.Succs[0] != x {
				nc := normCond(iff.Cond, false)
				out = append(out, nc)
				out = append(out, expandBoolPhi(nc, depth)...)
				out = append(out, predicateCallConds(nc, depth)...)
			}
		}
	}
	return out
}

// normCond strips the spellings of a boolean test that do not change it: !x, x == true, x != false, ...
func normCond(v ssa.Value, pol bool) Cond {
	for {
		switch t := v.(type) {
		case *ssa.UnOp:
			if t.Op == token.NOT {
				v, pol = t.X, !pol
				continue
			}
		case *ssa.BinOp:
			if t.Op == token.EQL || t.Op == token.NEQ {
				x, y := t.X, t.Y
				if _, isC := x.(*ssa.Const); isC {
					x, y = y, x
				}
				if k, isC := y.(*ssa.Const); isC && k.Value != nil && k.Value.Kind() == constant.Bool {
					same := constant.BoolVal(k.Value) == (t.Op == token.EQL)
					v = x
					if !same {
						pol = !pol
					}
					continue
				}
			}
		}
		return Cond{v, pol}
	}
}

// dominates: a dominates b (reflexive).
func dominates(a, b *ssa.BasicBlock) bool {
	return a == b || a.Dominates(b)
}

// instrDominates: instruction a is executed before b on every path reaching b.
func instrDominates(a, b ssa.Instruction) bool {
	ba, bb := a.Block(), b.Block()
	if ba == bb {
		for _, in := range ba.Instrs {
			if in == a {
				return true
			}
			if in == b {
				return false
			}
		}
		return false
	}
	return ba.Dominates(bb)
}

// reachable reports whether block `to` can be reached from block `from`
// following successor edges, never entering a block in `avoid`. from==to counts
// only if a cycle leads back (startInclusive=false) or always (true).
func reachable(from, to *ssa.BasicBlock, avoid map[*ssa.BasicBlock]bool, startInclusive bool) bool {
	if startInclusive && from == to {
		return true
	}
	seen := map[*ssa.BasicBlock]bool{}
	var stack []*ssa.BasicBlock
	for _, s := range from.Succs {
		stack = append(stack, s)
	}
	for len(stack) > 0 {
		b := stack[len(stack)-1]
		stack = stack[:len(stack)-1]
		if seen[b] || avoid[b] {
			continue
		}
		seen[b] = true
		if b == to {
			return true
		}
		stack = append(stack, b.Succs...)
	}
	return false
}

// reachableEdges: like reachable but the search starts from a given set of blocks.
func reachableFrom(starts []*ssa.BasicBlock, avoid map[*ssa.BasicBlock]bool) map[*ssa.BasicBlock]bool {
	seen := map[*ssa.BasicBlock]bool{}
	stack := append([]*ssa.BasicBlock{}, starts...)
	for len(stack) > 0 {
		b := stack[len(stack)-1]
		stack = stack[:len(stack)-1]
		if seen[b] || avoid[b] {
			continue
		}
		seen[b] = true
		stack = append(stack, b.Succs...)
	}
	return seen
}

// natural loop of a header: blocks that can reach a back-edge source without leaving through the header.
type loop struct {
	Header *ssa.BasicBlock
	Blocks map[*ssa.BasicBlock]bool
}

func loopsOf(fn *ssa.Function) []*loop {
	var out []*loop
	byHeader := map[*ssa.BasicBlock]*loop{}
	for _, b := range fn.Blocks {
		for _, s := range b.Succs {
			if dominates(s, b) { // back edge b -> s
				l := byHeader[s]
				if l == nil {
					l = &loop{Header: s, Blocks: map[*ssa.BasicBlock]bool{s: true}}
					byHeader[s] = l
					out = append(out, l)
				}
				// add all blocks that reach b without passing s
				stack := []*ssa.BasicBlock{b}
				for len(stack) > 0 {
					x := stack[len(stack)-1]
					stack = stack[:len(stack)-1]
					if l.Blocks[x] {
						continue
					}
					l.Blocks[x] = true
					stack = append(stack, x.Preds...)
				}
			}
		}
	}
	return out
}

// exitEdges of a loop: (from, to) with from in loop and to outside.
func (l *loop) exitEdges() [][2]*ssa.BasicBlock {
	var out [][2]*ssa.BasicBlock
	for b := range l.Blocks {
		for _, s := range b.Succs {
			if !l.Blocks[s] {
				out = append(out, [2]*ssa.BasicBlock{b, s})
			}
		}
	}
	return out
}

// innermost loop containing block b.
func innermostLoop(ls []*loop, b *ssa.BasicBlock) *loop {
	var best *loop
	for _, l := range ls {
		if l.Blocks[b] && (best == nil || len(l.Blocks) < len(best.Blocks)) {
			best = l
		}
	}
	return best
}

// ---------------------------------------------------------------------------
// value helpers

// strip looks through conversions that do not change the value's meaning.
func strip(v ssa.Value) ssa.Value {
	for {
		switch x := v.(type) {
		case *ssa.ChangeType:
			v = x.X
		case *ssa.Convert:
			v = x.X
		case *ssa.MakeInterface:
			v = x.X
		case *ssa.ChangeInterface:
			v = x.X
		default:
			return v
		}
	}
}

func constString(v ssa.Value) (string, bool) {
	if c, ok := strip(v).(*ssa.Const); ok && c.Value != nil && c.Value.Kind() == constant.String {
		return constant.StringVal(c.Value), true
	}
	return "", false
}

func constInt(v ssa.Value) (int64, bool) {
	if c, ok := strip(v).(*ssa.Const); ok && c.Value != nil && c.Value.Kind() == constant.Int {
		i, ok := constant.Int64Val(c.Value)
		return i, ok
	}
	return 0, false
}

func isNilConst(v ssa.Value) bool {
	c, ok := v.(*ssa.Const)
	return ok && c.Value == nil
}

// allocStores: every value stored into the cell `a` (an Alloc or a FreeVar
// bound to one) anywhere in the enclosing function tree.
func allocStores(a ssa.Value) []*ssa.Store {
	root := a
	// resolve free var to the alloc in the parent
	for {
		fv, ok := root.(*ssa.FreeVar)
		if !ok {
			break
		}
		b := freeVarBinding(fv)
		if b == nil {
			break
		}
		root = b
	}
	al, ok := root.(*ssa.Alloc)
	if !ok {
		return nil
	}
	var out []*ssa.Store
	var visit func(v ssa.Value)
	seen := map[ssa.Value]bool{}
	visit = func(v ssa.Value) {
		if seen[v] {
			return
		}
		seen[v] = true
		refs := v.Referrers()
		if refs == nil {
			return
		}
		for _, in := range *refs {
			switch x := in.(type) {
			case *ssa.Store:
				if x.Addr == v {
					out = append(out, x)
				}
			case *ssa.MakeClosure:
				for i, b := range x.Bindings {
					if b == v {
						visit(x.Fn.(*ssa.Function).FreeVars[i])
					}
				}
			}
		}
	}
	visit(al)
	return out
}

// freeVarBinding: the value bound to fv at the (unique) MakeClosure of its function.
func freeVarBinding(fv *ssa.FreeVar) ssa.Value {
	fn := fv.Parent()
	par := fn.Parent()
	if par == nil {
		return nil
	}
	idx := -1
	for i, f := range fn.FreeVars {
		if f == fv {
			idx = i
		}
	}
	if idx < 0 {
		return nil
	}
	var found ssa.Value
	var walk func(p *ssa.Function)
	walk = func(p *ssa.Function) {
		for _, b := range p.Blocks {
			for _, in := range b.Instrs {
				if mc, ok := in.(*ssa.MakeClosure); ok && mc.Fn == fn {
					found = mc.Bindings[idx]
				}
			}
		}
	}
	walk(par)
	return found
}

// makeClosureOf: the MakeClosure instruction that creates fn in its parent.
func makeClosureOf(fn *ssa.Function) *ssa.MakeClosure {
	par := fn.Parent()
	if par == nil {
		return nil
	}
	for _, b := range par.Blocks {
		for _, in := range b.Instrs {
			if mc, ok := in.(*ssa.MakeClosure); ok && mc.Fn == fn {
				return mc
			}
		}
	}
	return nil
}

// curBind: while a rule inspects a statement instance of a shared private helper, the helper's parameters stand
// for the arguments of that instance's call site (set by withBind; rules run sequentially).
var curBind map[*ssa.Parameter]ssa.Value

func withBind(s *Stmt, f func()) {
	old := curBind
	if s != nil && s.Via != nil {
		curBind = s.bind
	}
	defer func() { curBind = old }()
	f()
}

// withBindMap runs f with additional parameter bindings in force (on top of the current ones).
func withBindMap(b map[*ssa.Parameter]ssa.Value, f func()) {
	old := curBind
	nb := map[*ssa.Parameter]ssa.Value{}
	for k, v := range old {
		nb[k] = v
	}
	for k, v := range b {
		nb[k] = v
	}
	curBind = nb
	defer func() { curBind = old }()
	f()
}

func keyOfFn(f *ssa.Function) string {
	if lastCtx == nil {
		return ""
	}
	return lastCtx.Key(f)
}

// valKey is a canonical textual identity for "the same value": parameters and
// field paths are named, loads are looked through (a cell that is stored once
// is replaced by the stored value), calls are identified by their instruction.
func valKey(v ssa.Value) string {
	return valKeyD(v, 0)
}

func valKeyD(v ssa.Value, d int) string {
	if v == nil {
		return "<nil>"
	}
	if d > 12 {
		return v.Name()
	}
	v = strip(v)
	switch x := v.(type) {
	case *ssa.Parameter:
		if b, ok := curBind[x]; ok {
			return valKeyD(b, d+1)
		}
		// the parameter of an unexported helper with a single call site IS that site's argument
		if a := uniqueCallerArg(x); a != nil && x.Parent().Signature.Recv() == nil || a != nil && x != x.Parent().Params[0] {
			if !namedAnchors[keyOfFn(x.Parent())] {
				return valKeyD(a, d+1)
			}
		}
		return "param:" + x.Parent().Name() + "." + x.Name()
	case *ssa.Const:
		if x.Value == nil {
			return "nil"
		}
		return "const:" + x.Value.ExactString()
	case *ssa.FreeVar:
		if b := freeVarBinding(x); b != nil {
			return valKeyD(b, d+1)
		}
		return "free:" + x.Name()
	case *ssa.FieldAddr:
		return valKeyD(x.X, d+1) + "." + fieldName(x.X.Type(), x.Field)
	case *ssa.Field:
		return valKeyD(x.X, d+1) + "." + fieldName(x.X.Type(), x.Field)
	case *ssa.UnOp:
		if x.Op == token.MUL {
			// load: through a single-store cell, take the stored value
			if _, isAlloc := x.X.(*ssa.Alloc); isAlloc {
				if st := allocStores(x.X); len(st) == 1 {
					return valKeyD(st[0].Val, d+1)
				}
			}
			if fv, isFV := x.X.(*ssa.FreeVar); isFV {
				if st := allocStores(fv); len(st) == 1 {
					return valKeyD(st[0].Val, d+1)
				}
			}
			return "*" + valKeyD(x.X, d+1)
		}
		return x.Op.String() + valKeyD(x.X, d+1)
	case *ssa.BinOp:
		return "(" + valKeyD(x.X, d+1) + " " + x.Op.String() + " " + valKeyD(x.Y, d+1) + ")"
	case *ssa.Alloc:
		return "alloc:" + x.Parent().Name() + "." + x.Name() + "#" + x.Comment
	case *ssa.Call:
		name := "?"
		if cal := x.Call.StaticCallee(); cal != nil {
			name = cal.Name()
		} else if x.Call.IsInvoke() {
			name = x.Call.Method.Name()
		}
		return "call:" + name + "@" + x.Parent().Name() + "." + x.Name()
	case *ssa.Extract:
		return valKeyD(x.Tuple, d+1) + "#" + string(rune('0'+x.Index))
	case *ssa.Global:
		return "global:" + x.Name()
	case *ssa.Function:
		return "func:" + x.Name()
	case *ssa.IndexAddr:
		return valKeyD(x.X, d+1) + "[" + valKeyD(x.Index, d+1) + "]"
	case *ssa.Slice:
		return valKeyD(x.X, d+1) + "[:]"
	}
	if v.Parent() != nil {
		return "v:" + v.Parent().Name() + "." + v.Name()
	}
	return "v:" + v.Name()
}

func fieldName(t types.Type, idx int) string {
	if p, ok := t.Underlying().(*types.Pointer); ok {
		t = p.Elem()
	}
	if s, ok := t.Underlying().(*types.Struct); ok && idx < s.NumFields() {
		return s.Field(idx).Name()
	}
	return "?"
}

// dependsOn: backward slice from v (through operands, loads of local cells,
// closure bindings); returns the set of valKeys of leaf sources and visited
// static callee names ("call:Name").
func sources(v ssa.Value) map[string]bool {
	out := map[string]bool{}
	helperDepth := 0
	seen := map[ssa.Value]bool{}
	var walk func(v ssa.Value, d int)
	walk = func(v ssa.Value, d int) {
		if v == nil || seen[v] || d > 40 {
			return
		}
		seen[v] = true
		switch x := v.(type) {
		case *ssa.Parameter:
			if b, ok := curBind[x]; ok {
				walk(b, d+1)
				return
			}
			out["param:"+x.Name()] = true
			// a parameter of an unexported helper with exactly one call site is that site's argument
			if a := uniqueCallerArg(x); a != nil && d < 30 {
				walk(a, d+1)
			}
			return
		case *ssa.Const:
			out[valKey(x)] = true
			return
		case *ssa.Global:
			out["global:"+x.Name()] = true
			return
		case *ssa.FreeVar:
			if b := freeVarBinding(x); b != nil {
				walk(b, d+1)
			} else {
				out["free:"+x.Name()] = true
			}
			return
		case *ssa.FieldAddr:
			out["field:"+fieldName(x.X.Type(), x.Field)] = true
			out["path:"+valKey(x)] = true
			walk(x.X, d+1)
			return
		case *ssa.Field:
			out["field:"+fieldName(x.X.Type(), x.Field)] = true
			out["path:"+valKey(x)] = true
			walk(x.X, d+1)
			return
		case *ssa.Alloc:
			for _, st := range allocStores(x) {
				walk(st.Val, d+1)
			}
			// stores through field addresses of the alloc (struct literals); calls that fill the cell through its address
			if refs := x.Referrers(); refs != nil {
				for _, in := range *refs {
					var filler []ssa.Instruction
					switch y := in.(type) {
					case *ssa.Call:
						filler = append(filler, y)
					case *ssa.MakeInterface:
						if r3 := y.Referrers(); r3 != nil {
							filler = append(filler, *r3...)
						}
					}
					for _, fi := range filler {
						if call, ok := fi.(*ssa.Call); ok {
							if cal := call.Call.StaticCallee(); cal != nil {
								out["call:"+cal.Name()] = true
							}
						}
					}
					if fa, ok := in.(*ssa.FieldAddr); ok {
						if r2 := fa.Referrers(); r2 != nil {
							for _, in2 := range *r2 {
								if st, ok := in2.(*ssa.Store); ok && st.Addr == fa {
									walk(st.Val, d+1)
								}
							}
						}
					}
				}
			}
			return
		case *ssa.Call:
			if cal := x.Call.StaticCallee(); cal != nil {
				out["call:"+cal.Name()] = true
				// an unexported module helper: what it returns is part of the slice (with its parameters bound to
				// this call's arguments)
				if lastCtx != nil && d < 30 && helperDepth < 3 && len(cal.Blocks) > 0 && cal.Object() != nil && (!cal.Object().Exported() || len(cal.Blocks) <= 6) && lastCtx.inModule(cal) && !lastCtx.EntShape().isGenerated(cal) {
					// (also a small exported hand-written helper, e.g. a method on an entity: `sub.ExpirationFrom(now)`)
					bind := map[*ssa.Parameter]ssa.Value{}
					for i, p := range cal.Params {
						if i < len(x.Call.Args) {
							bind[p] = x.Call.Args[i]
						}
					}
					helperDepth++
					withBindMap(bind, func() {
						for _, ret := range returnsOf(cal) {
							for i := range ret.Results {
								walk(retResult(ret, i), d+1)
							}
						}
					})
					helperDepth--
				}
			} else if x.Call.IsInvoke() {
				out["call:"+x.Call.Method.Name()] = true
			}
		}
		if in, ok := v.(ssa.Instruction); ok {
			for _, op := range in.Operands(nil) {
				if *op != nil {
					walk(*op, d+1)
				}
			}
		}
	}
	walk(v, 0)
	return out
}

// uniqueCallerArg: for a parameter of an unexported module function or method that is called from exactly one place
// (and never used as a value), the argument passed there.
var uniqueArgCache = map[*ssa.Parameter]ssa.Value{}
var uniqueArgCtx *Ctx

func uniqueCallerArg(p *ssa.Parameter) ssa.Value {
	c := lastCtx
	if c == nil {
		return nil
	}
	if uniqueArgCtx != c {
		uniqueArgCtx, uniqueArgCache = c, map[*ssa.Parameter]ssa.Value{}
	}
	if v, ok := uniqueArgCache[p]; ok {
		return v
	}
	uniqueArgCache[p] = nil
	f := p.Parent()
	if f == nil || f.Parent() != nil || f.Object() == nil || f.Object().Exported() || !c.inModule(f) || len(c.valueUses(f)) > 0 {
		return nil
	}
	cs := c.callersOf(f)
	var site ssa.CallInstruction
	n := 0
	for _, ci := range cs {
		if c.FnInControl(ci.Parent()) {
			continue
		}
		site = ci
		n++
	}
	if n != 1 {
		return nil
	}
	for i, q := range f.Params {
		if q == p && i < len(site.Common().Args) {
			uniqueArgCache[p] = site.Common().Args[i]
			return site.Common().Args[i]
		}
	}
	return nil
}

// resolve looks through conversions and loads of cells that are stored exactly once
// (closure-captured parameters and locals).
func resolve(v ssa.Value) ssa.Value {
	for i := 0; i < 20; i++ {
		v = strip(v)
		if p, isP := v.(*ssa.Parameter); isP {
			if b, ok := curBind[p]; ok {
				v = b
				continue
			}
		}
		u, ok := v.(*ssa.UnOp)
		if !ok || u.Op != token.MUL {
			return v
		}
		var cell ssa.Value = u.X
		if st := allocStores(cell); len(st) == 1 {
			v = st[0].Val
			continue
		}
		return v
	}
	return v
}

// retResult: the i-th result of a Return, looking through the defer spill
// (`*r = v; rundefers; t = *r; return t` — go/ssa's shape for functions with defers).
func retResult(ret *ssa.Return, i int) ssa.Value {
	v := ret.Results[i]
	u, ok := v.(*ssa.UnOp)
	if !ok || u.Op != token.MUL {
		return v
	}
	al, ok := u.X.(*ssa.Alloc)
	if !ok {
		return v
	}
	// last store to the cell in the same block before the load
	var last ssa.Value
	for _, in := range ret.Block().Instrs {
		if in == ssa.Instruction(u) {
			break
		}
		if st, ok := in.(*ssa.Store); ok && st.Addr == ssa.Value(al) {
			last = st.Val
		}
	}
	if last != nil {
		return last
	}
	return v
}

func retLast(ret *ssa.Return) ssa.Value { return retResult(ret, len(ret.Results)-1) }

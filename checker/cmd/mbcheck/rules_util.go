package main

import (
	"fmt"
	"go/token"
	"go/types"
	"sort"
	"strings"

	"golang.org/x/tools/go/ssa"
)

func top(fn *ssa.Function) *ssa.Function {
	for fn.Parent() != nil {
		fn = fn.Parent()
	}
	return fn
}

// Owner: the operation a statement belongs to — the outermost function that creates the builder, or, when that
// is a private helper (unexported plain function that no rule names) with a single calling operation, that caller.
// Extracting statements into such a helper therefore does not change who "owns" them.
func (c *Ctx) Owner(s *Stmt) string {
	if s.Via != nil {
		return c.Key(c.effectiveTop(top(s.Via.Parent()), 0))
	}
	return c.Key(c.effectiveTop(top(s.Fn), 0))
}

// ownedBy: every operation the statement's code runs in is one of the allowed ones. A statement built in a private
// helper shared by several operations (a method of a small state struct used by both seek actions) is owned by all of
// them; it is fine when all of them may do what it does.
func (c *Ctx) ownedBy(s *Stmt, allowed ...string) bool {
	if in(c.Owner(s), allowed...) {
		return true
	}
	f := s.Fn
	if s.Via != nil {
		f = s.Via.Parent()
	}
	owners := c.effectiveOwners(f, 0)
	if len(owners) == 0 {
		return false
	}
	for _, o := range owners {
		if !in(c.Key(o), allowed...) {
			return false
		}
	}
	return true
}

// namedAnchors: unexported functions and methods the properties name as mechanisms; they keep their own identity
// (statements they build are "theirs"), every other unexported function or method is transparent: it belongs to the
// operation(s) that call it.
var namedAnchors = map[string]bool{fnDeliver: true, fnDeadLetter: true, fnPullExec: true, fnPullQuery: true, fnPullBuild: true, fnPullNext: true, fnPullApply: true, fnPullVerify: true}

func (c *Ctx) effectiveTop(f *ssa.Function, depth int) *ssa.Function {
	if depth > 3 || f.Object() == nil || f.Object().Exported() || namedAnchors[c.Key(f)] {
		return f
	}
	if len(c.valueUses(f)) > 0 {
		return f
	}
	var owner *ssa.Function
	for _, ci := range c.callersOf(f) {
		t := c.effectiveTop(top(ci.Parent()), depth+1)
		if c.FnInControl(t) {
			continue
		}
		if owner == nil {
			owner = t
		} else if owner != t {
			return f
		}
	}
	if owner == nil {
		return f
	}
	return owner
}

// effectiveOwners: the operations a function's code runs in: itself when it is exported, an anchor, or used as a
// value; otherwise the owners of all its callers (a private helper shared by two operations has both as owners).
func (c *Ctx) effectiveOwners(f *ssa.Function, depth int) []*ssa.Function {
	f = top(f)
	if depth > 3 || f.Object() == nil || f.Object().Exported() || namedAnchors[c.Key(f)] || len(c.valueUses(f)) > 0 {
		return []*ssa.Function{f}
	}
	seen := map[*ssa.Function]bool{}
	var out []*ssa.Function
	for _, ci := range c.callersOf(f) {
		if c.FnInControl(ci.Parent()) {
			continue
		}
		for _, o := range c.effectiveOwners(ci.Parent(), depth+1) {
			if !seen[o] {
				seen[o] = true
				out = append(out, o)
			}
		}
	}
	if len(out) == 0 {
		return []*ssa.Function{f}
	}
	return out
}

// partOf: fn is the anchored function `anchor`, or an unexported helper (function or method) that is not itself an
// anchor and is called only from functions that are part of it (extracting a block into a private helper does not
// move the block out of the operation).
func (c *Ctx) partOf(fn *ssa.Function, anchor string, depth int) bool {
	fn = top(fn)
	if c.Key(fn) == anchor {
		return true
	}
	if depth > 3 || fn.Object() == nil || fn.Object().Exported() || namedAnchors[c.Key(fn)] || len(c.valueUses(fn)) > 0 {
		return false
	}
	cs := c.callersOf(fn)
	if len(cs) == 0 {
		return false
	}
	for _, ci := range cs {
		if !c.partOf(ci.Parent(), anchor, depth+1) {
			return false
		}
	}
	return true
}

// opFuncs: the functions that make up the operation anchored at fn: fn itself and the unexported, non-anchor helpers
// (functions and methods) that are called only from within it, transitively.
func (c *Ctx) opFuncs(fn *ssa.Function) []*ssa.Function {
	if c.opCache == nil {
		c.opCache = map[*ssa.Function][]*ssa.Function{}
	}
	if v, ok := c.opCache[fn]; ok {
		return v
	}
	out := []*ssa.Function{fn}
	inSet := map[*ssa.Function]bool{fn: true}
	// callee closure through unexported, non-anchor module helpers (a helper shared by two operations belongs to both)
	for i := 0; i < len(out) && len(out) < 64; i++ {
		var scan func(f *ssa.Function)
		scan = func(f *ssa.Function) {
			// calls through a private interface: every implementation is part of the operation
			for _, b := range f.Blocks {
				for _, in := range b.Instrs {
					ci, ok := in.(ssa.CallInstruction)
					if !ok || !ci.Common().IsInvoke() {
						continue
					}
					for _, impl := range c.privIfaceImpls(ci) {
						if inSet[impl] || len(impl.Blocks) == 0 || namedAnchors[c.Key(impl)] || c.EntShape().isGenerated(impl) || c.FnInControl(impl) {
							continue
						}
						inSet[impl] = true
						out = append(out, impl)
					}
				}
			}
			for _, ci := range callsIn(f, false, func(cal *ssa.Function, _ ssa.CallInstruction) bool { return true }) {
				cal := ci.Common().StaticCallee()
				if cal == nil {
					continue
				}
				if o := cal.Origin(); o != nil && false {
					cal = o
				}
				if inSet[cal] || len(cal.Blocks) == 0 || cal.Parent() != nil || !c.inModule(cal) || cal.Object() == nil || cal.Object().Exported() || namedAnchors[c.Key(cal)] || c.EntShape().isGenerated(cal) || c.FnInControl(cal) {
					continue
				}
				inSet[cal] = true
				out = append(out, cal)
			}
			// functions handed on as values: method values (`pc.execute` passed to a transaction runner), named functions
			for _, b := range f.Blocks {
				for _, in := range b.Instrs {
					var g *ssa.Function
					if mc, ok := in.(*ssa.MakeClosure); ok {
						if w, ok := mc.Fn.(*ssa.Function); ok {
							g = boundTarget(w)
						}
					}
					if call, ok := in.(*ssa.Call); ok {
						for _, a := range call.Call.Args {
							if fv, ok := a.(*ssa.Function); ok {
								g = fv
								if t := boundTarget(fv); t != nil {
									g = t
								}
							}
						}
					}
					if g == nil || inSet[g] || len(g.Blocks) == 0 || g.Parent() != nil || !c.inModule(g) || g.Object() == nil || g.Object().Exported() || namedAnchors[c.Key(g)] || c.EntShape().isGenerated(g) || c.FnInControl(g) {
						continue
					}
					inSet[g] = true
					out = append(out, g)
				}
			}
			for _, a := range f.AnonFuncs {
				scan(a)
			}
		}
		scan(out[i])
	}
	c.opCache[fn] = out
	return out
}

// allStmts includes nested eager-load statements.
func (es *entShape) All() []*Stmt {
	var out []*Stmt
	var add func(s *Stmt)
	add = func(s *Stmt) {
		out = append(out, s)
		for _, w := range s.Withs {
			for _, n := range w.Nested {
				add(n)
			}
		}
	}
	for _, s := range es.Stmts {
		add(s)
	}
	return out
}

// stmtKey: position-free key "update(deliveries)@owner#k" (k = ordinal among the owner's statements of that table+kind).
func (c *Ctx) stmtKeys() map[*Stmt]string {
	es := c.EntShape()
	groups := map[string][]*Stmt{}
	for _, s := range es.Stmts {
		g := s.Kind + "(" + s.Table + ")@" + c.Owner(s)
		if len(s.Frames) > 0 {
			g += "<-" + c.Key(top(s.Frames[len(s.Frames)-1].Parent()))
		}
		groups[g] = append(groups[g], s)
	}
	out := map[*Stmt]string{}
	for g, ss := range groups {
		sort.SliceStable(ss, func(i, j int) bool {
			if ss[i].Pos != ss[j].Pos {
				return ss[i].Pos < ss[j].Pos
			}
			return termPos(ss[i]) < termPos(ss[j])
		})
		for i, s := range ss {
			if len(ss) == 1 {
				out[s] = g
			} else {
				out[s] = fmt.Sprintf("%s#%d", g, i+1)
			}
		}
	}
	return out
}

func termPos(s *Stmt) token.Pos {
	if len(s.Terms) > 0 {
		return s.Terms[0].Call.Pos()
	}
	return s.Pos
}

// atom pattern
type ap struct {
	tbl  string
	col  string
	ops  []string
	kind string // "" = atom; or "edge","or","join","not"
	note string
}

func (a ap) String() string {
	k := a.kind
	if k == "" {
		k = "atom"
	}
	t := ""
	if a.tbl != "" {
		t = a.tbl + "."
	}
	return fmt.Sprintf("%s %s%s %s", k, t, a.col, strings.Join(a.ops, "|"))
}

func (a ap) match(p *Pred) bool {
	k := a.kind
	if k == "" {
		k = "atom"
	}
	if p.Kind != k {
		return false
	}
	if k == "atom" {
		if p.Col != a.col || p.Tbl != a.tbl {
			return false
		}
		for _, o := range a.ops {
			if p.Op == o {
				return true
			}
		}
		return false
	}
	if k == "edge" {
		return p.Tbl2 == a.tbl
	}
	return true
}

func restricting(p *Pred) bool {
	switch p.Kind {
	case "distinct", "select":
		return false
	case "join":
		return p.Join == "join" // an inner join restricts, a left join alone does not
	}
	return true
}

// matchAtoms: which required patterns are missing, and which restricting
// conjuncts are matched by neither `need` nor `allow`.
func (c *Ctx) matchAtoms(ps []*Pred, need, allow []ap) (missing []string, extra []*Pred, matched map[string]*Pred) {
	atoms := flatAtoms(ps)
	used := map[*Pred]bool{}
	matched = map[string]*Pred{}
	for _, n := range need {
		found := false
		for _, p := range atoms {
			if !used[p] && n.match(p) {
				used[p] = true
				found = true
				matched[n.String()] = p
				break
			}
		}
		if !found {
			missing = append(missing, n.String())
		}
	}
	for _, p := range atoms {
		if used[p] || !restricting(p) {
			continue
		}
		ok := false
		for _, a := range allow {
			if a.match(p) {
				ok = true
			}
		}
		if !ok {
			extra = append(extra, p)
		}
	}
	return
}

func (c *Ctx) predsString(ps []*Pred) string {
	var s []string
	for _, p := range ps {
		s = append(s, c.predString(p))
	}
	return strings.Join(s, " ∧ ")
}

// findStmts: statements whose owner (outermost function) is ownerKey, of a table and kind.
func (c *Ctx) findStmts(ownerKey, table, kind string) []*Stmt {
	var out []*Stmt
	for _, s := range c.EntShape().Stmts {
		if s.Table != table || s.Kind != kind {
			continue
		}
		if c.Owner(s) == ownerKey {
			out = append(out, s)
			continue
		}
		// an instance of a shared private helper's statement, completed for a call made by this operation
		if o := c.Owner(s); !namedAnchors[o] {
			if of := c.Fn(o); of != nil && of.Object() != nil && !of.Object().Exported() {
				for _, f := range s.Frames {
					if c.Key(c.effectiveTop(top(f.Parent()), 0)) == ownerKey {
						out = append(out, s)
						break
					}
				}
			}
		}
	}
	return out
}

// stmtsTouching: statements created in fn (or closures) or created in a helper and finished in fn.
func (c *Ctx) stmtsVia(ownerKey, viaKey, table, kind string) []*Stmt {
	var out []*Stmt
	for _, s := range c.EntShape().Stmts {
		if c.Owner(s) != ownerKey || s.Table != table || s.Kind != kind {
			continue
		}
		for _, f := range s.Frames {
			if c.Key(top(f.Parent())) == viaKey {
				out = append(out, s)
				break
			}
		}
	}
	return out
}

func srcHas(v ssa.Value, keys ...string) bool {
	if v == nil {
		return false
	}
	src := sources(v)
	for _, k := range keys {
		if !src[k] {
			return false
		}
	}
	return true
}

// returnsNilError: the Return's last result is the nil constant.
func returnsNilError(ret *ssa.Return) bool {
	if len(ret.Results) == 0 {
		return false
	}
	last := retLast(ret)
	if !isErrorType(last.Type()) {
		return false
	}
	return isNilConst(last)
}

// mayReturnNilError: the returned error can be nil — a constant nil, or a computed value (a call's result handed on)
// that the path has not established to be non-nil.
func mayReturnNilError(ret *ssa.Return) bool {
	if len(ret.Results) == 0 {
		return false
	}
	last := retLast(ret)
	if !isErrorType(last.Type()) {
		return false
	}
	if isNilConst(last) {
		return true
	}
	if _, isConst := last.(*ssa.Const); isConst {
		return false
	}
	switch last.(type) {
	case *ssa.Call, *ssa.Extract:
	default:
		return false // constructed errors (MakeInterface of a concrete error), globals, parameters
	}
	for _, cd := range edgeConds(ret.Block()) {
		nc := normCond(cd.V, cd.Pol)
		if bo, ok := nc.V.(*ssa.BinOp); ok && isNilConst(bo.Y) && bo.X == last {
			if (bo.Op == token.NEQ) == nc.Pol {
				return false // err != nil established
			}
		}
	}
	// errors.New / fmt.Errorf / status.Error(f) never return nil
	if call, ok := last.(*ssa.Call); ok {
		if cal := call.Call.StaticCallee(); cal != nil {
			p, n := fnPkgPath(cal), cal.Name()
			if p == "errors" && n == "New" || p == "fmt" && n == "Errorf" || strings.HasSuffix(p, "grpc/status") && (n == "Error" || n == "Errorf") {
				return false
			}
		}
	}
	return true
}

func isErrorType(t types.Type) bool {
	return types.Identical(t, types.Universe.Lookup("error").Type())
}

func returnsOf(fn *ssa.Function) []*ssa.Return {
	var out []*ssa.Return
	for _, b := range fn.Blocks {
		for _, in := range b.Instrs {
			if r, ok := in.(*ssa.Return); ok {
				out = append(out, r)
			}
		}
	}
	return out
}

// callsTo: call instructions in fn (optionally including nested closures) whose static callee satisfies pred.
func callsIn(fn *ssa.Function, nested bool, pred func(cal *ssa.Function, call ssa.CallInstruction) bool) []ssa.CallInstruction {
	var out []ssa.CallInstruction
	var walk func(f *ssa.Function)
	walk = func(f *ssa.Function) {
		for _, b := range f.Blocks {
			for _, in := range b.Instrs {
				if ci, ok := in.(ssa.CallInstruction); ok {
					if cal := ci.Common().StaticCallee(); cal != nil && pred(cal, ci) {
						out = append(out, ci)
					}
				}
			}
		}
		if nested {
			for _, a := range f.AnonFuncs {
				walk(a)
			}
		}
	}
	walk(fn)
	return out
}

// opFuncWhere: among the functions of the operation anchored at fn (fn itself first), the first one for which has()
// holds; fn when none does. Rules that look at one function at a time use it to follow a block that was extracted
// into a private helper.
func (c *Ctx) opFuncWhere(fn *ssa.Function, has func(f *ssa.Function) bool) *ssa.Function {
	for _, f := range c.opFuncs(fn) {
		if has(f) {
			return f
		}
	}
	return fn
}

func hasCallTo(target *ssa.Function) func(f *ssa.Function) bool {
	return func(f *ssa.Function) bool {
		return len(callsIn(f, false, func(cal *ssa.Function, _ ssa.CallInstruction) bool { return cal == target })) > 0
	}
}

// atOpSites runs f for every way the instruction `in` is reached from within the operation anchored at fn: once
// directly if it lies in fn (or one of its closures), otherwise once per call site — inside the operation — of the
// private helper that contains it, with the helper's parameters bound to that site's arguments.
func (c *Ctx) atOpSites(fn *ssa.Function, in ssa.Instruction, depth int, f func()) {
	h := top(in.Parent())
	if h == fn || depth > 2 {
		f()
		return
	}
	inOp := map[*ssa.Function]bool{}
	for _, g := range c.opFuncs(fn) {
		inOp[g] = true
	}
	n := 0
	for _, site := range c.callersOf(h) {
		if !inOp[top(site.Parent())] {
			continue
		}
		n++
		bind := map[*ssa.Parameter]ssa.Value{}
		for i, p := range h.Params {
			if i < len(site.Common().Args) {
				bind[p] = site.Common().Args[i]
			}
		}
		withBindMap(bind, func() { c.atOpSites(fn, site, depth+1, f) })
	}
	if n == 0 {
		f()
	}
}

// callsInOp: callsIn over the operation anchored at fn (fn, its closures, and the private helpers that belong to it).
func (c *Ctx) callsInOp(fn *ssa.Function, pred func(cal *ssa.Function, call ssa.CallInstruction) bool) []ssa.CallInstruction {
	var out []ssa.CallInstruction
	for _, f := range c.opFuncs(fn) {
		out = append(out, callsIn(f, true, pred)...)
	}
	return out
}

// callers: all call instructions in the module with the given static callee.
func (c *Ctx) callersOf(fn *ssa.Function) []ssa.CallInstruction {
	var out []ssa.CallInstruction
	for _, f := range c.Funcs {
		for _, b := range f.Blocks {
			for _, in := range b.Instrs {
				if ci, ok := in.(ssa.CallInstruction); ok {
					if cal := ci.Common().StaticCallee(); cal != nil && (cal == fn || cal.Origin() == fn) {
						out = append(out, ci)
					} else if ci.Common().IsInvoke() {
						// a call through a private interface of the module reaches each of its implementations
						for _, impl := range c.privIfaceImpls(ci) {
							if impl == fn {
								out = append(out, ci)
							}
						}
					}
				}
			}
		}
	}
	return out
}

// privIfaceImpls: for an invoke on an UNEXPORTED interface type declared in the module (a seam introduced inside a
// package, not an API): the module methods it can dispatch to. Exported interfaces are open (anyone may implement
// them) and are not resolved.
func (c *Ctx) privIfaceImpls(ci ssa.CallInstruction) []*ssa.Function {
	com := ci.Common()
	if !com.IsInvoke() {
		return nil
	}
	nm := namedOf(com.Value.Type())
	if nm == nil || nm.Obj().Pkg() == nil || nm.Obj().Exported() || !strings.HasPrefix(nm.Obj().Pkg().Path(), modPath) {
		return nil
	}
	iface, ok := nm.Underlying().(*types.Interface)
	if !ok {
		return nil
	}
	key := nm.Obj().Pkg().Path() + "." + nm.Obj().Name() + "." + com.Method.Name()
	if c.implCache == nil {
		c.implCache = map[string][]*ssa.Function{}
	}
	if v, ok := c.implCache[key]; ok {
		return v
	}
	var out []*ssa.Function
	for _, p := range c.Pkgs {
		if !strings.HasPrefix(p.PkgPath, modPath) || p.Types == nil {
			continue
		}
		sc := p.Types.Scope()
		for _, name := range sc.Names() {
			tn, ok := sc.Lookup(name).(*types.TypeName)
			if !ok || tn.IsAlias() {
				continue
			}
			t := tn.Type()
			if _, isI := t.Underlying().(*types.Interface); isI {
				continue
			}
			if n, isN := t.(*types.Named); isN && n.TypeParams().Len() > 0 {
				continue
			}
			for _, cand := range []types.Type{t, types.NewPointer(t)} {
				if types.Implements(cand, iface) {
					if m := c.Prog.LookupMethod(cand, com.Method.Pkg(), com.Method.Name()); m != nil {
						// the declared method, not the pointer-receiver wrapper of a value method
						if m.Synthetic != "" && !strings.HasPrefix(m.Synthetic, "instance") {
							for _, b := range m.Blocks {
								for _, in := range b.Instrs {
									if wc, ok := in.(ssa.CallInstruction); ok {
										if cal := wc.Common().StaticCallee(); cal != nil && cal.Name() == m.Name() {
											m = cal
										}
									}
								}
							}
						}
						dup := false
						for _, o := range out {
							if o == m {
								dup = true
							}
						}
						if !dup {
							out = append(out, m)
						}
					}
					break
				}
			}
		}
	}
	c.implCache[key] = out
	return out
}

// valueUses: instructions that use fn as a value (stored, passed, converted) rather than calling it; a function
// that escapes as a value can be called from anywhere, so who-may-call rules cannot be decided by its static callers.
func (c *Ctx) valueUses(fn *ssa.Function) []ssa.Instruction {
	var out []ssa.Instruction
	fns := append([]*ssa.Function(nil), c.Funcs...)
	for _, sp := range c.SSAPkg {
		// package-level variable initialisers live in the synthetic package initialiser
		if ini := sp.Func("init"); ini != nil {
			fns = append(fns, ini)
		}
	}
	for _, f := range fns {
		for _, b := range f.Blocks {
			for _, in := range b.Instrs {
				var ops []*ssa.Value
				ops = in.Operands(ops)
				for i, op := range ops {
					if *op == nil {
						continue
					}
					g, ok := (*op).(*ssa.Function)
					if !ok || !(g == fn || g.Origin() == fn) {
						continue
					}
					if ci, isCall := in.(ssa.CallInstruction); isCall && i == 0 && ci.Common().Value == *op {
						continue // the callee position
					}
					out = append(out, in)
				}
			}
		}
	}
	return out
}

// noValueUse fails the who-may-call rule when the restricted function escapes as a value.
func (r *Rep) noValueUse(c *Ctx, rule string, fn *ssa.Function) {
	for _, in := range c.valueUses(fn) {
		if c.FnInControl(in.Parent()) {
			continue
		}
		r.Undecided(rule, rule+":escapes-as-value:"+c.Key(fn)+"@"+c.Key(top(in.Parent())), in.Pos(), c.Key(fn)+" is used as a value in "+c.Key(top(in.Parent()))+": its callers can no longer be enumerated, the who-may-call rule is undecided")
	}
}

// condHas: among conds, one with the given polarity whose value satisfies pred.
func condHas(cs []Cond, pol bool, pred func(v ssa.Value) bool) bool {
	for _, c := range cs {
		if c.Pol == pol && pred(c.V) {
			return true
		}
	}
	return false
}

// isCmp: v is BinOp op between something whose sources include `field:<name>` (or path containing substr) and a constant/any.
func cmpOn(v ssa.Value, ops []token.Token, srcKey string) bool {
	b, ok := v.(*ssa.BinOp)
	if !ok {
		return false
	}
	okOp := false
	for _, o := range ops {
		if b.Op == o {
			okOp = true
		}
	}
	if !okOp {
		return false
	}
	return sources(b.X)[srcKey] || sources(b.Y)[srcKey]
}

// rawSQLCalls: direct SQL execution outside the ORM builders.
func (c *Ctx) rawSQLCalls() []ssa.CallInstruction {
	var out []ssa.CallInstruction
	names := map[string]bool{"Exec": true, "ExecContext": true, "Query": true, "QueryContext": true, "QueryRow": true, "QueryRowContext": true, "Prepare": true, "PrepareContext": true, "SendBatch": true}
	for _, f := range c.Funcs {
		if c.EntShape().isGenerated(f) {
			continue
		}
		for _, b := range f.Blocks {
			for _, in := range b.Instrs {
				ci, ok := in.(ssa.CallInstruction)
				if !ok {
					continue
				}
				com := ci.Common()
				var name, pkg, recv string
				if com.IsInvoke() {
					name = com.Method.Name()
					if n := namedOf(com.Value.Type()); n != nil && n.Obj().Pkg() != nil {
						pkg, recv = n.Obj().Pkg().Path(), n.Obj().Name()
					}
				} else if cal := com.StaticCallee(); cal != nil && cal.Signature.Recv() != nil {
					name = cal.Name()
					if n := namedOf(cal.Signature.Recv().Type()); n != nil && n.Obj().Pkg() != nil {
						pkg, recv = n.Obj().Pkg().Path(), n.Obj().Name()
					}
				}
				if !names[name] {
					continue
				}
				isDB := pkg == "database/sql" || pkg == "entgo.io/ent/dialect/sql" || pkg == "entgo.io/ent/dialect" ||
					strings.HasPrefix(pkg, "github.com/jackc/pgx") || pkg == "github.com/jmoiron/sqlx" ||
					(pkg == entPkg && (recv == "Tx" || recv == "Client"))
				if isDB {
					out = append(out, ci)
				}
			}
		}
	}
	return out
}

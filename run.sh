#!/bin/sh
# usage: ./run.sh <property id> [quick|thorough]
# (re)builds the checker when its sources are newer than the binary, then
# analyses /repo's current working tree. Exit 0 = property held on everything
# analysed; exit 1 = VIOLATION lines printed.
cd "$(dirname "$0")"
. ./env.sh
tier="${2:-${VERIF_TIER:-quick}}"
if [ ! -x bin/mbcheck ] || [ -n "$(find checker -name '*.go' -newer bin/mbcheck 2>/dev/null | head -1)" ]; then
  ./build.sh || { echo "VIOLATION property=$1 replay=/verif/build.sh (checker failed to build)"; exit 1; }
fi
exec ./bin/mbcheck run -property "$1" -tier "$tier"
